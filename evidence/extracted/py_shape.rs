// Python bindings (pybigtools/src/lib.rs), the BINNED fillers: the pieces that decide what a finished bin reports,
// carved out of to_array_bins / to_array_zoom / to_entry_array_bins / to_entry_array_zoom (real text, cut on every run).
// Kani cannot decide these VecDeque routines (unit py_bins, NOTES), so the fixes of findings F3-F5 are guarded here:
//   (a) bigWig: the `match summary { .. }` that turns a popped bin's accumulator into the reported number   (4 sites)
//   (b) bigBed: the `bin_data.push_back((bin, bin_start, bin_end, vec![0; n], vec![f64::NAN; n]))` statement (2 sites)
//       and the `match summary { .. }` finalisation over the per-base cells                                   (4 sites)
//   (c) bigBed exact bins: the per-cell update loops of one entry on one bin                                  (1 site)
//   (d) bigWig exact bins: the accumulation step of one value on one bin                                      (1 site)
//   (e) the FRAME of each of the four fillers (the complement of the carve-outs; whole function, 4 extractions): the
//       initialisation `v.fill(missing)` (the array a caller passes holds ARBITRARY numbers), the integer prologue of every
//       iteration (`interval_start` / `interval_end`: the item clamped to the request, minus the request's start, as
//       mathematical integers), the pop loop and the drain loop as far as WHERE a finalisation is stored.
// Floats are uninterpreted: SHAPE only (which operation on which operands, NaN test as an uninterpreted predicate).
// NOT covered: the deque bookkeeping (which bins exist, which interval meets which bin, when a bin is popped), the
// f64 bin arithmetic, the zoom cell update / zoom accumulation.  See NOTES.md.
use vstd::prelude::*;
use vstd::std_specs::ops::*;
use vstd::std_specs::convert::FromSpec;
use std::collections::VecDeque;
verus! {
global size_of usize == 8;
// ---- shared float prelude -------------------------------------------------
// Rust float operators are total; Verus models their results as uninterpreted
// functions (`add_spec`, `mul_spec`, `from_spec`, ...).  The axioms below say
// only (1) the operators have no precondition and (2) the exec operator returns
// the value of its spec function (determinism).  Nothing numerical is assumed.
mod float_ax {
use vstd::prelude::*;
use vstd::std_specs::ops::*;
use vstd::std_specs::convert::FromSpec;
pub broadcast axiom fn ax_f64_mul_total(a: f64, b: f64) ensures #[trigger] a.mul_req(b);
pub broadcast axiom fn ax_f64_add_total(a: f64, b: f64) ensures #[trigger] a.add_req(b);
pub broadcast axiom fn ax_f64_sub_total(a: f64, b: f64) ensures #[trigger] a.sub_req(b);
pub broadcast axiom fn ax_f64_div_total(a: f64, b: f64) ensures #[trigger] a.div_req(b);
pub broadcast axiom fn ax_f32_add_total(a: f32, b: f32) ensures #[trigger] a.add_req(b);
pub broadcast axiom fn ax_f32_sub_total(a: f32, b: f32) ensures #[trigger] a.sub_req(b);
pub broadcast group float_total { ax_f64_mul_total, ax_f64_add_total, ax_f64_sub_total, ax_f64_div_total, ax_f32_add_total, ax_f32_sub_total }
pub axiom fn float_det()
    ensures
        <f64 as AddSpec<f64>>::obeys_add_spec(), <f64 as MulSpec<f64>>::obeys_mul_spec(),
        <f64 as SubSpec<f64>>::obeys_sub_spec(), <f64 as DivSpec<f64>>::obeys_div_spec(),
        <f32 as AddSpec<f32>>::obeys_add_spec(), <f32 as SubSpec<f32>>::obeys_sub_spec(),
        <f64 as FromSpec<u32>>::obeys_from_spec(), <f64 as FromSpec<f32>>::obeys_from_spec();
}
broadcast use float_ax::float_total;
pub uninterp spec fn fmin(a: f64, b: f64) -> f64;
pub uninterp spec fn fmax(a: f64, b: f64) -> f64;
pub assume_specification [f64::min] (a: f64, b: f64) -> (r: f64) ensures r == fmin(a, b);
pub assume_specification [f64::max] (a: f64, b: f64) -> (r: f64) ensures r == fmax(a, b);
// float constants (rule R12c): Verus has no model of core::f64 associated consts; each is an
// uninterpreted spec constant, distinct names so that swapping two of them is visible.
pub uninterp spec fn spec_f64_max() -> f64;
pub uninterp spec fn spec_f64_min() -> f64;
pub uninterp spec fn spec_f64_min_positive() -> f64;
pub uninterp spec fn spec_f64_nan() -> f64;
pub uninterp spec fn spec_f64_infinity() -> f64;
pub uninterp spec fn spec_f64_neg_infinity() -> f64;
pub uninterp spec fn spec_f64_epsilon() -> f64;
#[verifier::external_body] pub fn fconst_f64_max() -> (r: f64) ensures r == spec_f64_max() { f64::MAX }
#[verifier::external_body] pub fn fconst_f64_min() -> (r: f64) ensures r == spec_f64_min() { f64::MIN }
#[verifier::external_body] pub fn fconst_f64_min_positive() -> (r: f64) ensures r == spec_f64_min_positive() { f64::MIN_POSITIVE }
#[verifier::external_body] pub fn fconst_f64_nan() -> (r: f64) ensures r == spec_f64_nan() { f64::NAN }
#[verifier::external_body] pub fn fconst_f64_infinity() -> (r: f64) ensures r == spec_f64_infinity() { f64::INFINITY }
#[verifier::external_body] pub fn fconst_f64_neg_infinity() -> (r: f64) ensures r == spec_f64_neg_infinity() { f64::NEG_INFINITY }
#[verifier::external_body] pub fn fconst_f64_epsilon() -> (r: f64) ensures r == spec_f64_epsilon() { f64::EPSILON }

#[derive(Copy, Clone)]
enum Summary {
    Mean,
    Min,
    Max,
}
#[derive(Copy, Clone)]
pub struct Value {
    pub start: u32,
    pub end: u32,
    pub value: f32,
}

// =====================================================================================
// shims (ASSUMED; listed in NOTES.md)
// =====================================================================================
pub uninterp spec fn is_nan_spec(x: f64) -> bool;
pub assume_specification [f64::is_nan] (x: f64) -> (r: bool) ensures r == is_nan_spec(x);
/// `x as f64` for an integer (uninterpreted; exact for |x| < 2^53)
pub uninterp spec fn f64_of_int(i: int) -> f64;
pub trait IntToF64: Sized { spec fn as_int(self) -> int; }
impl IntToF64 for i32 { open spec fn as_int(self) -> int { self as int } }
impl IntToF64 for u32 { open spec fn as_int(self) -> int { self as int } }
impl IntToF64 for i64 { open spec fn as_int(self) -> int { self as int } }
impl IntToF64 for u64 { open spec fn as_int(self) -> int { self as int } }
impl IntToF64 for usize { open spec fn as_int(self) -> int { self as int } }
#[verifier::external_body]
pub fn as_f64<T: IntToF64>(x: T) -> (r: f64) ensures r == f64_of_int(x.as_int()) { unimplemented!() }
/// `v as f64` for an f32 (exact widening; uninterpreted here)
pub uninterp spec fn f64_of(x: f32) -> f64;
#[verifier::external_body]
pub fn f64_of_f32(x: f32) -> (r: f64) ensures r == f64_of(x) { x as f64 }
/// the value a result variable holds before the carved `match` assigns it: unknown
#[verifier::external_body]
pub fn unset_f64() -> (r: f64) { unimplemented!() }
/// `vec![x; n]` (std `from_elem`): n copies of x
#[verifier::external_body]
pub fn vec_of<T: Copy>(x: T, n: usize) -> (r: Vec<T>)
    ensures r@.len() == n, forall|i: int| 0 <= i < n ==> (#[trigger] r@[i]) == x,
{ unimplemented!() }
/// `&mut v[a..b]` panics unless a <= b <= len (std slice index): a real precondition
pub fn slice_bounds<T>(v: &Vec<T>, r: &core::ops::Range<usize>)
    requires r.start <= r.end, r.end <= v@.len(),
{ }
/// the element handed out by `for i in &mut v[range]`
#[verifier::external_body]
pub fn cell_mut<T>(v: &mut Vec<T>, i: usize) -> (r: &mut T)
    requires i < old(v)@.len(),
    ensures *r == old(v)@[i as int], final(v)@ == old(v)@.update(i as int, *final(r)),
{ unimplemented!() }
/// std's `Sum<f64>` starts its left fold from a fixed neutral constant (0.0 or -0.0 depending on the std version)
pub uninterp spec fn sum_start() -> f64;
#[verifier::external_body]
pub fn sum_start_f64() -> (r: f64) ensures r == sum_start() { 0.0 }

// ---- iterator chains of the finalisation, as verified loops (the STD contract of each chain is the `ensures`) ----
/// `cells.into_iter().reduce(|acc, x| acc.min(x))`: None when empty, else the left fold of f64::min from the first cell
pub open spec fn fold_min(s: Seq<f64>) -> f64 decreases s.len() {
    if s.len() <= 1 { s[0] } else { fmin(fold_min(s.drop_last()), s.last()) }
}
pub open spec fn fold_max(s: Seq<f64>) -> f64 decreases s.len() {
    if s.len() <= 1 { s[0] } else { fmax(fold_max(s.drop_last()), s.last()) }
}
pub fn reduce_min(v: &Vec<f64>) -> (r: Option<f64>)
    ensures v@.len() == 0 ==> r is None, v@.len() > 0 ==> r == Some(fold_min(v@)),
{
    if v.len() == 0 { return None; }
    let mut acc = v[0];
    let mut k: usize = 1;
    assert(v@.take(1).drop_last() =~= Seq::<f64>::empty());
    while k < v.len()
        invariant 1 <= k <= v@.len(), acc == fold_min(v@.take(k as int)),
        decreases v@.len() - k,
    {
        proof { assert(v@.take(k + 1).drop_last() =~= v@.take(k as int)); assert(v@.take(k + 1).last() == v@[k as int]); }
        acc = acc.min(v[k]);
        k = k + 1;
    }
    proof { assert(v@.take(v@.len() as int) =~= v@); }
    Some(acc)
}
pub fn reduce_max(v: &Vec<f64>) -> (r: Option<f64>)
    ensures v@.len() == 0 ==> r is None, v@.len() > 0 ==> r == Some(fold_max(v@)),
{
    if v.len() == 0 { return None; }
    let mut acc = v[0];
    let mut k: usize = 1;
    while k < v.len()
        invariant 1 <= k <= v@.len(), acc == fold_max(v@.take(k as int)),
        decreases v@.len() - k,
    {
        proof { assert(v@.take(k + 1).drop_last() =~= v@.take(k as int)); assert(v@.take(k + 1).last() == v@[k as int]); }
        acc = acc.max(v[k]);
        k = k + 1;
    }
    proof { assert(v@.take(v@.len() as int) =~= v@); }
    Some(acc)
}
/// `flags.iter().any(|v| *v > c)` / `>= c`
pub open spec fn some_gt(s: Seq<i32>, c: int) -> bool { exists|i: int| 0 <= i < s.len() && #[trigger] s[i] > c }
pub open spec fn some_ge(s: Seq<i32>, c: int) -> bool { exists|i: int| 0 <= i < s.len() && #[trigger] s[i] >= c }
pub fn any_gt(v: &Vec<i32>, c: i32) -> (r: bool) ensures r == some_gt(v@, c as int) {
    let mut k: usize = 0;
    while k < v.len()
        invariant k <= v@.len(), forall|i: int| 0 <= i < k ==> !(#[trigger] v@[i] > c),
        decreases v@.len() - k,
    { if v[k] > c { return true; } k = k + 1; }
    false
}
pub fn any_ge(v: &Vec<i32>, c: i32) -> (r: bool) ensures r == some_ge(v@, c as int) {
    let mut k: usize = 0;
    while k < v.len()
        invariant k <= v@.len(), forall|i: int| 0 <= i < k ==> !(#[trigger] v@[i] >= c),
        decreases v@.len() - k,
    { if v[k] >= c { return true; } k = k + 1; }
    false
}
/// `flags.into_iter().sum::<i32>()`: the integer sum (panics / wraps on overflow: `requires` the flags are 0/1)
pub open spec fn isum(s: Seq<i32>) -> int decreases s.len() { if s.len() == 0 { 0 } else { isum(s.drop_last()) + s.last() } }
pub open spec fn flags01(s: Seq<i32>) -> bool { s.len() <= i32::MAX && forall|i: int| 0 <= i < s.len() ==> 0 <= (#[trigger] s[i]) <= 1 }
proof fn lemma_isum_bound(s: Seq<i32>)
    requires forall|i: int| 0 <= i < s.len() ==> 0 <= (#[trigger] s[i]) <= 1,
    ensures 0 <= isum(s) <= s.len(),
    decreases s.len()
{ if s.len() > 0 { lemma_isum_bound(s.drop_last()); } }
pub fn sum_i32(v: &Vec<i32>) -> (r: i32)
    requires flags01(v@),
    ensures r == isum(v@),
{
    let mut acc: i32 = 0;
    let mut k: usize = 0;
    while k < v.len()
        invariant k <= v@.len(), acc == isum(v@.take(k as int)), flags01(v@), 0 <= acc <= k,
        decreases v@.len() - k,
    {
        proof { assert(v@.take(k + 1).drop_last() =~= v@.take(k as int)); assert(v@.take(k + 1).last() == v@[k as int]); }
        acc = acc + v[k];
        k = k + 1;
    }
    proof { assert(v@.take(v@.len() as int) =~= v@); }
    acc
}
/// `cells.into_iter().map(|c| c.max(lo)).sum::<f64>()`: left fold of `acc + fmax(cell, lo)` from std's start constant
pub open spec fn sum_clamped_spec(s: Seq<f64>, lo: f64) -> f64 decreases s.len() {
    if s.len() == 0 { sum_start() } else { sum_clamped_spec(s.drop_last(), lo).add_spec(fmax(s.last(), lo)) }
}
pub fn sum_clamped(v: &Vec<f64>, lo: f64) -> (r: f64) ensures r == sum_clamped_spec(v@, lo) {
    proof { float_ax::float_det(); }
    let mut acc = sum_start_f64();
    let mut k: usize = 0;
    while k < v.len()
        invariant k <= v@.len(), acc == sum_clamped_spec(v@.take(k as int), lo),
        decreases v@.len() - k,
    {
        proof { float_ax::float_det(); assert(v@.take(k + 1).drop_last() =~= v@.take(k as int)); assert(v@.take(k + 1).last() == v@[k as int]); }
        acc = acc + v[k].max(lo);
        k = k + 1;
    }
    proof { assert(v@.take(v@.len() as int) =~= v@); }
    acc
}

// =====================================================================================
// specification vocabulary (written from the property)
// =====================================================================================
/// bigWig: what a finished bin reports, from its accumulator `Option<(covered_bases, value)>`
spec fn bw_finish(acc: Option<(i32, f64)>, summary: Summary, missing: f64) -> f64 {
    match summary {
        Summary::Mean => match acc {
            Some(t) => if t.0 > 0 { t.1.div_spec(f64_of_int(t.0 as int)) } else { missing },
            None => missing,
        },
        _ => match acc { Some(t) => t.1, None => missing },
    }
}
/// bigBed: a finished bin, from its per-base covered flags and per-base counts (NaN = base without entry)
pub open spec fn nan_to_missing(x: f64, missing: f64) -> f64 { if is_nan_spec(x) { missing } else { x } }
spec fn bb_finish(flags: Seq<i32>, cells: Seq<f64>, summary: Summary, missing: f64) -> f64 {
    match summary {
        Summary::Min => if cells.len() == 0 { missing } else { nan_to_missing(fold_min(cells), missing) },
        Summary::Max => if cells.len() == 0 { missing } else { nan_to_missing(fold_max(cells), missing) },
        Summary::Mean => if some_gt(flags, 0) { sum_clamped_spec(cells, 0.0f64).div_spec(f64_of_int(isum(flags))) } else { missing },
    }
}
/// bigWig accumulator before a value is added: the stored one, or the initial one (Min/Max: NaN so that f64::min/max return the first value; Mean: 0.0)
spec fn acc0(d: Option<(i32, f64)>, summary: Summary) -> (i32, f64) {
    match d { Some(t) => t, None => match summary { Summary::Mean => (0i32, 0.0f64), _ => (0i32, spec_f64_nan()) } }
}
pub open spec fn imax(a: int, b: int) -> int { if a >= b { a } else { b } }
pub open spec fn imin(a: int, b: int) -> int { if a <= b { a } else { b } }

// ---- (a) to_array_bins: finalisation of a popped bin, inside the interval loop ----
fn finish_bin_bwb_loop(front3: Option<(i32, f64)>, summary: Summary, missing: f64, bin_size: f64) -> (r: f64)
    ensures
        
        !(summary is Mean) ==> r == bw_finish(front3, summary, missing),
        
        summary is Mean && (front3 is None || front3->Some_0.0 <= 0) ==> r == missing,
        
        summary is Mean && front3 is Some && front3->Some_0.0 > 0 ==> r == front3->Some_0.1.div_spec(f64_of_int(front3->Some_0.0 as int)),
{
    proof { float_ax::float_det(); }

    let mut r__: f64 = unset_f64();
    match summary {
                    Summary::Min => {
                        r__ =(match front3 { Some(v) => v.1, None => missing });
                    }
                    Summary::Max => {
                        r__ =(match front3 { Some(v) => v.1, None => missing });
                    }
                    Summary::Mean => {
                        r__ =(match (match front3 { Some(t__) => { let c = &t__.0; if *c > 0 { Some(t__) } else { None } } None => None }) { Some((c, v)) => v / as_f64(c), None => missing });
                    }
                }
    r__
}

// ---- (a) to_array_bins: finalisation of a popped bin, the closing drain loop ----
fn finish_bin_bwb_drain(front3: Option<(i32, f64)>, summary: Summary, missing: f64, bin_size: f64) -> (r: f64)
    ensures
        
        !(summary is Mean) ==> r == bw_finish(front3, summary, missing),
        
        summary is Mean && (front3 is None || front3->Some_0.0 <= 0) ==> r == missing,
        
        summary is Mean && front3 is Some && front3->Some_0.0 > 0 ==> r == front3->Some_0.1.div_spec(f64_of_int(front3->Some_0.0 as int)),
{
    proof { float_ax::float_det(); }

    let mut r__: f64 = unset_f64();
    match summary {
            Summary::Min => {
                r__ =(match front3 { Some(v) => v.1, None => missing });
            }
            Summary::Max => {
                r__ =(match front3 { Some(v) => v.1, None => missing });
            }
            Summary::Mean => {
                r__ =(match (match front3 { Some(t__) => { let c = &t__.0; if *c > 0 { Some(t__) } else { None } } None => None }) { Some((c, v)) => v / as_f64(c), None => missing });
            }
        }
    r__
}

// ---- (a) to_array_zoom: finalisation of a popped bin, inside the interval loop ----
fn finish_bin_bwz_loop(front3: Option<(i32, f64)>, summary: Summary, missing: f64, bin_size: f64) -> (r: f64)
    ensures
        
        !(summary is Mean) ==> r == bw_finish(front3, summary, missing),
        
        summary is Mean && (front3 is None || front3->Some_0.0 <= 0) ==> r == missing,
        
        summary is Mean && front3 is Some && front3->Some_0.0 > 0 ==> r == front3->Some_0.1.div_spec(f64_of_int(front3->Some_0.0 as int)),
{
    proof { float_ax::float_det(); }

    let mut r__: f64 = unset_f64();
    match summary {
                    Summary::Min => {
                        r__ =(match front3 { Some(v) => v.1, None => missing });
                    }
                    Summary::Max => {
                        r__ =(match front3 { Some(v) => v.1, None => missing });
                    }
                    Summary::Mean => {
                        r__ =(match (match front3 { Some(t__) => { let c = &t__.0; if *c > 0 { Some(t__) } else { None } } None => None }) { Some((c, v)) => v / as_f64(c), None => missing });
                    }
                }
    r__
}

// ---- (a) to_array_zoom: finalisation of a popped bin, the closing drain loop ----
fn finish_bin_bwz_drain(front3: Option<(i32, f64)>, summary: Summary, missing: f64, bin_size: f64) -> (r: f64)
    ensures
        
        !(summary is Mean) ==> r == bw_finish(front3, summary, missing),
        
        summary is Mean && (front3 is None || front3->Some_0.0 <= 0) ==> r == missing,
        
        summary is Mean && front3 is Some && front3->Some_0.0 > 0 ==> r == front3->Some_0.1.div_spec(f64_of_int(front3->Some_0.0 as int)),
{
    proof { float_ax::float_det(); }

    let mut r__: f64 = unset_f64();
    match summary {
            Summary::Min => {
                r__ =(match front3 { Some(v) => v.1, None => missing });
            }
            Summary::Max => {
                r__ =(match front3 { Some(v) => v.1, None => missing });
            }
            Summary::Mean => {
                r__ =(match (match front3 { Some(t__) => { let c = &t__.0; if *c > 0 { Some(t__) } else { None } } None => None }) { Some((c, v)) => v / as_f64(c), None => missing });
            }
        }
    r__
}

// ---- (b) to_entry_array_bins: a new bin enters the deque ----
fn new_bin_bbb_new(bin: usize, bin_start: i32, bin_end: i32, missing: f64, bin_data: &mut VecDeque<(usize, i32, i32, Vec<i32>, Vec<f64>)>)
    requires
        
        // bin_start = (bin * bin_size) as i32, bin_end = ((bin + 1) * bin_size) as i32: truncation is monotone
        0 <= bin_start <= bin_end,
    ensures
        
        final(bin_data)@.len() == old(bin_data)@.len() + 1,
        forall|i: int| 0 <= i < old(bin_data)@.len() ==> (#[trigger] final(bin_data)@[i]) == old(bin_data)@[i],
        final(bin_data)@.last().0 == bin && final(bin_data)@.last().1 == bin_start && final(bin_data)@.last().2 == bin_end,
        
        final(bin_data)@.last().3@.len() == bin_end - bin_start && final(bin_data)@.last().4@.len() == bin_end - bin_start,
        
        forall|k: int| 0 <= k < bin_end - bin_start ==> (#[trigger] final(bin_data)@.last().3@[k]) == 0,
        
        forall|k: int| 0 <= k < bin_end - bin_start ==> (#[trigger] final(bin_data)@.last().4@[k]) == spec_f64_nan(),
{
    bin_data.push_back((
                bin,
                bin_start,
                bin_end,
                vec_of(0, (bin_end - bin_start) as usize),
                // Per-base counts start out unset (NaN), whatever the missing value is
                vec_of(fconst_f64_nan(), (bin_end - bin_start) as usize),
            ));
}

// ---- (b) to_entry_array_zoom: a new bin enters the deque ----
fn new_bin_bbz_new(bin: usize, bin_start: i32, bin_end: i32, missing: f64, bin_data: &mut VecDeque<(usize, i32, i32, Vec<i32>, Vec<f64>)>)
    requires
        
        // bin_start = (bin * bin_size) as i32, bin_end = ((bin + 1) * bin_size) as i32: truncation is monotone
        0 <= bin_start <= bin_end,
    ensures
        
        final(bin_data)@.len() == old(bin_data)@.len() + 1,
        forall|i: int| 0 <= i < old(bin_data)@.len() ==> (#[trigger] final(bin_data)@[i]) == old(bin_data)@[i],
        final(bin_data)@.last().0 == bin && final(bin_data)@.last().1 == bin_start && final(bin_data)@.last().2 == bin_end,
        
        final(bin_data)@.last().3@.len() == bin_end - bin_start && final(bin_data)@.last().4@.len() == bin_end - bin_start,
        
        forall|k: int| 0 <= k < bin_end - bin_start ==> (#[trigger] final(bin_data)@.last().3@[k]) == 0,
        
        forall|k: int| 0 <= k < bin_end - bin_start ==> (#[trigger] final(bin_data)@.last().4@[k]) == spec_f64_nan(),
{
    bin_data.push_back((
                bin,
                bin_start,
                bin_end,
                vec_of(0, (bin_end - bin_start) as usize),
                // Per-base counts start out unset (NaN), whatever the missing value is
                vec_of(fconst_f64_nan(), (bin_end - bin_start) as usize),
            ));
}

// ---- (b) to_entry_array_bins: finalisation of a popped bin over its per-base cells, inside the interval loop ----
fn finish_entry_bin_bbb_loop(front3: Vec<i32>, front4: Vec<f64>, summary: Summary, missing: f64, bin_size: f64) -> (r: f64)
    requires
        
        // what new_bin_* and bump_cells_* (below) establish; rules out the i32 overflow of `.sum::<i32>()`
        flags01(front3@),
    ensures
        
        summary is Min ==> r == bb_finish(front3@, front4@, summary, missing),
        
        summary is Max ==> r == bb_finish(front3@, front4@, summary, missing),
        
        summary is Mean && !some_gt(front3@, 0) ==> r == missing,
        
        summary is Mean && some_gt(front3@, 0) ==> r == sum_clamped_spec(front4@, 0.0f64).div_spec(f64_of_int(isum(front3@))),
{
    proof { float_ax::float_det(); }

    let mut r__: f64 = unset_f64();
    match summary {
                    Summary::Min => {
                        r__ =(match reduce_min(&front4) { Some(t__) => { let m = &t__; if !m.is_nan() { Some(t__) } else { None } } None => None }).unwrap_or(missing);
                    }
                    Summary::Max => {
                        r__ =(match reduce_max(&front4) { Some(t__) => { let m = &t__; if !m.is_nan() { Some(t__) } else { None } } None => None }).unwrap_or(missing);
                    }
                    Summary::Mean => {
                        r__ =(match (if any_gt(&front3, 0) { Some(as_f64(sum_i32(&front3))) } else { None }) { Some(c) => sum_clamped(&front4, 0.0) / c, None => missing });
                    }
                }
    r__
}

// ---- (b) to_entry_array_bins: finalisation of a popped bin over its per-base cells, the closing drain loop ----
fn finish_entry_bin_bbb_drain(front3: Vec<i32>, front4: Vec<f64>, summary: Summary, missing: f64, bin_size: f64) -> (r: f64)
    requires
        
        // what new_bin_* and bump_cells_* (below) establish; rules out the i32 overflow of `.sum::<i32>()`
        flags01(front3@),
    ensures
        
        summary is Min ==> r == bb_finish(front3@, front4@, summary, missing),
        
        summary is Max ==> r == bb_finish(front3@, front4@, summary, missing),
        
        summary is Mean && !some_gt(front3@, 0) ==> r == missing,
        
        summary is Mean && some_gt(front3@, 0) ==> r == sum_clamped_spec(front4@, 0.0f64).div_spec(f64_of_int(isum(front3@))),
{
    proof { float_ax::float_det(); }

    let mut r__: f64 = unset_f64();
    match summary {
            Summary::Min => {
                r__ =(match reduce_min(&front4) { Some(t__) => { let m = &t__; if !m.is_nan() { Some(t__) } else { None } } None => None }).unwrap_or(missing);
            }
            Summary::Max => {
                r__ =(match reduce_max(&front4) { Some(t__) => { let m = &t__; if !m.is_nan() { Some(t__) } else { None } } None => None }).unwrap_or(missing);
            }
            Summary::Mean => {
                r__ =(match (if any_gt(&front3, 0) { Some(as_f64(sum_i32(&front3))) } else { None }) { Some(c) => sum_clamped(&front4, 0.0) / c, None => missing });
            }
        }
    r__
}

// ---- (b) to_entry_array_zoom: finalisation of a popped bin over its per-base cells, inside the interval loop ----
fn finish_entry_bin_bbz_loop(front3: Vec<i32>, front4: Vec<f64>, summary: Summary, missing: f64, bin_size: f64) -> (r: f64)
    requires
        
        // what new_bin_* and bump_cells_* (below) establish; rules out the i32 overflow of `.sum::<i32>()`
        flags01(front3@),
    ensures
        
        summary is Min ==> r == bb_finish(front3@, front4@, summary, missing),
        
        summary is Max ==> r == bb_finish(front3@, front4@, summary, missing),
        
        summary is Mean && !some_gt(front3@, 0) ==> r == missing,
        
        summary is Mean && some_gt(front3@, 0) ==> r == sum_clamped_spec(front4@, 0.0f64).div_spec(f64_of_int(isum(front3@))),
{
    proof { float_ax::float_det(); }

    let mut r__: f64 = unset_f64();
    match summary {
                    Summary::Min => {
                        r__ =(match reduce_min(&front4) { Some(t__) => { let m = &t__; if !m.is_nan() { Some(t__) } else { None } } None => None }).unwrap_or(missing);
                    }
                    Summary::Max => {
                        r__ =(match reduce_max(&front4) { Some(t__) => { let m = &t__; if !m.is_nan() { Some(t__) } else { None } } None => None }).unwrap_or(missing);
                    }
                    Summary::Mean => {
                        r__ =(match (if any_gt(&front3, 0) { Some(as_f64(sum_i32(&front3))) } else { None }) { Some(c) => sum_clamped(&front4, 0.0) / c, None => missing });
                    }
                }
    r__
}

// ---- (b) to_entry_array_zoom: finalisation of a popped bin over its per-base cells, the closing drain loop ----
fn finish_entry_bin_bbz_drain(front3: Vec<i32>, front4: Vec<f64>, summary: Summary, missing: f64, bin_size: f64) -> (r: f64)
    requires
        
        // what new_bin_* and bump_cells_* (below) establish; rules out the i32 overflow of `.sum::<i32>()`
        flags01(front3@),
    ensures
        
        summary is Min ==> r == bb_finish(front3@, front4@, summary, missing),
        
        summary is Max ==> r == bb_finish(front3@, front4@, summary, missing),
        
        summary is Mean && !some_gt(front3@, 0) ==> r == missing,
        
        summary is Mean && some_gt(front3@, 0) ==> r == sum_clamped_spec(front4@, 0.0f64).div_spec(f64_of_int(isum(front3@))),
{
    proof { float_ax::float_det(); }

    let mut r__: f64 = unset_f64();
    match summary {
            Summary::Min => {
                r__ =(match reduce_min(&front4) { Some(t__) => { let m = &t__; if !m.is_nan() { Some(t__) } else { None } } None => None }).unwrap_or(missing);
            }
            Summary::Max => {
                r__ =(match reduce_max(&front4) { Some(t__) => { let m = &t__; if !m.is_nan() { Some(t__) } else { None } } None => None }).unwrap_or(missing);
            }
            Summary::Mean => {
                r__ =(match (if any_gt(&front3, 0) { Some(as_f64(sum_i32(&front3))) } else { None }) { Some(c) => sum_clamped(&front4, 0.0) / c, None => missing });
            }
        }
    r__
}

// ---- (c) to_entry_array_bins: one entry meets one bin: the two per-cell update loops ----
fn bump_cells_bbb(bin_start: &i32, bin_end: &i32, interval_start: i32, interval_end: i32, covered: &mut Vec<i32>, data: &mut Vec<f64>)
    requires
        
        0 <= *bin_start <= *bin_end,
        old(covered)@.len() == *bin_end - *bin_start, old(data)@.len() == *bin_end - *bin_start,
        
        // `if interval_end <= *bin_start { break; }` right above the carved text
        *bin_start < interval_end, 0 <= interval_start <= interval_end,
        
        // bins in the deque have index >= (interval_start / bin_size) as usize, and ((b + 1) * bin_size) as i32 >= x for
        // b = (x / bin_size) as usize (monotone rounding): float fact, checked boundedly by Kani (py_bins lemma_bin_of_a_base_*)
        interval_start <= *bin_end,
        
        forall|k: int| 0 <= k < old(covered)@.len() ==> 0 <= (#[trigger] old(covered)@[k]) <= 1,
    ensures
        
        final(covered)@.len() == old(covered)@.len() && final(data)@.len() == old(data)@.len(),
        
        forall|k: int| imax(*bin_start as int, interval_start as int) - *bin_start <= k < imin(*bin_end as int, interval_end as int) - *bin_start
            ==> #[trigger] final(data)@[k] == fmax(old(data)@[k], 0.0f64).add_spec(1.0f64),
        
        forall|k: int| imax(*bin_start as int, interval_start as int) - *bin_start <= k < imin(*bin_end as int, interval_end as int) - *bin_start
            ==> #[trigger] final(covered)@[k] == imax(old(covered)@[k] as int, 1),
        
        forall|k: int| 0 <= k < old(data)@.len() && !(imax(*bin_start as int, interval_start as int) - *bin_start <= k < imin(*bin_end as int, interval_end as int) - *bin_start)
            ==> #[trigger] final(data)@[k] == old(data)@[k] && #[trigger] final(covered)@[k] == old(covered)@[k],
        
        forall|k: int| 0 <= k < final(covered)@.len() ==> 0 <= (#[trigger] final(covered)@[k]) <= 1,
{
    proof { float_ax::float_det(); }

            let overlap_start = (*bin_start).max(interval_start);
            let overlap_end = (*bin_end).min(interval_end);

            let range =
                ((overlap_start - *bin_start) as usize)..((overlap_end - *bin_start) as usize);

            proof {
                assert(range.start == imax(*bin_start as int, interval_start as int) - *bin_start
                    && range.end == imin(*bin_end as int, interval_end as int) - *bin_start); 
                assert(range.start <= range.end && range.end <= data@.len()); 
            }
            slice_bounds(data, &range);
            for k__ in range.start..range.end 
                invariant
                    
                    data@.len() == old(data)@.len(), covered@ == old(covered)@, range.start <= range.end <= data@.len(),
                    
                    forall|q: int| range.start <= q < k__ ==> #[trigger] data@[q] == fmax(old(data)@[q], 0.0f64).add_spec(1.0f64),
                    forall|q: int| 0 <= q < data@.len() && !(range.start <= q < k__) ==> #[trigger] data@[q] == old(data)@[q],
{
                let i = cell_mut(data, k__);

                proof { float_ax::float_det(); }
                // If NAN, then 0.0 + 1.0, else i + 1.0
                *i = (*i).max(0.0) + 1.0;
            }
            slice_bounds(covered, &range);
            for k__ in range.start..range.end 
                invariant
                    
                    covered@.len() == old(covered)@.len(), range.start <= range.end <= covered@.len(),
                    forall|q: int| 0 <= q < old(covered)@.len() ==> 0 <= (#[trigger] old(covered)@[q]) <= 1,
                    
                    forall|q: int| range.start <= q < k__ ==> #[trigger] covered@[q] == imax(old(covered)@[q] as int, 1),
                    forall|q: int| 0 <= q < covered@.len() && !(range.start <= q < k__) ==> #[trigger] covered@[q] == old(covered)@[q],
{
                let i = cell_mut(covered, k__);
                *i = (*i).max(1);
            }
}

// ---- (d) to_array_bins: one value meets one bin: the accumulation step (`get_or_insert_with` + `match summary`) ----
// `let (c, v) = data.get_or_insert_with(|| INIT);` -> the accumulator is copied out (`INIT` when absent), `c` / `v` borrow the
// copy's two fields, and the copy is written back after the carved text (same effect as updating through the reference).
fn accumulate_bwb(data: &mut Option<(i32, f64)>, summary: Summary, bin_start: &i32, bin_end: &i32, interval_start: i32, interval_end: i32, interval: &Value)
    requires
        
        0 <= *bin_start <= *bin_end, 0 <= interval_start <= interval_end,
        
        // the count of a bin never exceeds its width (values are disjoint); stated, not proved here
        *old(data) matches Some(t) ==> 0 <= t.0 && t.0 + (*bin_end - *bin_start) <= i32::MAX && t.0 - (interval_end - interval_start) >= i32::MIN,
    ensures
        
        summary is Min ==> *final(data) == Some((acc0(*old(data), summary).0, fmin(acc0(*old(data), summary).1, f64_of(interval.value)))),
        
        summary is Max ==> *final(data) == Some((acc0(*old(data), summary).0, fmax(acc0(*old(data), summary).1, f64_of(interval.value)))),
        
        summary is Mean ==> *final(data) == Some((
            (acc0(*old(data), summary).0 + (imin(*bin_end as int, interval_end as int) - imax(*bin_start as int, interval_start as int))) as i32,
            acc0(*old(data), summary).1.add_spec(f64_of_int(imin(*bin_end as int, interval_end as int) - imax(*bin_start as int, interval_start as int)).mul_spec(f64_of(interval.value))))),
{
    proof { float_ax::float_det(); }

            let mut t__: (i32, f64) = match *data { Some(t) => t, None => {
                match summary {
                    // min & max are defined for NAN and we are about to set it
                    // can't use 0.0 because it may be either below or above the real value
                    Summary::Min | Summary::Max => (0, fconst_f64_nan()),
                    // addition is not defined for NAN
                    Summary::Mean => (0, 0.0),
                }
            } };
            let c = &mut t__.0;
            let v = &mut t__.1;
            match summary {
                Summary::Min => {
                    *v = v.min(f64_of_f32(interval.value));
                }
                Summary::Max => {
                    *v = v.max(f64_of_f32(interval.value));
                }
                Summary::Mean => {
                    let overlap_start = (*bin_start).max(interval_start);
                    let overlap_end = (*bin_end).min(interval_end);
                    let overlap_size: i32 = overlap_end - overlap_start;
                    *v = *v + (as_f64(overlap_size) * f64_of_f32(interval.value));
                    *c = *c + (overlap_size);
                }
            }
            *data = Some(t__);
}

// =====================================================================================
// (e) the FRAME of the four binned fillers (the complement of the carve-outs above): shims and vocabulary
// =====================================================================================
pub struct BedEntry {
    pub start: u32,
    pub end: u32,
    pub rest: String,
}
// bigtools' per-record statistics struct `Summary` (a field of ZoomRecord) is renamed: pybigtools has its own `enum Summary`
#[derive(Copy, Clone)]
pub struct ZoomSummary {
    pub total_items: u64,
    pub bases_covered: u64,
    pub min_val: f64,
    pub max_val: f64,
    pub sum: f64,
    pub sum_squares: f64,
}
#[derive(Copy, Clone)]
pub struct ZoomRecord {
    pub chrom: u32,
    pub start: u32,
    pub end: u32,
    pub summary: ZoomSummary,
}
/// `bigtools::BBIReadError` (imported as `_BBIReadError`): opaque.
#[verifier::external_body]
#[derive(Debug)]
pub struct ReadErr { _p: u8 }
/// R11 shim for the generic stream `I: Iterator<Item = Result<T, _BBIReadError>>` (the reader's interval iterator; same shim
/// as unit py_perbase): ghost `rest()` = the items it will still yield; `next` yields the head.
#[verifier::external_body]
#[verifier::reject_recursive_types(T)]
pub struct VIter<T> { _p: core::marker::PhantomData<T> }
impl<T> VIter<T> {
    pub uninterp spec fn rest(&self) -> Seq<Result<T, ReadErr>>;
    #[verifier::external_body]
    pub fn next(&mut self) -> (r: Option<Result<T, ReadErr>>)
        ensures
            old(self).rest().len() == 0 ==> r is None && final(self).rest() == old(self).rest(),
            old(self).rest().len() > 0 ==> r == Some(old(self).rest()[0]) && final(self).rest() == old(self).rest().drop_first(),
    { unimplemented!() }
}
/// R11 shim for `numpy::ndarray::ArrayViewMut<'_, f64, numpy::Ix1>` (the output array, one cell per bin) with a GHOST
/// record `fin()` of the bin finalisations: bin index -> the value of the LAST `v[bin] = x` statement since the call began.
/// The CONTENTS of the array on entry are unconstrained (a caller may pass its own `arr=`).
///   len()          number of cells
///   fill(x)        every cell := x                      (not a finalisation: `fin()` unchanged)
///   set_bin(b, x)  `v[b] = x;` (`IndexMut`: PANICS when b >= len, so it returns only for b < len): cell b := x, recorded in `fin()`
#[verifier::external_body]
pub struct VBins { _p: u8 }
impl VBins {
    pub uninterp spec fn view(&self) -> Seq<f64>;
    pub uninterp spec fn fin(&self) -> Map<int, f64>;
    pub open spec fn spec_len(&self) -> usize { self@.len() as usize }
    #[verifier::external_body]
    #[verifier::when_used_as_spec(spec_len)]
    pub fn len(&self) -> (r: usize) ensures r == self@.len(), r == self.spec_len() { unimplemented!() }
    #[verifier::external_body]
    pub fn fill(&mut self, x: f64)
        ensures
            final(self)@.len() == old(self)@.len(),
            forall|i: int| 0 <= i < final(self)@.len() ==> (#[trigger] final(self)@[i]) == x,
            final(self).fin() == old(self).fin(),
    { unimplemented!() }
    #[verifier::external_body]
    pub fn set_bin(&mut self, b: usize, x: f64)
        ensures
            b < old(self)@.len(),
            final(self)@ == old(self)@.update(b as int, x),
            final(self).fin() == old(self).fin().insert(b as int, x),
    { unimplemented!() }
}
/// `VecDeque::front_mut` (std): None when empty, else a mutable reference to element 0
#[verifier::external_body]
pub fn deque_front_mut<T>(d: &mut VecDeque<T>) -> (r: Option<&mut T>)
    ensures
        old(d)@.len() == 0 ==> r is None && final(d)@ == old(d)@,
        old(d)@.len() > 0 ==> r is Some && *r->Some_0 == old(d)@[0] && final(d)@ == old(d)@.update(0, *final(r->Some_0)),
{ d.front_mut() }
/// integer calls a rewritten prologue might use, with their REAL contracts (judged, not rejected)
pub axiom fn ax_lossless_int_from()
    ensures
        <i64 as FromSpec<u32>>::obeys_from_spec(), forall|x: u32| #[trigger] <i64 as FromSpec<u32>>::from_spec(x) == x as i64,
        <i64 as FromSpec<i32>>::obeys_from_spec(), forall|x: i32| #[trigger] <i64 as FromSpec<i32>>::from_spec(x) == x as i64,
        <u64 as FromSpec<u32>>::obeys_from_spec(), forall|x: u32| #[trigger] <u64 as FromSpec<u32>>::from_spec(x) == x as u64;
pub assume_specification [i32::saturating_sub] (a: i32, b: i32) -> (r: i32)
    ensures r == (if a - b > i32::MAX { i32::MAX as int } else if a - b < i32::MIN { i32::MIN as int } else { a - b });
pub assume_specification [i32::saturating_add] (a: i32, b: i32) -> (r: i32)
    ensures r == (if a + b > i32::MAX { i32::MAX as int } else if a + b < i32::MIN { i32::MIN as int } else { a + b });
pub assume_specification [u32::abs_diff] (a: u32, b: u32) -> (r: u32)
    ensures r == (if a >= b { a - b } else { b - a });
/// `std::cmp::max(a, b)` / `min` on i32
pub fn ord_max_i32(a: i32, b: i32) -> (r: i32) ensures r == (if a >= b { a } else { b }) { if a >= b { a } else { b } }
pub fn ord_min_i32(a: i32, b: i32) -> (r: i32) ensures r == (if a <= b { a } else { b }) { if a <= b { a } else { b } }
/// `x as usize` for a float (saturating truncation): uninterpreted, NO contract
#[verifier::external_body]
pub fn f64_to_usize(x: f64) -> (r: usize) { x as usize }
/// the number a finalisation `match summary { .. }` reports for a popped bin: its VALUE is under the contracts of the
/// carve-outs (a)/(b) above; the frame only tracks WHERE it is stored
#[verifier::external_body]
pub fn finished_value() -> (r: f64) { unimplemented!() }
/// the rest of one iteration of the interval loop (new bins pushed, `assert!` loop, accumulation into the deque's bins):
/// NOT under contract here (float bin arithmetic, `iter_mut` over the deque).  It is handed the deque and the iteration's
/// locals but NOT the output array: the carve refuses (anchor lost) when that text mentions `v[..]`, `v.fill`, ..
#[verifier::external_body]
fn rest_of_iteration<T, B>(interval: &T, interval_start: i32, interval_end: i32, bin_start: usize, bin_end: usize, summary: Summary, bin_size: f64, bin_data: &mut VecDeque<B>) { unimplemented!() }

/// an item of the stream as far as the frame looks at it: its half-open span [start, end)
pub trait Spanned { spec fn lo(&self) -> int; spec fn hi(&self) -> int; }
impl Spanned for Value { open spec fn lo(&self) -> int { self.start as int } open spec fn hi(&self) -> int { self.end as int } }
impl Spanned for BedEntry { open spec fn lo(&self) -> int { self.start as int } open spec fn hi(&self) -> int { self.end as int } }
impl Spanned for ZoomRecord { open spec fn lo(&self) -> int { self.start as int } open spec fn hi(&self) -> int { self.end as int } }
/// What the range query `get_interval` / `get_zoom_interval(chrom, max(start,0), min(end,length))` hands to a filler called with
/// (start, end): items that TOUCH the query, for bigBed entries and zoom records NOT clipped to it (units bb_dec, bw_dec, iters;
/// py_perbase `bb_answer`).  Since max(start,0) >= start and min(end,length) <= end: `lo <= end && start <= hi`.
/// Coordinates fit i32 (chromosome length <= i32::MAX, py_perbase robustness remark R2).
pub open spec fn touches<T: Spanned>(s: Seq<Result<T, ReadErr>>, start: int, end: int) -> bool {
    forall|i: int| 0 <= i < s.len() && (#[trigger] s[i]) is Ok ==>
        0 <= s[i]->Ok_0.lo() <= s[i]->Ok_0.hi() && s[i]->Ok_0.hi() <= i32::MAX && start <= s[i]->Ok_0.hi() && s[i]->Ok_0.lo() <= end
}
/// a coordinate clamped to the requested range [lo, hi]
pub open spec fn clamp(x: int, lo: int, hi: int) -> int { if x < lo { lo } else if x > hi { hi } else { x } }
/// every cell either holds what its last finalisation stored or what it held in `base` (the array right before the interval loop)
pub open spec fn only_finalised_bins_differ(v: VBins, base: Seq<f64>) -> bool {
    &&& v@.len() == base.len()
    &&& forall|b: int| 0 <= b < base.len() ==> #[trigger] v@[b] == (if v.fin().contains_key(b) { v.fin()[b] } else { base[b] })
}

// ---- (e) to_array_bins: the frame: initialisation, integer prologue of every iteration, where finalisations are stored ----
#[verifier::loop_isolation(false)]
fn to_array_bins(
    start: i32,
    end: i32,
    iter: &mut VIter<Value>,
    summary: Summary,
    bins: usize,
    missing: f64,
    v: &mut VBins,
) -> (r: Result<(), ReadErr>)
    requires
        
        // the caller allocates `bins` cells or checks the size of a passed `arr` (intervals_to_array / entries_to_array)
        old(v)@.len() == bins,
        
        start <= end, end - start <= i32::MAX,
        
        touches(old(iter).rest(), start as int, end as int),
        
        // definition of the ghost record; the CONTENTS of `v` on entry are arbitrary
        old(v).fin() =~= Map::empty(),
    ensures
        
        final(v)@.len() == bins,
        
        r is Ok ==> forall|b: int| 0 <= b < bins && !final(v).fin().contains_key(b) ==> #[trigger] final(v)@[b] == missing,
        
        r is Ok ==> forall|b: int| 0 <= b < bins && final(v).fin().contains_key(b) ==> #[trigger] final(v)@[b] == final(v).fin()[b],
{
    proof { float_ax::float_det(); ax_lossless_int_from(); }

    assert((v.len()) == (bins));
    v.fill(missing);

    let mut bin_data: VecDeque<(usize, i32, i32, Option<(i32, f64)>)> = VecDeque::new();
    let bin_size = as_f64((end - start)) / as_f64(bins);

    let ghost base = v@;
    loop 
        invariant
            
            only_finalised_bins_differ(*v, base),
            
            touches(iter.rest(), start as int, end as int),
        decreases
            
            iter.rest().len(),
{

        let ghost rest0 = iter.rest();
        let interval = match iter.next() { None => { break; } Some(r__) => r__ };

        proof {
            assert(interval == rest0[0]);
            assert forall|i: int| 0 <= i < iter.rest().len() implies (#[trigger] iter.rest()[i]) == rest0[i + 1] by {}
        }
        let interval = interval?;
        let interval_start = (interval.start as i32).max(start) - start;
        let interval_end = (interval.end as i32).min(end) - start;

        proof {
            // the part of the item inside the request [start, end), relative to `start`: mathematical integers, no wrap for start < 0
            assert(interval_start == clamp(interval.lo(), start as int, end as int) - start); 
            assert(interval_end == clamp(interval.hi(), start as int, end as int) - start); 
            assert(0 <= interval_start <= end - start && 0 <= interval_end <= end - start); 
        }
        let bin_start = f64_to_usize((as_f64(interval_start)) / bin_size);
        let bin_end = f64_to_usize((as_f64((interval_end - 1))) / bin_size);

        while let Some(front) = deque_front_mut(&mut bin_data) 
            invariant
                
                only_finalised_bins_differ(*v, base),
            decreases
                
                bin_data@.len(),
{
            if front.0 < bin_start {
                let front = bin_data.pop_front().unwrap();
                let bin = front.0;

                match summary {
                    Summary::Min => {
                        v.set_bin(bin, finished_value());
                    }
                    Summary::Max => {
                        v.set_bin(bin, finished_value());
                    }
                    Summary::Mean => {
                        v.set_bin(bin, finished_value());
                    }
                }

                proof { assert(v.fin().contains_key(front.0 as int) && v@[front.0 as int] == v.fin()[front.0 as int]); } 
            } else {
                break;
            }
        }
        rest_of_iteration(&interval, interval_start, interval_end, bin_start, bin_end, summary, bin_size, &mut bin_data);
    }
    while let Some(front) = bin_data.pop_front() 
        invariant
            
            only_finalised_bins_differ(*v, base),
        decreases
            
            bin_data@.len(),
{
        let bin = front.0;

        match summary {
            Summary::Min => {
                v.set_bin(bin, finished_value());
            }
            Summary::Max => {
                v.set_bin(bin, finished_value());
            }
            Summary::Mean => {
                v.set_bin(bin, finished_value());
            }
        }
    
        proof { assert(v.fin().contains_key(front.0 as int) && v@[front.0 as int] == v.fin()[front.0 as int]); } 
}
    Ok(())
}

// ---- (e) to_array_zoom: the frame: initialisation, integer prologue of every iteration, where finalisations are stored ----
#[verifier::loop_isolation(false)]
fn to_array_zoom(
    start: i32,
    end: i32,
    iter: &mut VIter<ZoomRecord>,
    summary: Summary,
    bins: usize,
    missing: f64,
    v: &mut VBins,
) -> (r: Result<(), ReadErr>)
    requires
        
        // the caller allocates `bins` cells or checks the size of a passed `arr` (intervals_to_array / entries_to_array)
        old(v)@.len() == bins,
        
        start <= end, end - start <= i32::MAX,
        
        touches(old(iter).rest(), start as int, end as int),
        
        // definition of the ghost record; the CONTENTS of `v` on entry are arbitrary
        old(v).fin() =~= Map::empty(),
    ensures
        
        final(v)@.len() == bins,
        
        r is Ok ==> forall|b: int| 0 <= b < bins && !final(v).fin().contains_key(b) ==> #[trigger] final(v)@[b] == missing,
        
        r is Ok ==> forall|b: int| 0 <= b < bins && final(v).fin().contains_key(b) ==> #[trigger] final(v)@[b] == final(v).fin()[b],
{
    proof { float_ax::float_det(); ax_lossless_int_from(); }

    assert((v.len()) == (bins));
    v.fill(missing);

    // (bin, bin_start, bin_end, Option<(covered_bases, value)>)
    let mut bin_data: VecDeque<(usize, i32, i32, Option<(i32, f64)>)> = VecDeque::new();
    let bin_size = as_f64((end - start)) / as_f64(bins);

    let ghost base = v@;
    loop 
        invariant
            
            only_finalised_bins_differ(*v, base),
            
            touches(iter.rest(), start as int, end as int),
        decreases
            
            iter.rest().len(),
{

        let ghost rest0 = iter.rest();
        let interval = match iter.next() { None => { break; } Some(r__) => r__ };

        proof {
            assert(interval == rest0[0]);
            assert forall|i: int| 0 <= i < iter.rest().len() implies (#[trigger] iter.rest()[i]) == rest0[i + 1] by {}
        }
        let interval = interval?;
        let interval_start = (interval.start as i32).max(start) - start;
        let interval_end = (interval.end as i32).min(end) - start;

        proof {
            // the part of the item inside the request [start, end), relative to `start`: mathematical integers, no wrap for start < 0
            assert(interval_start == clamp(interval.lo(), start as int, end as int) - start); 
            assert(interval_end == clamp(interval.hi(), start as int, end as int) - start); 
            assert(0 <= interval_start <= end - start && 0 <= interval_end <= end - start); 
        }
        let bin_start = f64_to_usize((as_f64(interval_start)) / bin_size);
        let bin_end = f64_to_usize((as_f64((interval_end - 1))) / bin_size);

        while let Some(front) = deque_front_mut(&mut bin_data) 
            invariant
                
                only_finalised_bins_differ(*v, base),
            decreases
                
                bin_data@.len(),
{
            if front.0 < bin_start {
                let front = bin_data.pop_front().unwrap();
                let bin = front.0;

                match summary {
                    Summary::Min => {
                        v.set_bin(bin, finished_value());
                    }
                    Summary::Max => {
                        v.set_bin(bin, finished_value());
                    }
                    Summary::Mean => {
                        v.set_bin(bin, finished_value());
                    }
                }

                proof { assert(v.fin().contains_key(front.0 as int) && v@[front.0 as int] == v.fin()[front.0 as int]); } 
            } else {
                break;
            }
        }
        rest_of_iteration(&interval, interval_start, interval_end, bin_start, bin_end, summary, bin_size, &mut bin_data);
    }
    while let Some(front) = bin_data.pop_front() 
        invariant
            
            only_finalised_bins_differ(*v, base),
        decreases
            
            bin_data@.len(),
{
        let bin = front.0;

        match summary {
            Summary::Min => {
                v.set_bin(bin, finished_value());
            }
            Summary::Max => {
                v.set_bin(bin, finished_value());
            }
            Summary::Mean => {
                v.set_bin(bin, finished_value());
            }
        }
    
        proof { assert(v.fin().contains_key(front.0 as int) && v@[front.0 as int] == v.fin()[front.0 as int]); } 
}
    Ok(())
}

// ---- (e) to_entry_array_bins: the frame: initialisation, integer prologue of every iteration, where finalisations are stored ----
#[verifier::loop_isolation(false)]
fn to_entry_array_bins(
    start: i32,
    end: i32,
    iter: &mut VIter<BedEntry>,
    summary: Summary,
    bins: usize,
    missing: f64,
    v: &mut VBins,
) -> (r: Result<(), ReadErr>)
    requires
        
        // the caller allocates `bins` cells or checks the size of a passed `arr` (intervals_to_array / entries_to_array)
        old(v)@.len() == bins,
        
        start <= end, end - start <= i32::MAX,
        
        touches(old(iter).rest(), start as int, end as int),
        
        // definition of the ghost record; the CONTENTS of `v` on entry are arbitrary
        old(v).fin() =~= Map::empty(),
    ensures
        
        final(v)@.len() == bins,
        
        r is Ok ==> forall|b: int| 0 <= b < bins && !final(v).fin().contains_key(b) ==> #[trigger] final(v)@[b] == missing,
        
        r is Ok ==> forall|b: int| 0 <= b < bins && final(v).fin().contains_key(b) ==> #[trigger] final(v)@[b] == final(v).fin()[b],
{
    proof { float_ax::float_det(); ax_lossless_int_from(); }

    assert((v.len()) == (bins));
    v.fill(missing);

    // (<bin>, <bin_start>, <bin_end>, <covered_bases>, <sum>)
    // covered_bases = 0 if uncovered, 1 if covered
    let mut bin_data: VecDeque<(usize, i32, i32, Vec<i32>, Vec<f64>)> = VecDeque::new();
    let bin_size = as_f64((end - start)) / as_f64(bins);

    let ghost base = v@;
    loop 
        invariant
            
            only_finalised_bins_differ(*v, base),
            
            touches(iter.rest(), start as int, end as int),
        decreases
            
            iter.rest().len(),
{

        let ghost rest0 = iter.rest();
        let interval = match iter.next() { None => { break; } Some(r__) => r__ };

        proof {
            assert(interval == rest0[0]);
            assert forall|i: int| 0 <= i < iter.rest().len() implies (#[trigger] iter.rest()[i]) == rest0[i + 1] by {}
        }
        let interval = interval?;
        let interval_start = (interval.start as i32).max(start) - start;
        let interval_end = (interval.end as i32).min(end) - start;

        proof {
            // the part of the item inside the request [start, end), relative to `start`: mathematical integers, no wrap for start < 0
            assert(interval_start == clamp(interval.lo(), start as int, end as int) - start); 
            assert(interval_end == clamp(interval.hi(), start as int, end as int) - start); 
            assert(0 <= interval_start <= end - start && 0 <= interval_end <= end - start); 
        }
        let bin_start = f64_to_usize((as_f64(interval_start)) / bin_size);
        let bin_end = f64_to_usize((as_f64((interval_end - 1))) / bin_size);

        while let Some(front) = deque_front_mut(&mut bin_data) 
            invariant
                
                only_finalised_bins_differ(*v, base),
            decreases
                
                bin_data@.len(),
{
            if front.0 < bin_start {
                let front = bin_data.pop_front().unwrap();
                let bin = front.0;

                match summary {
                    Summary::Min => {
                        v.set_bin(bin, finished_value());
                    }
                    Summary::Max => {
                        v.set_bin(bin, finished_value());
                    }
                    Summary::Mean => {
                        v.set_bin(bin, finished_value());
                    }
                }

                proof { assert(v.fin().contains_key(front.0 as int) && v@[front.0 as int] == v.fin()[front.0 as int]); } 
            } else {
                break;
            }
        }
        rest_of_iteration(&interval, interval_start, interval_end, bin_start, bin_end, summary, bin_size, &mut bin_data);
    }
    while let Some(front) = bin_data.pop_front() 
        invariant
            
            only_finalised_bins_differ(*v, base),
        decreases
            
            bin_data@.len(),
{
        let bin = front.0;

        match summary {
            Summary::Min => {
                v.set_bin(bin, finished_value());
            }
            Summary::Max => {
                v.set_bin(bin, finished_value());
            }
            Summary::Mean => {
                v.set_bin(bin, finished_value());
            }
        }
    
        proof { assert(v.fin().contains_key(front.0 as int) && v@[front.0 as int] == v.fin()[front.0 as int]); } 
}
    Ok(())
}

// ---- (e) to_entry_array_zoom: the frame: initialisation, integer prologue of every iteration, where finalisations are stored ----
#[verifier::loop_isolation(false)]
fn to_entry_array_zoom(
    start: i32,
    end: i32,
    iter: &mut VIter<ZoomRecord>,
    summary: Summary,
    bins: usize,
    missing: f64,
    v: &mut VBins,
) -> (r: Result<(), ReadErr>)
    requires
        
        // the caller allocates `bins` cells or checks the size of a passed `arr` (intervals_to_array / entries_to_array)
        old(v)@.len() == bins,
        
        start <= end, end - start <= i32::MAX,
        
        touches(old(iter).rest(), start as int, end as int),
        
        // definition of the ghost record; the CONTENTS of `v` on entry are arbitrary
        old(v).fin() =~= Map::empty(),
    ensures
        
        final(v)@.len() == bins,
        
        r is Ok ==> forall|b: int| 0 <= b < bins && !final(v).fin().contains_key(b) ==> #[trigger] final(v)@[b] == missing,
        
        r is Ok ==> forall|b: int| 0 <= b < bins && final(v).fin().contains_key(b) ==> #[trigger] final(v)@[b] == final(v).fin()[b],
{
    proof { float_ax::float_det(); ax_lossless_int_from(); }

    assert((v.len()) == (bins));
    v.fill(missing);

    // (<bin>, <bin_start>, <bin_end>, <covered_bases>, <sum>)
    // covered_bases = 0 if uncovered, 1 if covered
    let mut bin_data: VecDeque<(usize, i32, i32, Vec<i32>, Vec<f64>)> = VecDeque::new();
    let bin_size = as_f64((end - start)) / as_f64(bins);

    let ghost base = v@;
    loop 
        invariant
            
            only_finalised_bins_differ(*v, base),
            
            touches(iter.rest(), start as int, end as int),
        decreases
            
            iter.rest().len(),
{

        let ghost rest0 = iter.rest();
        let interval = match iter.next() { None => { break; } Some(r__) => r__ };

        proof {
            assert(interval == rest0[0]);
            assert forall|i: int| 0 <= i < iter.rest().len() implies (#[trigger] iter.rest()[i]) == rest0[i + 1] by {}
        }
        let interval = interval?;
        let interval_start = (interval.start as i32).max(start) - start;
        let interval_end = (interval.end as i32).min(end) - start;

        proof {
            // the part of the item inside the request [start, end), relative to `start`: mathematical integers, no wrap for start < 0
            assert(interval_start == clamp(interval.lo(), start as int, end as int) - start); 
            assert(interval_end == clamp(interval.hi(), start as int, end as int) - start); 
            assert(0 <= interval_start <= end - start && 0 <= interval_end <= end - start); 
        }
        let bin_start = f64_to_usize((as_f64(interval_start)) / bin_size);
        let bin_end = f64_to_usize((as_f64((interval_end - 1))) / bin_size);

        while let Some(front) = deque_front_mut(&mut bin_data) 
            invariant
                
                only_finalised_bins_differ(*v, base),
            decreases
                
                bin_data@.len(),
{
            if front.0 < bin_start {
                let front = bin_data.pop_front().unwrap();
                let bin = front.0;

                match summary {
                    Summary::Min => {
                        v.set_bin(bin, finished_value());
                    }
                    Summary::Max => {
                        v.set_bin(bin, finished_value());
                    }
                    Summary::Mean => {
                        v.set_bin(bin, finished_value());
                    }
                }

                proof { assert(v.fin().contains_key(front.0 as int) && v@[front.0 as int] == v.fin()[front.0 as int]); } 
            } else {
                break;
            }
        }
        rest_of_iteration(&interval, interval_start, interval_end, bin_start, bin_end, summary, bin_size, &mut bin_data);
    }
    while let Some(front) = bin_data.pop_front() 
        invariant
            
            only_finalised_bins_differ(*v, base),
        decreases
            
            bin_data@.len(),
{
        let bin = front.0;

        match summary {
            Summary::Min => {
                v.set_bin(bin, finished_value());
            }
            Summary::Max => {
                v.set_bin(bin, finished_value());
            }
            Summary::Mean => {
                v.set_bin(bin, finished_value());
            }
        }
    
        proof { assert(v.fin().contains_key(front.0 as int) && v@[front.0 as int] == v.fin()[front.0 as int]); } 
}
    Ok(())
}

} // verus!
fn main() {}

