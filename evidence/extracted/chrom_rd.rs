// bbiread::read_chrom_tree_block (recursive reader of the chromosome B+ tree) and the TAIL of
// bbiread::read_info (seek to the chromosome tree, 32-byte tree header, block reader, BBIFileInfo).
// C10: "multi-level chromosome trees ... Chromosome table ... match the encoded content", either byte
// order; C01/C02: "the chromosome table lists exactly the chromosomes that had data ... with the sizes
// that were supplied" (reader half: read(write(list)) == list, corollary (a)); C09: the reader used as the
// format's decoder agrees with the published layout that unit chrom_tree proves of the writer.
use vstd::prelude::*;
use vstd::std_specs::convert::FromSpec;
verus! {
global size_of usize == 8;
// ---- shared byte-level prelude ---------------------------------------------
// Format vocabulary written from the published BBI layout (Kent et al. 2010),
// as arithmetic on byte values - not as calls to from_le_bytes/to_le_bytes.
/// k-th base-256 digit of x (opaque: the div/mod arithmetic is only unfolded inside the codec lemmas)
#[verifier::opaque]
pub open spec fn byte_of(x: int, k: int) -> u8 {
    if k == 0 { (x % 256) as u8 } else if k == 1 { (x / 256 % 256) as u8 } else if k == 2 { (x / 65536 % 256) as u8 }
    else if k == 3 { (x / 16777216 % 256) as u8 } else if k == 4 { (x / 4294967296 % 256) as u8 }
    else if k == 5 { (x / 1099511627776 % 256) as u8 } else if k == 6 { (x / 281474976710656 % 256) as u8 }
    else { (x / 72057594037927936 % 256) as u8 }
}
pub open spec fn le16(x: u16) -> Seq<u8> { seq![byte_of(x as int, 0), byte_of(x as int, 1)] }
pub open spec fn le32(x: u32) -> Seq<u8> { seq![byte_of(x as int, 0), byte_of(x as int, 1), byte_of(x as int, 2), byte_of(x as int, 3)] }
pub open spec fn le64(x: u64) -> Seq<u8> {
    seq![byte_of(x as int, 0), byte_of(x as int, 1), byte_of(x as int, 2), byte_of(x as int, 3),
         byte_of(x as int, 4), byte_of(x as int, 5), byte_of(x as int, 6), byte_of(x as int, 7)]
}
pub open spec fn be16(x: u16) -> Seq<u8> { seq![byte_of(x as int, 1), byte_of(x as int, 0)] }
pub open spec fn be32(x: u32) -> Seq<u8> { seq![byte_of(x as int, 3), byte_of(x as int, 2), byte_of(x as int, 1), byte_of(x as int, 0)] }
pub open spec fn be64(x: u64) -> Seq<u8> {
    seq![byte_of(x as int, 7), byte_of(x as int, 6), byte_of(x as int, 5), byte_of(x as int, 4),
         byte_of(x as int, 3), byte_of(x as int, 2), byte_of(x as int, 1), byte_of(x as int, 0)]
}
// decode: value of the little-/big-endian integer stored at s[i..]
pub open spec fn dle16(s: Seq<u8>, i: int) -> int { s[i] as int + 256 * (s[i + 1] as int) }
pub open spec fn dle32(s: Seq<u8>, i: int) -> int {
    s[i] as int + 256 * (s[i + 1] as int) + 65536 * (s[i + 2] as int) + 16777216 * (s[i + 3] as int)
}
pub open spec fn dle64(s: Seq<u8>, i: int) -> int { dle32(s, i) + 4294967296 * dle32(s, i + 4) }
pub open spec fn dbe16(s: Seq<u8>, i: int) -> int { 256 * (s[i] as int) + s[i + 1] as int }
pub open spec fn dbe32(s: Seq<u8>, i: int) -> int {
    16777216 * (s[i] as int) + 65536 * (s[i + 1] as int) + 256 * (s[i + 2] as int) + s[i + 3] as int
}
pub open spec fn dbe64(s: Seq<u8>, i: int) -> int { 4294967296 * dbe32(s, i) + dbe32(s, i + 4) }
/// integer at s[i..] in byte order `big`
pub open spec fn d16(big: bool, s: Seq<u8>, i: int) -> int { if big { dbe16(s, i) } else { dle16(s, i) } }
pub open spec fn d32(big: bool, s: Seq<u8>, i: int) -> int { if big { dbe32(s, i) } else { dle32(s, i) } }
pub open spec fn d64(big: bool, s: Seq<u8>, i: int) -> int { if big { dbe64(s, i) } else { dle64(s, i) } }
pub open spec fn e16(big: bool, x: u16) -> Seq<u8> { if big { be16(x) } else { le16(x) } }
pub open spec fn e32(big: bool, x: u32) -> Seq<u8> { if big { be32(x) } else { le32(x) } }
pub open spec fn e64(big: bool, x: u64) -> Seq<u8> { if big { be64(x) } else { le64(x) } }

// Floats on disk: IEEE bit patterns.  `to_bits`/`from_bits` are uninterpreted; the only
// assumed fact is that they are inverse (true of Rust's f32::to_bits/from_bits bit-for-bit).
pub uninterp spec fn f32_bits(x: f32) -> u32;
pub uninterp spec fn f32_of_bits(b: u32) -> f32;
pub uninterp spec fn f64_bits(x: f64) -> u64;
pub uninterp spec fn f64_of_bits(b: u64) -> f64;
pub broadcast axiom fn ax_f32_bits_inv(x: f32) ensures #[trigger] f32_of_bits(f32_bits(x)) == x;
pub broadcast axiom fn ax_f64_bits_inv(x: f64) ensures #[trigger] f64_of_bits(f64_bits(x)) == x;

#[verifier::external_body]
#[derive(Debug)]
pub struct IoError { _p: u8 }

#[verifier::external_body]
pub fn vpanic() -> !
    requires false
{ panic!() }

// ---- Sink: append-only in-memory writer (`Vec<u8>` used through byteorder::WriteBytesExt / io::Write).
// Assumed contracts: NativeEndian == LittleEndian (x86-64 / aarch64 targets); writes to a Vec never
// fail, the io::Result plumbing is kept so that `?` in the code typechecks.
pub struct Sink { pub bytes: Vec<u8> }
impl Sink {
    pub open spec fn view(&self) -> Seq<u8> { self.bytes@ }
    #[verifier::external_body]
    pub fn with_capacity(n: usize) -> (r: Sink) ensures r@.len() == 0 { Sink { bytes: Vec::with_capacity(n) } }
    pub fn len(&self) -> (r: usize) ensures r == self@.len() { self.bytes.len() }
    #[verifier::external_body]
    pub fn put_u8(&mut self, v: u8) -> (r: Result<(), IoError>)
        ensures r.is_ok(), final(self)@ == old(self)@.push(v) { unimplemented!() }
    #[verifier::external_body]
    pub fn put_u16(&mut self, v: u16) -> (r: Result<(), IoError>)
        ensures r.is_ok(), final(self)@ == old(self)@ + le16(v) { unimplemented!() }
    #[verifier::external_body]
    pub fn put_u32(&mut self, v: u32) -> (r: Result<(), IoError>)
        ensures r.is_ok(), final(self)@ == old(self)@ + le32(v) { unimplemented!() }
    #[verifier::external_body]
    pub fn put_u64(&mut self, v: u64) -> (r: Result<(), IoError>)
        ensures r.is_ok(), final(self)@ == old(self)@ + le64(v) { unimplemented!() }
    #[verifier::external_body]
    pub fn put_f32(&mut self, v: f32) -> (r: Result<(), IoError>)
        ensures r.is_ok(), final(self)@ == old(self)@ + le32(f32_bits(v)) { unimplemented!() }
    #[verifier::external_body]
    pub fn put_f64(&mut self, v: f64) -> (r: Result<(), IoError>)
        ensures r.is_ok(), final(self)@ == old(self)@ + le64(f64_bits(v)) { unimplemented!() }
    #[verifier::external_body]
    pub fn put_bytes(&mut self, b: &[u8]) -> (r: Result<(), IoError>)
        ensures r.is_ok(), final(self)@ == old(self)@ + b@ { unimplemented!() }
}

// ---- FSink: seekable destination (`BufWriter<W: Write + Seek>`).  Ghost image `data()` and
// position `pos()`.  A put at `pos` overwrites/extends the image; any operation may fail, in
// which case nothing is promised about the image (callers must propagate the error).
#[verifier::external_body]
pub struct FSink { _p: u8 }
pub open spec fn splice(d: Seq<u8>, at: int, b: Seq<u8>) -> Seq<u8>
    recommends 0 <= at <= d.len()
{
    if at + b.len() >= d.len() { d.subrange(0, at) + b } else { d.subrange(0, at) + b + d.subrange(at + b.len(), d.len() as int) }
}
impl FSink {
    pub uninterp spec fn data(&self) -> Seq<u8>;
    pub uninterp spec fn pos(&self) -> int;
    pub open spec fn wf(&self) -> bool { 0 <= self.pos() <= self.data().len() }
    #[verifier::external_body]
    pub fn tell(&mut self) -> (r: Result<u64, IoError>)
        requires old(self).wf(), old(self).pos() <= u64::MAX
        ensures final(self).data() == old(self).data(), final(self).pos() == old(self).pos(), r.is_ok() ==> r.unwrap() == old(self).pos()
    { unimplemented!() }
    #[verifier::external_body]
    pub fn seek_start(&mut self, p: u64) -> (r: Result<u64, IoError>)
        requires old(self).wf(), p <= old(self).data().len()
        ensures final(self).data() == old(self).data(), r.is_ok() ==> (final(self).pos() == p && r.unwrap() == p), final(self).wf()
    { unimplemented!() }
    #[verifier::external_body]
    pub fn seek_end0(&mut self) -> (r: Result<u64, IoError>)
        requires old(self).wf()
        ensures final(self).data() == old(self).data(), r.is_ok() ==> (final(self).pos() == old(self).data().len() && r.unwrap() == old(self).data().len()), final(self).wf()
    { unimplemented!() }
    #[verifier::external_body]
    pub fn put(&mut self, b: &[u8]) -> (r: Result<(), IoError>)
        requires old(self).wf()
        ensures r.is_ok() ==> (final(self).data() == splice(old(self).data(), old(self).pos(), b@) && final(self).pos() == old(self).pos() + b@.len()), final(self).wf()
    { unimplemented!() }
    #[verifier::external_body]
    pub fn put_u8(&mut self, v: u8) -> (r: Result<(), IoError>)
        requires old(self).wf()
        ensures r.is_ok() ==> (final(self).data() == splice(old(self).data(), old(self).pos(), seq![v]) && final(self).pos() == old(self).pos() + 1), final(self).wf()
    { unimplemented!() }
    #[verifier::external_body]
    pub fn put_u16(&mut self, v: u16) -> (r: Result<(), IoError>)
        requires old(self).wf()
        ensures r.is_ok() ==> (final(self).data() == splice(old(self).data(), old(self).pos(), le16(v)) && final(self).pos() == old(self).pos() + 2), final(self).wf()
    { unimplemented!() }
    #[verifier::external_body]
    pub fn put_u32(&mut self, v: u32) -> (r: Result<(), IoError>)
        requires old(self).wf()
        ensures r.is_ok() ==> (final(self).data() == splice(old(self).data(), old(self).pos(), le32(v)) && final(self).pos() == old(self).pos() + 4), final(self).wf()
    { unimplemented!() }
    #[verifier::external_body]
    pub fn put_u64(&mut self, v: u64) -> (r: Result<(), IoError>)
        requires old(self).wf()
        ensures r.is_ok() ==> (final(self).data() == splice(old(self).data(), old(self).pos(), le64(v)) && final(self).pos() == old(self).pos() + 8), final(self).wf()
    { unimplemented!() }
    #[verifier::external_body]
    pub fn put_f64(&mut self, v: f64) -> (r: Result<(), IoError>)
        requires old(self).wf()
        ensures r.is_ok() ==> (final(self).data() == splice(old(self).data(), old(self).pos(), le64(f64_bits(v))) && final(self).pos() == old(self).pos() + 8), final(self).wf()
    { unimplemented!() }
}

// ---- Cur: consuming reader over a byte buffer (`bytes::BytesMut` used through `bytes::Buf`).
// `rem()` = bytes not yet consumed.  The `requires` are the real panics of the `bytes` crate
// (reading past the end / split_to past the end).
#[verifier::external_body]
pub struct Cur { _p: u8 }
impl Cur {
    pub uninterp spec fn rem(&self) -> Seq<u8>;
    #[verifier::external_body]
    pub fn from_vec(v: &Vec<u8>) -> (r: Cur) ensures r.rem() == v@ { unimplemented!() }
    #[verifier::external_body]
    pub fn len(&self) -> (r: usize) ensures r == self.rem().len() { unimplemented!() }
    #[verifier::external_body]
    pub fn split_to(&mut self, n: usize) -> (r: Cur)
        requires n <= old(self).rem().len()
        ensures r.rem() == old(self).rem().subrange(0, n as int), final(self).rem() == old(self).rem().subrange(n as int, old(self).rem().len() as int)
    { unimplemented!() }
    #[verifier::external_body]
    pub fn advance(&mut self, n: usize)
        requires n <= old(self).rem().len()
        ensures final(self).rem() == old(self).rem().subrange(n as int, old(self).rem().len() as int)
    { unimplemented!() }
    #[verifier::external_body]
    pub fn get_u8(&mut self) -> (r: u8)
        requires old(self).rem().len() >= 1
        ensures r == old(self).rem()[0], final(self).rem() == old(self).rem().subrange(1, old(self).rem().len() as int)
    { unimplemented!() }
    #[verifier::external_body]
    pub fn get_u16(&mut self) -> (r: u16)
        requires old(self).rem().len() >= 2
        ensures r == dbe16(old(self).rem(), 0), final(self).rem() == old(self).rem().subrange(2, old(self).rem().len() as int)
    { unimplemented!() }
    #[verifier::external_body]
    pub fn get_u16_le(&mut self) -> (r: u16)
        requires old(self).rem().len() >= 2
        ensures r == dle16(old(self).rem(), 0), final(self).rem() == old(self).rem().subrange(2, old(self).rem().len() as int)
    { unimplemented!() }
    #[verifier::external_body]
    pub fn get_u32(&mut self) -> (r: u32)
        requires old(self).rem().len() >= 4
        ensures r == dbe32(old(self).rem(), 0), final(self).rem() == old(self).rem().subrange(4, old(self).rem().len() as int)
    { unimplemented!() }
    #[verifier::external_body]
    pub fn get_u32_le(&mut self) -> (r: u32)
        requires old(self).rem().len() >= 4
        ensures r == dle32(old(self).rem(), 0), final(self).rem() == old(self).rem().subrange(4, old(self).rem().len() as int)
    { unimplemented!() }
    #[verifier::external_body]
    pub fn get_u64(&mut self) -> (r: u64)
        requires old(self).rem().len() >= 8
        ensures r == dbe64(old(self).rem(), 0), final(self).rem() == old(self).rem().subrange(8, old(self).rem().len() as int)
    { unimplemented!() }
    #[verifier::external_body]
    pub fn get_u64_le(&mut self) -> (r: u64)
        requires old(self).rem().len() >= 8
        ensures r == dle64(old(self).rem(), 0), final(self).rem() == old(self).rem().subrange(8, old(self).rem().len() as int)
    { unimplemented!() }
    #[verifier::external_body]
    pub fn get_f32(&mut self) -> (r: f32)
        requires old(self).rem().len() >= 4
        ensures r == f32_of_bits(dbe32(old(self).rem(), 0) as u32), final(self).rem() == old(self).rem().subrange(4, old(self).rem().len() as int)
    { unimplemented!() }
    #[verifier::external_body]
    pub fn get_f32_le(&mut self) -> (r: f32)
        requires old(self).rem().len() >= 4
        ensures r == f32_of_bits(dle32(old(self).rem(), 0) as u32), final(self).rem() == old(self).rem().subrange(4, old(self).rem().len() as int)
    { unimplemented!() }
}
// `uN::from_{le,be}_bytes([..])` (rule R4) with arithmetic contracts
#[verifier::external_body]
pub fn u32_from_le(b: [u8; 4]) -> (r: u32) ensures r == dle32(b@, 0) { u32::from_le_bytes(b) }
#[verifier::external_body]
pub fn u32_from_be(b: [u8; 4]) -> (r: u32) ensures r == dbe32(b@, 0) { u32::from_be_bytes(b) }
#[verifier::external_body]
pub fn u64_from_le(b: [u8; 8]) -> (r: u64) ensures r == dle64(b@, 0) { u64::from_le_bytes(b) }
#[verifier::external_body]
pub fn u64_from_be(b: [u8; 8]) -> (r: u64) ensures r == dbe64(b@, 0) { u64::from_be_bytes(b) }
#[verifier::external_body]
pub fn f32_from_le(b: [u8; 4]) -> (r: f32) ensures r == f32_of_bits(dle32(b@, 0) as u32) { f32::from_le_bytes(b) }
#[verifier::external_body]
pub fn f32_from_be(b: [u8; 4]) -> (r: f32) ensures r == f32_of_bits(dbe32(b@, 0) as u32) { f32::from_be_bytes(b) }
// ---- codec inverse lemmas (include after bytes.rs when needed) ----
/// base-256 digits of a u16 / u32 recombine to the value (bit-vector proof: stable in any context)
#[verifier::spinoff_prover]
pub proof fn lemma_digits16(x: u16)
    ensures byte_of(x as int, 0) as int + 256 * (byte_of(x as int, 1) as int) == x,
{
    reveal(byte_of);
    let a: u16 = x % 256; let b: u16 = x / 256 % 256;
    assert(a + 256 * b == x && a < 256 && b < 256) by (bit_vector) requires a == x % 256, b == x / 256 % 256;
}
#[verifier::spinoff_prover]
pub proof fn lemma_digits32(x: u32)
    ensures byte_of(x as int, 0) as int + 256 * (byte_of(x as int, 1) as int) + 65536 * (byte_of(x as int, 2) as int) + 16777216 * (byte_of(x as int, 3) as int) == x,
{
    reveal(byte_of);
    let a: u32 = x % 256; let b: u32 = x / 256 % 256; let c: u32 = x / 65536 % 256; let d: u32 = x / 16777216 % 256;
    assert(a + 256 * b + 65536 * c + 16777216 * d == x && a < 256 && b < 256 && c < 256 && d < 256) by (bit_vector)
        requires a == x % 256, b == x / 256 % 256, c == x / 65536 % 256, d == x / 16777216 % 256;
}
#[verifier::spinoff_prover]
pub proof fn lemma_codec16(big: bool, x: u16) ensures e16(big, x).len() == 2, d16(big, e16(big, x), 0) == x { lemma_digits16(x); }
#[verifier::spinoff_prover]
pub proof fn lemma_codec32(big: bool, x: u32) ensures e32(big, x).len() == 4, d32(big, e32(big, x), 0) == x { lemma_digits32(x); }
#[verifier::spinoff_prover]
pub proof fn lemma_split64(x: u64)
    ensures ({
        let lo = (x % 4294967296) as u32; let hi = (x / 4294967296) as u32;
        &&& byte_of(x as int, 0) == byte_of(lo as int, 0) && byte_of(x as int, 1) == byte_of(lo as int, 1)
        &&& byte_of(x as int, 2) == byte_of(lo as int, 2) && byte_of(x as int, 3) == byte_of(lo as int, 3)
        &&& byte_of(x as int, 4) == byte_of(hi as int, 0) && byte_of(x as int, 5) == byte_of(hi as int, 1)
        &&& byte_of(x as int, 6) == byte_of(hi as int, 2) && byte_of(x as int, 7) == byte_of(hi as int, 3)
        &&& x as int == lo as int + 4294967296 * (hi as int)
    })
{
    reveal(byte_of);
    assert(x % 256 == (x % 4294967296) % 256) by (bit_vector);
    assert(x / 256 % 256 == (x % 4294967296) / 256 % 256) by (bit_vector);
    assert(x / 65536 % 256 == (x % 4294967296) / 65536 % 256) by (bit_vector);
    assert(x / 16777216 % 256 == (x % 4294967296) / 16777216 % 256) by (bit_vector);
    assert(x / 4294967296 % 256 == (x / 4294967296) % 256) by (bit_vector);
    assert(x / 1099511627776 % 256 == (x / 4294967296) / 256 % 256) by (bit_vector);
    assert(x / 281474976710656 % 256 == (x / 4294967296) / 65536 % 256) by (bit_vector);
    assert(x / 72057594037927936 % 256 == (x / 4294967296) / 16777216 % 256) by (bit_vector);
    assert(x == (x % 4294967296) + 4294967296 * (x / 4294967296)) by (bit_vector);
    assert(x / 4294967296 <= 4294967295) by (bit_vector);
    assert(x % 4294967296 <= 4294967295) by (bit_vector);
}
pub proof fn lemma_codec64(big: bool, x: u64) ensures e64(big, x).len() == 8, d64(big, e64(big, x), 0) == x
{
    let lo = (x % 4294967296) as u32; let hi = (x / 4294967296) as u32;
    lemma_split64(x);
    lemma_codec32(big, lo); lemma_codec32(big, hi);
}
/// decoding inside a larger buffer: if the 4 bytes at s[k..k+4] are e32(big, x) then d32 reads x
pub proof fn lemma_d32_embedded(big: bool, s: Seq<u8>, k: int, x: u32)
    requires 0 <= k, k + 4 <= s.len(), s.subrange(k, k + 4) == e32(big, x),
    ensures d32(big, s, k) == x
{
    lemma_codec32(big, x);
    let t = s.subrange(k, k + 4);
    assert(t[0] == s[k] && t[1] == s[k + 1] && t[2] == s[k + 2] && t[3] == s[k + 3]);
}
pub proof fn lemma_d16_embedded(big: bool, s: Seq<u8>, k: int, x: u16)
    requires 0 <= k, k + 2 <= s.len(), s.subrange(k, k + 2) == e16(big, x),
    ensures d16(big, s, k) == x
{
    lemma_codec16(big, x);
    let t = s.subrange(k, k + 2);
    assert(t[0] == s[k] && t[1] == s[k + 1]);
}
pub proof fn lemma_d64_embedded(big: bool, s: Seq<u8>, k: int, x: u64)
    requires 0 <= k, k + 8 <= s.len(), s.subrange(k, k + 8) == e64(big, x),
    ensures d64(big, s, k) == x
{
    lemma_codec64(big, x);
    let t = s.subrange(k, k + 8);
    assert(t[0] == s[k] && t[1] == s[k + 1] && t[2] == s[k + 2] && t[3] == s[k + 3]
        && t[4] == s[k + 4] && t[5] == s[k + 5] && t[6] == s[k + 6] && t[7] == s[k + 7]);
}

/// shim for byteordered::Endianness (external crate, a plain 2-variant enum)
#[derive(Clone, Copy)]
pub enum Endianness { Big, Little }
pub open spec fn is_big(e: Endianness) -> bool { e is Big }

pub const CHROM_TREE_MAGIC: u32 = 0x78CA_8C91;
#[derive(Copy, Clone)]
pub enum BBIFile {
    BigWig,
    BigBed,
}
#[derive(Copy, Clone)]
pub struct ZoomHeader {
    pub reduction_level: u32,
    pub data_offset: u64,
    pub index_offset: u64,
    pub index_tree_offset: Option<u64>,
}
#[derive(Copy, Clone)]
pub struct BBIHeader {
    pub endianness: Endianness,
    pub version: u16,
    pub field_count: u16,
    pub defined_field_count: u16,

    pub zoom_levels: u16,
    pub chromosome_tree_offset: u64,
    pub full_data_offset: u64,
    pub full_index_offset: u64,
    pub full_index_tree_offset: Option<u64>,
    pub auto_sql_offset: u64,
    pub total_summary_offset: u64,
    pub uncompress_buf_size: u32,
}
// R11: `name: String` -> `name: Name` (the name as its UTF-8 bytes; str reasoning is outside Verus)
pub struct ChromInfo {
    pub name: Name,
    pub length: u32,
    pub id: u32,
}
pub struct BBIFileInfo {
    pub filetype: BBIFile,
    pub header: BBIHeader,
    pub zoom_headers: Vec<ZoomHeader>,
    pub chrom_info: Vec<ChromInfo>,
}
// thiserror derive: `#[error(..)]` display strings dropped, `#[from] io::Error` -> IoError; the From impl that
// `#[from]` generates is written out below (it wraps, nothing else).
pub enum BBIFileReadInfoError {
    UnknownMagic,
    InvalidChroms,
    IoError(IoError),
}
impl vstd::std_specs::convert::FromSpecImpl<IoError> for BBIFileReadInfoError {
    open spec fn obeys_from_spec() -> bool { true }
    open spec fn from_spec(e: IoError) -> BBIFileReadInfoError { BBIFileReadInfoError::IoError(e) }
}
impl From<IoError> for BBIFileReadInfoError {
    fn from(e: IoError) -> (r: BBIFileReadInfoError) { BBIFileReadInfoError::IoError(e) }
}
// `InvalidFile(String)` -> `InvalidFile(ErrText)` (a message that nothing inspects)
pub enum ChromTreeBlockReadError {
    InvalidFile(ErrText),
    IoError(IoError),
}
impl vstd::std_specs::convert::FromSpecImpl<IoError> for ChromTreeBlockReadError {
    open spec fn obeys_from_spec() -> bool { true }
    open spec fn from_spec(e: IoError) -> ChromTreeBlockReadError { ChromTreeBlockReadError::IoError(e) }
}
impl From<IoError> for ChromTreeBlockReadError {
    fn from(e: IoError) -> (r: ChromTreeBlockReadError) { ChromTreeBlockReadError::IoError(e) }
}
/// an error message (`"..".to_owned()`): content irrelevant
pub struct ErrText { _p: u8 }
#[verifier::external_body]
pub fn err_text(s: &str) -> ErrText { ErrText { _p: 0 } }

// ---- reader shim: `R: SeekableRead` / `BBIFileRead::raw_reader()` (Read + Seek over the file); same shim as
// ---- unit info, plus `seek_start` ----
#[verifier::external_body]
pub struct VRead { _p: u8 }
impl VRead {
    pub uninterp spec fn content(&self) -> Seq<u8>;
    pub uninterp spec fn pos(&self) -> int;
    /// ghost: some call on this reader has returned Err (Verus does not carry the value of a `?`-converted
    /// error, so "no I/O error happened" is stated through this flag)
    pub uninterp spec fn failed(&self) -> bool;
    /// `let mut b = BytesMut::zeroed(n); file.read_exact(&mut b)?;` : Ok only if n bytes were available;
    /// then the buffer holds exactly content[pos..pos+n].  May fail for any other reason too.
    #[verifier::external_body]
    pub fn read_cur(&mut self, n: usize) -> (r: Result<Cur, IoError>)
        requires 0 <= old(self).pos()
        ensures
            final(self).content() == old(self).content(),
            final(self).failed() == (old(self).failed() || r is Err),
            r is Ok ==> old(self).pos() + n <= old(self).content().len()
                && r->Ok_0.rem() == old(self).content().subrange(old(self).pos(), old(self).pos() + n)
                && final(self).pos() == old(self).pos() + n,
    { unimplemented!() }
    /// `file.seek(SeekFrom::Start(p))?` : Ok => the position is p (also beyond the end: the next read fails).
    /// May fail for any reason.
    #[verifier::external_body]
    pub fn seek_start(&mut self, p: u64) -> (r: Result<u64, IoError>)
        ensures
            final(self).content() == old(self).content(),
            final(self).failed() == (old(self).failed() || r is Err),
            r is Ok ==> final(self).pos() == p && r->Ok_0 == p,
    { unimplemented!() }
    /// calls a plausible edit might start using: no postcondition (the edit is judged by the contract)
    #[verifier::external_body]
    pub fn seek_current(&mut self, d: i64) -> (r: Result<u64, IoError>) { unimplemented!() }
    #[verifier::external_body]
    pub fn seek_end(&mut self, d: i64) -> (r: Result<u64, IoError>) { unimplemented!() }
    /// `Seek::stream_position` (not used today): reports the position, changes nothing
    #[verifier::external_body]
    pub fn stream_position(&mut self) -> (r: Result<u64, IoError>)
        ensures
            final(self).content() == old(self).content(), final(self).pos() == old(self).pos(),
            final(self).failed() == (old(self).failed() || r is Err),
            r is Ok ==> r->Ok_0 as int == old(self).pos(),
    { unimplemented!() }
}
// `bytes.as_ref()` of BytesMut: the unconsumed bytes (second inherent impl block: _shared/bytes.rs is not edited)
impl Cur {
    #[verifier::external_body]
    pub fn as_ref(&self) -> (r: &[u8]) ensures r@ == self.rem() { unimplemented!() }
    #[verifier::external_body]
    pub fn remaining(&self) -> (r: usize) ensures r == self.rem().len() { unimplemented!() }
}

// ---- names: String / &str as their UTF-8 bytes ----
/// strip trailing / leading 0 bytes
pub open spec fn trim_nul_end(s: Seq<u8>) -> Seq<u8>
    decreases s.len()
{
    if s.len() > 0 && s.last() == 0u8 { trim_nul_end(s.drop_last()) } else { s }
}
pub open spec fn trim_nul_start(s: Seq<u8>) -> Seq<u8>
    decreases s.len()
{
    if s.len() > 0 && s[0] == 0u8 { trim_nul_start(s.drop_first()) } else { s }
}
/// strip leading and trailing 0 bytes (`str::trim_matches('\0')` on the UTF-8 bytes: U+0000 is the single byte 0
/// and the byte 0 occurs in no other character's encoding)
pub open spec fn trim_nul(s: Seq<u8>) -> Seq<u8> { trim_nul_end(trim_nul_start(s)) }
/// "these bytes are valid UTF-8" (uninterpreted: `std::str::from_utf8` decides it)
pub uninterp spec fn utf8_ok(b: Seq<u8>) -> bool;

/// owned name (`String`), viewed as its bytes
pub struct Name { pub bytes: Vec<u8> }
impl Name {
    pub open spec fn view(&self) -> Seq<u8> { self.bytes@ }
}
/// `String::new()`
pub fn name_new() -> (r: Name) ensures r@ == Seq::<u8>::empty() { Name { bytes: Vec::new() } }
/// borrowed text (`&str`), viewed as its bytes
#[verifier::external_body]
pub struct VStr { _p: u8 }
pub struct Utf8Error { _p: u8 }
impl VStr {
    pub uninterp spec fn view(&self) -> Seq<u8>;
    /// ASSUMED: `s.trim_matches(c)` for c == NUL strips leading and trailing 0 bytes; nothing said for other c
    #[verifier::external_body]
    pub fn trim_matches(&self, c: char) -> (r: VStr) ensures c == '\0' ==> r@ == trim_nul(self@) { unimplemented!() }
    /// ASSUMED: trailing only / leading only
    #[verifier::external_body]
    pub fn trim_end_matches(&self, c: char) -> (r: VStr) ensures c == '\0' ==> r@ == trim_nul_end(self@) { unimplemented!() }
    #[verifier::external_body]
    pub fn trim_start_matches(&self, c: char) -> (r: VStr) ensures c == '\0' ==> r@ == trim_nul_start(self@) { unimplemented!() }
    /// whitespace trims: no postcondition (an edit to them is judged by the contract)
    #[verifier::external_body]
    pub fn trim(&self) -> (r: VStr) { unimplemented!() }
    #[verifier::external_body]
    pub fn trim_end(&self) -> (r: VStr) { unimplemented!() }
    #[verifier::external_body]
    pub fn trim_start(&self) -> (r: VStr) { unimplemented!() }
    /// ASSUMED: `to_owned` / `to_string` copy the text
    #[verifier::external_body]
    pub fn to_owned(&self) -> (r: Name) ensures r@ == self@ { unimplemented!() }
    #[verifier::external_body]
    pub fn to_string(&self) -> (r: Name) ensures r@ == self@ { unimplemented!() }
}
/// ASSUMED contract of `std::str::from_utf8`: Ok(the same bytes as text) iff the bytes are valid UTF-8
#[verifier::external_body]
pub fn str_from_utf8(b: &[u8]) -> (r: Result<VStr, Utf8Error>)
    ensures r is Ok <==> utf8_ok(b@), r is Ok ==> r->Ok_0@ == b@,
{ unimplemented!() }
/// ASSUMED: `from_utf8_lossy`, `from_utf8_unchecked`: no postcondition
#[verifier::external_body]
pub fn str_from_utf8_lossy(b: &[u8]) -> (r: VStr) { unimplemented!() }
/// `char::from(x: u8)`
#[verifier::external_body]
pub fn char_from_u8(x: u8) -> (r: char) ensures r as u32 == x as u32 { char::from(x) }
/// `r.map_err(|_| e)` (closure ignoring its argument): verified
pub fn map_err_to<T, E, F>(r: Result<T, E>, e: F) -> (o: Result<T, F>)
    ensures r matches Ok(v) ==> (o matches Ok(w) && w == v), r is Err ==> (o matches Err(x) && x == e),
{
    match r { Ok(v) => Ok(v), Err(_) => Err(e) }
}

// ---- chromosome B+ tree: format vocabulary (published layout, Kent et al. 2010: "B+ tree header / node /
// ---- leaf item / non-leaf item"), written for a decoder; shares no text with the reader code ----

/// leaf item as stored: (key bytes (exactly keySize of them), chromId, chromSize)
pub type Item = (Seq<u8>, u32, u32);
/// row of the chromosome table: (name bytes, id, length)
pub type Row = (Seq<u8>, u32, u32);

/// GHOST description of the tree stored in a file: a leaf node holds items; a non-leaf node holds, per item,
/// the file offset of a child node and (ghost) the child stored there.  Non-leaf keys are not recorded: a
/// reader that enumerates all chromosomes does not use them.
pub enum CTree {
    Leaf(Seq<Item>),
    Node(Seq<(u64, CTree)>),
}
pub open spec fn node_count(t: CTree) -> int {
    match t { CTree::Leaf(items) => items.len() as int, CTree::Node(kids) => kids.len() as int }
}
pub open spec fn kid_tree(t: CTree, i: int) -> CTree
    recommends t is Node, 0 <= i < t->Node_0.len()
{
    t->Node_0[i].1
}
/// byte offset of item i behind the 4-byte node header: items are keySize + 8 bytes each (leaf: key, id u32,
/// size u32; non-leaf: key, child offset u64).  Opaque: the product is unfolded only in lemma_stride*.
#[verifier::opaque]
pub open spec fn stride(i: int, ks: int) -> int { i * (ks + 8) }

/// the bytes of `c` at `off` encode node `t` (and, for a non-leaf node, each child pointer is the offset at
/// which the corresponding child is encoded), integers in byte order `big`, keys of `ks` bytes:
///   node header, 4 bytes: isLeaf u8 (1 leaf / 0 non-leaf), reserved u8, count u16
///   leaf item i at off + 4 + i*(ks+8):     key[ks], chromId u32, chromSize u32
///   non-leaf item i at off + 4 + i*(ks+8): key[ks], childOffset u64
pub open spec fn tree_at(c: Seq<u8>, big: bool, ks: int, off: int, t: CTree) -> bool
    decreases t
{
    &&& 0 <= ks <= 0xFFFF_FFFF
    &&& 0 <= off
    &&& node_count(t) <= 0xFFFF
    &&& off + 4 + stride(node_count(t), ks) <= c.len()
    &&& d16(big, c, off + 2) == node_count(t)
    &&& match t {
        CTree::Leaf(items) => {
            &&& c[off] == 1u8
            &&& forall|i: int| 0 <= i < items.len() ==> leaf_item_at(c, big, ks, off + 4 + stride(i, ks), #[trigger] items[i])
        }
        CTree::Node(kids) => {
            &&& c[off] == 0u8
            &&& forall|i: int| 0 <= i < kids.len() ==>
                    d64(big, c, off + 4 + stride(i, ks) + ks) == (#[trigger] kids[i]).0
                    && tree_at(c, big, ks, kids[i].0 as int, kids[i].1)
        }
    }
}
/// the 32-byte tree header at `cto` lies inside the file and starts with the B+ tree magic 0x78CA8C91 (literal of
/// the format, not the extracted const) in byte order `big`.  Layout: magic u32, blockSize u32, keySize u32 (+8),
/// valSize u32 (+12), itemCount u64 (+16), reserved u64 (+24); the root node follows at cto + 32.
pub open spec fn tree_hdr_ok(c: Seq<u8>, big: bool, cto: int) -> bool {
    0 <= cto && cto + 32 <= c.len() && d32(big, c, cto) == 0x78CA_8C91
}
pub open spec fn leaf_item_at(c: Seq<u8>, big: bool, ks: int, o: int, it: Item) -> bool {
    &&& c.subrange(o, o + ks) == it.0
    &&& d32(big, c, o + ks) == it.1
    &&& d32(big, c, o + ks + 4) == it.2
}

/// all leaf items below t, as stored, in pre-order: children in stored order = file key order, every leaf
/// item exactly once
pub open spec fn leaf_items(t: CTree) -> Seq<Item>
    decreases t, 0int
{
    match t {
        CTree::Leaf(items) => items,
        CTree::Node(kids) => leaf_items_pref(kids, kids.len() as int),
    }
}
/// ... below the first n children
pub open spec fn leaf_items_pref(kids: Seq<(u64, CTree)>, n: int) -> Seq<Item>
    decreases kids, n
{
    if n <= 0 || n > kids.len() { Seq::empty() } else { leaf_items_pref(kids, n - 1) + leaf_items(kids[n - 1].1) }
}
/// what the chromosome table shows for a stored item: the key with its NUL padding removed, id, size
pub open spec fn row_of(it: Item) -> Row { (trim_nul(it.0), it.1, it.2) }
pub open spec fn rows_of(s: Seq<Item>) -> Seq<Row> { s.map_values(|it: Item| row_of(it)) }
pub open spec fn utf8_all(s: Seq<Item>) -> bool { forall|i: int| 0 <= i < s.len() ==> utf8_ok((#[trigger] s[i]).0) }
/// the chromosome table entry as a row
pub open spec fn ci_view(c: ChromInfo) -> Row { (c.name@, c.id, c.length) }
pub open spec fn infos(s: Seq<ChromInfo>) -> Seq<Row> { s.map_values(|c: ChromInfo| ci_view(c)) }

// ---- lemmas ----
pub proof fn lemma_stride(i: int, ks: int)
    ensures stride(i + 1, ks) == stride(i, ks) + ks + 8, stride(0, ks) == 0, stride(i, ks) == (ks + 8) * i,
{
    reveal(stride);
    assert((i + 1) * (ks + 8) == i * (ks + 8) + (ks + 8)) by (nonlinear_arith);
    assert(i * (ks + 8) == (ks + 8) * i) by (nonlinear_arith);
}
pub proof fn lemma_stride_mono(i: int, j: int, ks: int)
    requires 0 <= i <= j, 0 <= ks,
    ensures 0 <= stride(i, ks) <= stride(j, ks),
{
    reveal(stride);
    assert(0 <= i * (ks + 8) <= j * (ks + 8)) by (nonlinear_arith) requires 0 <= i <= j, 0 <= ks;
}
/// one unfolding of tree_at, without the quantifiers
pub proof fn lemma_tree_at_unfold(c: Seq<u8>, big: bool, ks: int, off: int, t: CTree)
    requires tree_at(c, big, ks, off, t),
    ensures
        0 <= ks <= 0xFFFF_FFFF, 0 <= off, 0 <= node_count(t) <= 0xFFFF,
        0 <= stride(node_count(t), ks), off + 4 + stride(node_count(t), ks) <= c.len(),
        d16(big, c, off + 2) == node_count(t),
        t is Leaf ==> c[off] == 1u8, t is Node ==> c[off] == 0u8,
{
    lemma_stride_mono(0, node_count(t), ks);
}
pub proof fn lemma_leaf_item(c: Seq<u8>, big: bool, ks: int, off: int, items: Seq<Item>, i: int)
    requires tree_at(c, big, ks, off, CTree::Leaf(items)), 0 <= i < items.len(),
    ensures leaf_item_at(c, big, ks, off + 4 + stride(i, ks), items[i]),
{
}
pub proof fn lemma_kid_ptr(c: Seq<u8>, big: bool, ks: int, off: int, kids: Seq<(u64, CTree)>, i: int)
    requires tree_at(c, big, ks, off, CTree::Node(kids)), 0 <= i < kids.len(),
    ensures d64(big, c, off + 4 + stride(i, ks) + ks) == kids[i].0,
{
}
/// child i of a described non-leaf node is described at its pointer, and is smaller
pub proof fn lemma_kid(c: Seq<u8>, big: bool, ks: int, off: int, t: CTree, i: int)
    requires tree_at(c, big, ks, off, t), t is Node, 0 <= i < t->Node_0.len(),
    ensures tree_at(c, big, ks, t->Node_0[i].0 as int, kid_tree(t, i)), decreases_to!(t => kid_tree(t, i)),
{
    let kids = t->Node_0;
    assert(tree_at(c, big, ks, kids[i].0 as int, kids[i].1));
}
proof fn lemma_utf8_concat(a: Seq<Item>, b: Seq<Item>)
    ensures utf8_all(a + b) <==> utf8_all(a) && utf8_all(b),
{
    if utf8_all(a + b) {
        assert forall|i: int| 0 <= i < a.len() implies utf8_ok((#[trigger] a[i]).0) by { assert((a + b)[i] == a[i]); }
        assert forall|i: int| 0 <= i < b.len() implies utf8_ok((#[trigger] b[i]).0) by { assert((a + b)[a.len() + i] == b[i]); }
    }
    if utf8_all(a) && utf8_all(b) {
        assert forall|i: int| 0 <= i < (a + b).len() implies utf8_ok((#[trigger] (a + b)[i]).0) by {
            if i < a.len() { assert((a + b)[i] == a[i]); } else { assert((a + b)[i] == b[i - a.len()]); }
        }
    }
}
/// all keys below a node are valid UTF-8  ==>  so are all keys below each child
pub proof fn lemma_utf8_kid(kids: Seq<(u64, CTree)>, n: int, i: int)
    requires 0 <= i < n <= kids.len(),
    ensures utf8_all(leaf_items_pref(kids, n)) ==> utf8_all(leaf_items(kids[i].1)) && utf8_all(leaf_items_pref(kids, i)),
    decreases n,
{
    lemma_utf8_concat(leaf_items_pref(kids, n - 1), leaf_items(kids[n - 1].1));
    if i < n - 1 { lemma_utf8_kid(kids, n - 1, i); }
}
// ---- COPY of the writer-side format spec of unit chrom_tree (contracts/chrom_tree/unit.rs.tpl, prelude:
// ---- `Chrom`, `imax`, `zeros`, `pad`, `max_key`, `put_tree_header`, `put_node_header`, `put_item`,
// ---- `items_from`, `fmt_chrom_tree_from`, `item_bytes`, `item_off` and the lemmas `lemma_max_key_bounds`,
// ---- `lemma_items_len`, `lemma_item_off`, `lemma_item_off_mono`, `lemma_item_at`), text unchanged.
// ---- It is a COPY (chrom_tree keeps its spec inside its template, so it cannot be `//@include`d): if
// ---- chrom_tree's spec changes this file must follow.  `write_chrom_tree` is proved there to append exactly
// ---- `fmt_chrom_tree_from(old, chroms)`.

/// one chromosome as the replaced prologue hands it to the writing code: (name bytes, id, length)
pub type Chrom = (Vec<u8>, u32, u32);

pub open spec fn imax(a: int, b: int) -> int { if a >= b { a } else { b } }
pub open spec fn zeros(n: int) -> Seq<u8> { Seq::new(n as nat, |i: int| 0u8) }
/// key field: the name followed by NULs up to keySize bytes
pub open spec fn pad(name: Seq<u8>, n: int) -> Seq<u8> { name + zeros(n - name.len()) }
/// keySize = the longest name
pub open spec fn max_key(c: Seq<Chrom>) -> int
    decreases c.len()
{
    if c.len() == 0 { 0 } else { imax(max_key(c.drop_last()), c.last().0@.len() as int) }
}
/// tree header, 32 bytes: magic 0x78CA8C91, blockSize u32, keySize u32, valSize u32 (= 8), itemCount u64, reserved u64 (= 0)
pub open spec fn put_tree_header(b: Seq<u8>, n: int, key: int) -> Seq<u8> {
    b + le32(0x78CA8C91u32) + le32(imax(256, n) as u32) + le32(key as u32) + le32(8u32) + le64(n as u64) + le64(0u64)
}
/// node header, 4 bytes: isLeaf u8 (= 1), reserved u8 (= 0), count u16
pub open spec fn put_node_header(b: Seq<u8>, n: int) -> Seq<u8> {
    b.push(1u8).push(0u8) + le16(n as u16)
}
/// leaf item: key (keySize bytes), chromId u32, chromSize u32
pub open spec fn put_item(b: Seq<u8>, c: Chrom, key: int) -> Seq<u8> {
    b + pad(c.0@, key) + le32(c.1) + le32(c.2)
}
pub open spec fn items_from(b: Seq<u8>, c: Seq<Chrom>, key: int) -> Seq<u8>
    decreases c.len()
{
    if c.len() == 0 { b } else { put_item(items_from(b, c.drop_last(), key), c.last(), key) }
}
/// `b` followed by the whole chromosome tree of `c`
pub open spec fn fmt_chrom_tree_from(b: Seq<u8>, c: Seq<Chrom>) -> Seq<u8> {
    items_from(put_node_header(put_tree_header(b, c.len() as int, max_key(c)), c.len() as int), c, max_key(c))
}

pub proof fn lemma_max_key_bounds(c: Seq<Chrom>, i: int)
    requires 0 <= i < c.len(),
    ensures c[i].0@.len() <= max_key(c), 0 <= max_key(c),
    decreases c.len(),
{
    if i < c.len() - 1 { lemma_max_key_bounds(c.drop_last(), i); }
    else if c.len() > 1 { lemma_max_key_bounds(c.drop_last(), 0); }
}
pub proof fn lemma_items_len(b: Seq<u8>, c: Seq<Chrom>, key: int)
    requires forall|i: int| 0 <= i < c.len() ==> (#[trigger] c[i]).0@.len() <= key,
    ensures items_from(b, c, key).len() == b.len() + c.len() * (key + 8),
    decreases c.len(),
{
    if c.len() > 0 {
        let d = c.drop_last();
        assert forall|i: int| 0 <= i < d.len() implies (#[trigger] d[i]).0@.len() <= key by { assert(d[i] == c[i]); }
        lemma_items_len(b, d, key);
        assert(c.len() * (key + 8) == d.len() * (key + 8) + (key + 8)) by (nonlinear_arith) requires c.len() == d.len() + 1;
    }
}

/// leaf item i as an independent decoder finds it: key, chromId, chromSize
pub open spec fn item_bytes(c: Chrom, key: int) -> Seq<u8> { pad(c.0@, key) + le32(c.1) + le32(c.2) }
/// byte offset of item i behind the node header (items are key + 8 bytes each)
pub open spec fn item_off(i: int, key: int) -> int { i * (key + 8) }
pub proof fn lemma_item_off(i: int, key: int)
    ensures item_off(i + 1, key) == item_off(i, key) + key + 8, item_off(0, key) == 0,
{
    assert((i + 1) * (key + 8) == i * (key + 8) + (key + 8)) by (nonlinear_arith);
}
pub proof fn lemma_item_off_mono(i: int, j: int, key: int)
    requires 0 <= i <= j, 0 <= key,
    ensures item_off(i, key) <= item_off(j, key),
{
    assert(i * (key + 8) <= j * (key + 8)) by (nonlinear_arith) requires 0 <= i <= j, 0 <= key;
}
/// the fixed-size items sit one after the other: item i occupies [item_off(i), item_off(i + 1)) behind `b`
pub proof fn lemma_item_at(b: Seq<u8>, c: Seq<Chrom>, key: int, i: int)
    requires 0 <= i < c.len(), 0 <= key, forall|j: int| 0 <= j < c.len() ==> (#[trigger] c[j]).0@.len() <= key,
    ensures items_from(b, c, key).subrange(b.len() + item_off(i, key), b.len() + item_off(i + 1, key)) == item_bytes(c[i], key),
    decreases c.len(),
{
    let d = c.drop_last();
    assert forall|j: int| 0 <= j < d.len() implies (#[trigger] d[j]).0@.len() <= key by { assert(d[j] == c[j]); }
    lemma_items_len(b, d, key);
    lemma_item_off(i, key);
    let g = items_from(b, d, key);
    let f = items_from(b, c, key);
    let o = b.len() + item_off(i, key);
    assert(g.len() == b.len() + item_off(d.len() as int, key));
    if i == c.len() - 1 {
        assert(f.subrange(o, o + key + 8) =~= item_bytes(c.last(), key));
    } else {
        lemma_item_at(b, d, key, i);
        lemma_item_off_mono(i + 1, d.len() as int, key);
        assert(f.subrange(o, o + key + 8) =~= g.subrange(o, o + key + 8));
    }
}
// ---- corollaries of the reader contract (proof fns; no code of /repo involved) ----

/// bytes outside a described tree do not matter, part 1: appending data to the file keeps the description
pub proof fn lemma_tree_at_extend(c: Seq<u8>, c2: Seq<u8>, big: bool, ks: int, off: int, t: CTree)
    requires tree_at(c, big, ks, off, t), c.len() <= c2.len(), c2.subrange(0, c.len() as int) == c,
    ensures
        
        tree_at(c2, big, ks, off, t),
    decreases t,
{
    assert forall|j: int| 0 <= j < c.len() implies c2[j] == c[j] by { assert(c2.subrange(0, c.len() as int)[j] == c2[j]); }
    let n = node_count(t);
    lemma_stride_mono(0, n, ks);
    match t {
        CTree::Leaf(items) => {
            assert forall|i: int| 0 <= i < items.len() implies leaf_item_at(c2, big, ks, off + 4 + stride(i, ks), #[trigger] items[i]) by {
                lemma_stride(i, ks); lemma_stride_mono(i + 1, n, ks); lemma_stride_mono(0, i, ks);
                let o = off + 4 + stride(i, ks);
                assert(leaf_item_at(c, big, ks, o, items[i]));
                assert(c2.subrange(o, o + ks) =~= c.subrange(o, o + ks));
            }
        }
        CTree::Node(kids) => {
            assert forall|i: int| 0 <= i < kids.len() implies
                d64(big, c2, off + 4 + stride(i, ks) + ks) == (#[trigger] kids[i]).0 && tree_at(c2, big, ks, kids[i].0 as int, kids[i].1) by {
                lemma_stride(i, ks); lemma_stride_mono(i + 1, n, ks); lemma_stride_mono(0, i, ks);
                assert(tree_at(c, big, ks, kids[i].0 as int, kids[i].1));
                lemma_tree_at_extend(c, c2, big, ks, kids[i].0 as int, kids[i].1);
            }
        }
    }
}

// ---------- (a) the single-leaf tree written by bbiwrite::write_chrom_tree (unit chrom_tree) ----------
/// the leaf that `fmt_chrom_tree_from` lays out: item i = (name_i padded with NULs to keySize, id_i, length_i)
pub open spec fn written_items(c: Seq<Chrom>, key: int) -> Seq<Item> {
    Seq::new(c.len(), |i: int| (pad(c[i].0@, key), c[i].1, c[i].2))
}
pub open spec fn written_leaf(c: Seq<Chrom>) -> CTree { CTree::Leaf(written_items(c, max_key(c))) }
/// the list that was handed to the writer, as rows
pub open spec fn table_of(c: Seq<Chrom>) -> Seq<Row> { Seq::new(c.len(), |i: int| (c[i].0@, c[i].1, c[i].2)) }
/// SIDE CONDITION of the round trip: the name neither starts nor ends with a NUL byte
pub open spec fn no_nul_ends(s: Seq<u8>) -> bool { s.len() == 0 || (s[0] != 0u8 && s.last() != 0u8) }

proof fn lemma_trim_start_zeros(k: int)
    requires 0 <= k,
    ensures trim_nul_start(zeros(k)) == Seq::<u8>::empty(),
    decreases k,
{
    if k > 0 {
        assert(zeros(k).drop_first() =~= zeros(k - 1));
        lemma_trim_start_zeros(k - 1);
    } else {
        assert(zeros(0) =~= Seq::<u8>::empty());
    }
}
proof fn lemma_trim_end_zeros(name: Seq<u8>, k: int)
    requires 0 <= k,
    ensures trim_nul_end(name + zeros(k)) == trim_nul_end(name),
    decreases k,
{
    if k > 0 {
        assert((name + zeros(k)).drop_last() =~= name + zeros(k - 1));
        assert((name + zeros(k)).last() == 0u8);
        lemma_trim_end_zeros(name, k - 1);
    } else {
        assert(name + zeros(0) =~= name);
    }
}
/// NUL padding is removed again by the reader's trim, if the name itself has no NUL at either end
pub proof fn lemma_trim_pad(name: Seq<u8>, key: int)
    requires no_nul_ends(name), name.len() <= key,
    ensures
        
        trim_nul(pad(name, key)) == name,
{
    let k = key - name.len();
    if name.len() == 0 {
        assert(pad(name, key) =~= zeros(k));
        lemma_trim_start_zeros(k);
    } else {
        assert(pad(name, key)[0] == name[0]);
        assert(trim_nul_start(pad(name, key)) == pad(name, key));
        lemma_trim_end_zeros(name, k);
    }
}
proof fn lemma_max_key_le(c: Seq<Chrom>, b: int)
    requires 0 <= b, forall|i: int| 0 <= i < c.len() ==> (#[trigger] c[i]).0@.len() <= b,
    ensures 0 <= max_key(c) <= b,
    decreases c.len(),
{
    if c.len() > 0 {
        let d = c.drop_last();
        assert forall|i: int| 0 <= i < d.len() implies (#[trigger] d[i]).0@.len() <= b by { assert(d[i] == c[i]); }
        lemma_max_key_le(d, b);
        assert(c.last() == c[c.len() - 1]);
    }
}
proof fn lemma_items_keep_prefix(b: Seq<u8>, c: Seq<Chrom>, key: int)
    ensures items_from(b, c, key).len() >= b.len(), items_from(b, c, key).subrange(0, b.len() as int) == b,
    decreases c.len(),
{
    if c.len() > 0 {
        lemma_items_keep_prefix(b, c.drop_last(), key);
        let g = items_from(b, c.drop_last(), key);
        assert(items_from(b, c, key).subrange(0, b.len() as int) =~= g.subrange(0, b.len() as int));
    } else {
        assert(b.subrange(0, b.len() as int) =~= b);
    }
}
/// the 36 bytes of tree header + node header, decoded field by field (little-endian: NativeEndian on the assumed host)
proof fn lemma_written_headers(b0: Seq<u8>, n: int, key: int)
    requires 0 <= n <= 65535, 0 <= key <= u32::MAX,
    ensures ({
        let h = put_node_header(put_tree_header(b0, n, key), n);
        let o = b0.len() as int;
        &&& h.len() == o + 36
        &&& h.subrange(0, o) == b0
        &&& d32(false, h, o) == 0x78CA_8C91
        &&& d32(false, h, o + 8) == key
        &&& d32(false, h, o + 12) == 8
        &&& d64(false, h, o + 16) == n
        &&& h[o + 32] == 1u8
        &&& d16(false, h, o + 34) == n
    }),
{
    let h = put_node_header(put_tree_header(b0, n, key), n);
    let o = b0.len() as int;
    assert(h.subrange(0, o) =~= b0);
    assert(h.subrange(o, o + 4) =~= le32(0x78CA8C91u32));
    lemma_d32_embedded(false, h, o, 0x78CA8C91u32);
    assert(h.subrange(o + 8, o + 12) =~= le32(key as u32));
    lemma_d32_embedded(false, h, o + 8, key as u32);
    assert(h.subrange(o + 12, o + 16) =~= le32(8u32));
    lemma_d32_embedded(false, h, o + 12, 8u32);
    assert(h.subrange(o + 16, o + 24) =~= le64(n as u64));
    lemma_d64_embedded(false, h, o + 16, n as u64);
    assert(h.subrange(o + 34, o + 36) =~= le16(n as u16));
    lemma_d16_embedded(false, h, o + 34, n as u16);
}

/// item i of the written leaf, as the decoder finds it in g = fmt_chrom_tree_from(b0, c)
proof fn lemma_written_item(b0: Seq<u8>, c: Seq<Chrom>, i: int)
    requires
        c.len() <= 65535, 0 <= i < c.len(),
        forall|j: int| 0 <= j < c.len() ==> (#[trigger] c[j]).0@.len() <= max_key(c),
    ensures
        leaf_item_at(fmt_chrom_tree_from(b0, c), false, max_key(c), b0.len() + 36 + stride(i, max_key(c)), written_items(c, max_key(c))[i]),
{
    let n = c.len() as int;
    let key = max_key(c);
    let cto = b0.len() as int;
    lemma_max_key_bounds(c, i);
    let h = put_node_header(put_tree_header(b0, n, key), n);
    let g = fmt_chrom_tree_from(b0, c);
    assert(h.len() == cto + 36);
    lemma_item_at(h, c, key, i);
    lemma_items_len(h, c, key);
    lemma_stride(n, key);
    assert(g.len() == cto + 36 + stride(n, key)) by { assert(c.len() * (key + 8) == (key + 8) * n) by (nonlinear_arith) requires n == c.len(); }
    lemma_stride(i, key); lemma_stride(i + 1, key); lemma_stride_mono(i + 1, n, key); lemma_stride_mono(0, i, key);
    assert(item_off(i, key) == stride(i, key) && item_off(i + 1, key) == stride(i + 1, key)) by {
        assert(i * (key + 8) == (key + 8) * i) by (nonlinear_arith);
        assert((i + 1) * (key + 8) == (key + 8) * (i + 1)) by (nonlinear_arith);
    }
    let o = cto + 36 + stride(i, key);
    let ib = item_bytes(c[i], key);
    assert(g.subrange(o, o + key + 8) == ib);
    assert(pad(c[i].0@, key).len() == key);
    assert(ib.len() == key + 8);
    lemma_sub_sub(g, o, o + key + 8, 0, key);
    assert(ib.subrange(0, key) =~= pad(c[i].0@, key));
    lemma_sub_sub(g, o, o + key + 8, key, key + 4);
    assert(ib.subrange(key, key + 4) =~= le32(c[i].1));
    lemma_d32_embedded(false, g, o + key, c[i].1);
    lemma_sub_sub(g, o, o + key + 8, key + 4, key + 8);
    assert(ib.subrange(key + 4, key + 8) =~= le32(c[i].2));
    lemma_d32_embedded(false, g, o + key + 4, c[i].2);
}
proof fn lemma_sub_sub(g: Seq<u8>, a: int, b: int, x: int, y: int)
    requires 0 <= a <= b <= g.len(), 0 <= x <= y <= b - a,
    ensures g.subrange(a, b).subrange(x, y) == g.subrange(a + x, a + y),
{
    assert(g.subrange(a, b).subrange(x, y) =~= g.subrange(a + x, a + y));
}
/// the tree as written, without anything behind it
proof fn lemma_written_tree(b0: Seq<u8>, c: Seq<Chrom>)
    requires
        c.len() <= 65535,
        forall|i: int| 0 <= i < c.len() ==> (#[trigger] c[i]).0@.len() <= u32::MAX,
    ensures
        tree_hdr_ok(fmt_chrom_tree_from(b0, c), false, b0.len() as int),
        d32(false, fmt_chrom_tree_from(b0, c), b0.len() as int + 8) == max_key(c),
        d32(false, fmt_chrom_tree_from(b0, c), b0.len() as int + 12) == 8,
        d64(false, fmt_chrom_tree_from(b0, c), b0.len() as int + 16) == c.len(),
        fmt_chrom_tree_from(b0, c).subrange(0, b0.len() as int) == b0,
        fmt_chrom_tree_from(b0, c).len() >= b0.len() + 36,
        tree_at(fmt_chrom_tree_from(b0, c), false, max_key(c), b0.len() as int + 32, written_leaf(c)),
{
    let n = c.len() as int;
    let key = max_key(c);
    let cto = b0.len() as int;
    lemma_max_key_le(c, u32::MAX as int);
    assert forall|i: int| 0 <= i < c.len() implies (#[trigger] c[i]).0@.len() <= key by { lemma_max_key_bounds(c, i); }
    let h = put_node_header(put_tree_header(b0, n, key), n);
    let g = fmt_chrom_tree_from(b0, c);
    lemma_written_headers(b0, n, key);
    lemma_items_keep_prefix(h, c, key);
    lemma_items_len(h, c, key);
    assert(g.subrange(0, h.len() as int) == h);
    assert forall|j: int| 0 <= j < h.len() implies g[j] == h[j] by { assert(g.subrange(0, h.len() as int)[j] == g[j]); }
    assert(g.subrange(0, cto) =~= h.subrange(0, cto));
    let items = written_items(c, key);
    lemma_stride(n, key);
    assert(g.len() == cto + 36 + stride(n, key)) by { assert(c.len() * (key + 8) == (key + 8) * n) by (nonlinear_arith) requires n == c.len(); }
    lemma_stride_mono(0, n, key);
    assert forall|i: int| 0 <= i < items.len() implies leaf_item_at(g, false, key, cto + 32 + 4 + stride(i, key), #[trigger] items[i]) by {
        lemma_written_item(b0, c, i);
    }
}

/// (a) READ(WRITE(list)) == list.  `b0` = whatever precedes the tree in the file (the tree starts at
/// chromosome_tree_offset == |b0|), `rest` = whatever follows it.  What `write_chrom_tree` appends (proved in unit
/// chrom_tree to be `fmt_chrom_tree_from`) satisfies every precondition of the reader (`read_info` tail) with the
/// ghost tree `written_leaf(c)`, little-endian, keySize = longest name, valSize = 8; and the rows the reader
/// contract then promises are the written list itself, PROVIDED no name starts or ends with a NUL byte.
pub proof fn theorem_written_tree_reads_back(b0: Seq<u8>, c: Seq<Chrom>, rest: Seq<u8>)
    requires
        c.len() <= 65535,
        forall|i: int| 0 <= i < c.len() ==> (#[trigger] c[i]).0@.len() <= u32::MAX,
    ensures
        
        tree_hdr_ok(fmt_chrom_tree_from(b0, c) + rest, false, b0.len() as int),
        
        d32(false, fmt_chrom_tree_from(b0, c) + rest, b0.len() as int + 8) == max_key(c)
            && d32(false, fmt_chrom_tree_from(b0, c) + rest, b0.len() as int + 12) == 8
            && d64(false, fmt_chrom_tree_from(b0, c) + rest, b0.len() as int + 16) == c.len(),
        
        (fmt_chrom_tree_from(b0, c) + rest).subrange(0, b0.len() as int) == b0,
        
        tree_at(fmt_chrom_tree_from(b0, c) + rest, false, max_key(c), b0.len() as int + 32, written_leaf(c)),
        
        (forall|i: int| 0 <= i < c.len() ==> no_nul_ends((#[trigger] c[i]).0@))
            ==> rows_of(leaf_items(written_leaf(c))) == table_of(c),
{
    let key = max_key(c);
    let cto = b0.len() as int;
    let g = fmt_chrom_tree_from(b0, c);
    let f = g + rest;
    lemma_written_tree(b0, c);
    assert(f.subrange(0, g.len() as int) =~= g);
    lemma_tree_at_extend(g, f, false, key, cto + 32, written_leaf(c));
    assert(f.subrange(0, cto) =~= g.subrange(0, cto));
    assert forall|j: int| 0 <= j < g.len() implies f[j] == g[j] by {}
    let items = written_items(c, key);
    if forall|i: int| 0 <= i < c.len() ==> no_nul_ends((#[trigger] c[i]).0@) {
        assert forall|i: int| 0 <= i < c.len() implies rows_of(items)[i] == table_of(c)[i] by {
            lemma_max_key_bounds(c, i);
            lemma_trim_pad(c[i].0@, key);
        }
        assert(rows_of(items) =~= table_of(c));
    }
}

// ---------- (b) two-level tree: a non-leaf root over k leaves ----------
pub open spec fn two_level(offs: Seq<u64>, leaves: Seq<Seq<Item>>) -> CTree {
    CTree::Node(Seq::new(offs.len(), |i: int| (offs[i], CTree::Leaf(leaves[i]))))
}
/// the first n leaves one after the other
pub open spec fn concat_pref(ls: Seq<Seq<Item>>, n: int) -> Seq<Item>
    decreases n
{
    if n <= 0 { Seq::empty() } else { concat_pref(ls, n - 1) + ls[n - 1] }
}
proof fn lemma_two_level_pref(offs: Seq<u64>, leaves: Seq<Seq<Item>>, n: int)
    requires offs.len() == leaves.len(), 0 <= n <= leaves.len(),
    ensures leaf_items_pref(two_level(offs, leaves)->Node_0, n) == concat_pref(leaves, n),
    decreases n,
{
    let kids = two_level(offs, leaves)->Node_0;
    if n > 0 {
        lemma_two_level_pref(offs, leaves, n - 1);
        assert(kids[n - 1].1 == CTree::Leaf(leaves[n - 1]));
        assert(leaf_items(kids[n - 1].1) == leaves[n - 1]);
    }
}
/// (b) a root with k leaf children yields the items of leaf 0, then leaf 1, ... : item j of leaf i sits at
/// position |leaf 0| + .. + |leaf i-1| + j, and there is nothing else
pub proof fn theorem_two_level_is_concatenation(offs: Seq<u64>, leaves: Seq<Seq<Item>>)
    requires offs.len() == leaves.len(),
    ensures
        
        leaf_items(two_level(offs, leaves)) == concat_pref(leaves, leaves.len() as int),
{
    lemma_two_level_pref(offs, leaves, leaves.len() as int);
}
pub proof fn lemma_concat_index(ls: Seq<Seq<Item>>, n: int, i: int, j: int)
    requires 0 <= i < n <= ls.len(), 0 <= j < ls[i].len(),
    ensures
        
        concat_pref(ls, i).len() + j < concat_pref(ls, n).len()
            && concat_pref(ls, n)[concat_pref(ls, i).len() + j] == ls[i][j]
            && concat_pref(ls, n).len() == concat_pref(ls, n - 1).len() + ls[n - 1].len(),
    decreases n,
{
    if i < n - 1 {
        lemma_concat_index(ls, n - 1, i, j);
    }
}

// ---------- non-vacuity witness: a concrete BIG-endian two-level file, keySize 1 ----------
/// root (non-leaf, 1 item: key "a", child at 13) at offset 0; leaf (1 item: key "a", id 5, size 9) at offset 13
pub open spec fn example_two_level_file() -> Seq<u8> {
    seq![0u8, 0, 0, 1,   97, 0, 0, 0, 0, 0, 0, 0, 13,
         1, 0, 0, 1,     97, 0, 0, 0, 5, 0, 0, 0, 9]
}
pub proof fn lemma_example_two_level()
    ensures
        
        tree_at(example_two_level_file(), true, 1, 0,
            CTree::Node(seq![(13u64, CTree::Leaf(seq![(seq![97u8], 5u32, 9u32)]))])),
        
        rows_of(leaf_items(CTree::Node(seq![(13u64, CTree::Leaf(seq![(seq![97u8], 5u32, 9u32)]))])))
            == seq![(seq![97u8], 5u32, 9u32)],
{
    let f = example_two_level_file();
    let items: Seq<Item> = seq![(seq![97u8], 5u32, 9u32)];
    let leaf = CTree::Leaf(items);
    let kids: Seq<(u64, CTree)> = seq![(13u64, leaf)];
    let t = CTree::Node(kids);
    lemma_stride(0, 1);
    assert(stride(1, 1) == 9 && stride(0, 1) == 0);
    assert(f.len() == 26);
    assert(f.subrange(17, 18) =~= seq![97u8]);
    assert(leaf_item_at(f, true, 1, 17, items[0]));
    assert(tree_at(f, true, 1, 13, leaf));
    assert(d64(true, f, 5) == 13);
    assert(tree_at(f, true, 1, 0, t));
    // rows
    assert(leaf_items_pref(kids, 0) =~= Seq::<Item>::empty());
    assert(kids[0].1 == leaf && leaf_items(leaf) == items);
    assert(leaf_items_pref(kids, 1) == leaf_items_pref(kids, 0) + leaf_items(kids[0].1));
    assert(leaf_items_pref(kids, 1) =~= items);
    assert(trim_nul_start(seq![97u8]) == seq![97u8]);
    assert(trim_nul_end(seq![97u8]) == seq![97u8]);
    assert(rows_of(items) =~= seq![(seq![97u8], 5u32, 9u32)]);
}

// ---- read_chrom_tree_block ----
// R11 (structural): reader type parameter -> VRead; `BytesMut::zeroed(n); f.read_exact(..)?` -> `f.read_cur(n)?`;
// `f.seek(SeekFrom::Start(x))?` -> `f.seek_start(x)?`; the three `for` loops get a named counter;
// GHOST-ONLY ADDITION: an extra last parameter `Ghost(t): Ghost<CTree>` (the tree the bytes at the reader
// position encode) and, at the recursive call, the argument `Ghost(kid_tree(t, k__ - 1))`.  Erased at run time.
fn read_chrom_tree_block(f: &mut VRead,
    endianness: Endianness,
    chroms: &mut Vec<ChromInfo>,
    key_size: u32,
    Ghost(t): Ghost<CTree>,
) -> (r: Result<(), ChromTreeBlockReadError>)
    requires
        
        tree_at(old(f).content(), is_big(endianness), key_size as int, old(f).pos(), t),
    ensures
        
        final(f).content() == old(f).content(),
        
        final(f).failed() ==> old(f).failed() || r is Err,
        
        final(chroms)@.len() >= old(chroms)@.len() && final(chroms)@.subrange(0, old(chroms)@.len() as int) == old(chroms)@,
        
        r is Ok ==> infos(final(chroms)@) == infos(old(chroms)@) + rows_of(leaf_items(t)),
        
        r is Err ==> final(f).failed() || !utf8_all(leaf_items(t)),
    decreases
        
        t,
{
    let ghost c0 = f.content();
    let ghost p0 = f.pos();
    let ghost big = is_big(endianness);
    let ghost ks = key_size as int;
    let ghost pre = chroms@;
    proof { lemma_tree_at_unfold(c0, big, ks, p0, t); }

    let mut header_data = f.read_cur(4)?;

    let isleaf = header_data.get_u8();
    let _reserved = header_data.get_u8();
    let count = match endianness {
        Endianness::Big => header_data.get_u16(),
        Endianness::Little => header_data.get_u16_le(),
    };


    let ghost n = node_count(t);
    proof {
        
        assert(isleaf == c0[p0] && count as int == d16(big, c0, p0 + 2));
        lemma_stride(n, ks);
        assert((ks + 8) * n <= 0x1_0000_0007 * 0xFFFF) by (nonlinear_arith) requires 0 <= ks <= 0xFFFF_FFFF, 0 <= n <= 0xFFFF;
    }
    if isleaf == 1 {
        let mut bytes = f.read_cur((key_size as usize + 8) * (count as usize))?;

        let ghost blk = c0.subrange(p0 + 4, p0 + 4 + stride(n, ks));
        proof {
            
            assert(t is Leaf);
            
            assert(bytes.rem() == blk);
        }
        let ghost items = t->Leaf_0;

        for k__ in 0..count 
            invariant
                
                c0 == old(f).content(), p0 == old(f).pos(), big == is_big(endianness), ks == key_size as int, pre == old(chroms)@,
                n == node_count(t), tree_at(c0, big, ks, p0, t), 0 <= ks <= 0xFFFF_FFFF, 0 <= n <= 0xFFFF,
                f.content() == c0, f.failed() ==> old(f).failed(),
                0 <= p0, p0 + 4 + stride(n, ks) <= c0.len(), blk == c0.subrange(p0 + 4, p0 + 4 + stride(n, ks)), 0 <= stride(n, ks),
                t is Leaf, items == t->Leaf_0,
                
                blk.len() == stride(n, ks), count == n, 0 <= stride(k__ as int, ks) <= stride(n, ks),
                bytes.rem() == blk.subrange(stride(k__ as int, ks), blk.len() as int),
                
                chroms@.len() == pre.len() + k__, chroms@.subrange(0, pre.len() as int) == pre,
                infos(chroms@) == infos(pre) + rows_of(items.subrange(0, k__ as int)),
{

            proof {
                lemma_stride(k__ as int, ks);
                lemma_stride_mono(k__ as int + 1, n, ks);
                lemma_leaf_item(c0, big, ks, p0, items, k__ as int);
                assert(bytes.rem().subrange(0, ks) =~= c0.subrange(p0 + 4 + stride(k__ as int, ks), p0 + 4 + stride(k__ as int, ks) + ks));
            }
            let ghost chroms_before = chroms@;
            let key_string = match str_from_utf8(&bytes.as_ref()[0..(key_size as usize)]) {
                Ok(s) => s.trim_matches(char_from_u8(0)).to_owned(),
                Err(_) => {
                    return Err(ChromTreeBlockReadError::InvalidFile(
                        err_text("Invalid file format: Invalid utf-8 string."),
                    ))
                }
            };
            bytes.advance(key_size as usize);

            let (chrom_id, chrom_size) = match endianness {
                Endianness::Big => (bytes.get_u32(), bytes.get_u32()),
                Endianness::Little => (bytes.get_u32_le(), bytes.get_u32_le()),
            };

            proof {
                
                assert(key_string@ == trim_nul(items[k__ as int].0));
                
                assert(bytes.rem() =~= blk.subrange(stride(k__ as int + 1, ks), blk.len() as int));
            }
            chroms.push(ChromInfo {
                name: key_string,
                id: chrom_id,
                length: chrom_size,
            });
        
            proof {
                let it = items[k__ as int];
                assert(items.subrange(0, k__ as int + 1) =~= items.subrange(0, k__ as int).push(it));
                assert(rows_of(items.subrange(0, k__ as int).push(it)) =~= rows_of(items.subrange(0, k__ as int)).push(row_of(it)));
                
                assert(chroms@.last().id == it.1 && chroms@.last().length == it.2);
                
                assert(chroms@ == chroms_before.push(chroms@.last()) && ci_view(chroms@.last()) == row_of(it));
                assert(infos(chroms@) =~= infos(chroms_before).push(row_of(it)));
                assert(infos(chroms@) =~= infos(pre) + rows_of(items.subrange(0, k__ as int + 1)));
                assert(chroms@.subrange(0, pre.len() as int) =~= pre);
            }
}

        proof {
            assert(items.subrange(0, n) =~= items);
        }
    } else {
        // First, go through and get child blocks
        let mut children: Vec<u64> = vec![];
        

        let mut bytes = f.read_cur((key_size as usize + 8) * (count as usize))?;

        let ghost blk = c0.subrange(p0 + 4, p0 + 4 + stride(n, ks));
        proof {
            
            assert(t is Node);
            
            assert(bytes.rem() == blk);
        }
        let ghost kids = t->Node_0;

        for k__ in 0..count 
            invariant
                
                c0 == old(f).content(), p0 == old(f).pos(), big == is_big(endianness), ks == key_size as int, pre == old(chroms)@,
                n == node_count(t), tree_at(c0, big, ks, p0, t), 0 <= ks <= 0xFFFF_FFFF, 0 <= n <= 0xFFFF,
                f.content() == c0, f.failed() ==> old(f).failed(),
                0 <= p0, p0 + 4 + stride(n, ks) <= c0.len(), blk == c0.subrange(p0 + 4, p0 + 4 + stride(n, ks)), 0 <= stride(n, ks),
                t is Node, kids == t->Node_0, chroms@ == pre,
                
                blk.len() == stride(n, ks), count == n, 0 <= stride(k__ as int, ks) <= stride(n, ks),
                bytes.rem() == blk.subrange(stride(k__ as int, ks), blk.len() as int),
                
                children@.len() == k__, forall|j: int| 0 <= j < k__ ==> children@[j] == (#[trigger] kids[j]).0,
{

            proof {
                lemma_stride(k__ as int, ks);
                lemma_stride_mono(k__ as int + 1, n, ks);
                lemma_kid_ptr(c0, big, ks, p0, kids, k__ as int);
            }
            // We don't need this, but have to read it
            bytes.advance(key_size as usize);

            // TODO: could add specific find here by comparing key string
            let child_offset = match endianness {
                Endianness::Big => bytes.get_u64(),
                Endianness::Little => bytes.get_u64_le(),
            };

            proof {
                
                assert(child_offset == kids[k__ as int].0);
                
                assert(bytes.rem() =~= blk.subrange(stride(k__ as int + 1, ks), blk.len() as int));
            }
            children.push(child_offset);
        }
        // Then go through each child block
        let mut k__: usize = 0; while k__ < children.len() 
            invariant
                
                c0 == old(f).content(), p0 == old(f).pos(), big == is_big(endianness), ks == key_size as int, pre == old(chroms)@,
                n == node_count(t), tree_at(c0, big, ks, p0, t), 0 <= ks <= 0xFFFF_FFFF, 0 <= n <= 0xFFFF,
                f.content() == c0, f.failed() ==> old(f).failed(),
                t is Node, kids == t->Node_0,
                
                k__ <= children@.len(), children@.len() == n, forall|j: int| 0 <= j < n ==> children@[j] == (#[trigger] kids[j]).0,
                
                f.content() == c0, f.failed() ==> old(f).failed(),
                
                chroms@.len() >= pre.len(), chroms@.subrange(0, pre.len() as int) == pre,
                infos(chroms@) == infos(pre) + rows_of(leaf_items_pref(kids, k__ as int)),
            decreases
                
                children@.len() - k__,
{ let child = children[k__]; k__ = k__ + 1;

            let ghost chroms_before = chroms@;
            proof {
                lemma_kid(c0, big, ks, p0, t, k__ as int - 1);
                lemma_utf8_kid(kids, n, k__ as int - 1);
            }
            f.seek_start(child)?;
            read_chrom_tree_block(f, endianness, chroms, key_size, Ghost(kid_tree(t, k__ - 1)))?;
        
            proof {
                let a = leaf_items_pref(kids, k__ as int - 1);
                let b = leaf_items(kids[k__ as int - 1].1);
                assert(rows_of(a + b) =~= rows_of(a) + rows_of(b));
                assert(infos(pre) + rows_of(a) + rows_of(b) =~= infos(pre) + (rows_of(a) + rows_of(b)));
                assert(chroms@.subrange(0, pre.len() as int) =~= chroms@.subrange(0, chroms_before.len() as int).subrange(0, pre.len() as int));
            }
}
    }
    Ok(())
}

// ---- read_info, TAIL ----
// `//@presub` CUTS THE HEAD (the mirror image of unit info's cut): the text from `let mut file = file.raw_reader();`
// through `let zoom_headers = read_zoom_headers(file, &header)?;` (64-byte header, magic/byte-order detection,
// field decoding, BBIHeader construction, zoom directory: all verified in unit info) is replaced by
// `let endianness = header.endianness;` and its results become PARAMETERS: `filetype`, `header`, `zoom_headers`
// (unit info proves `header.endianness == endianness`).  KEPT verbatim: everything from the comment line
// `// TODO: could instead store this ...` / `file.seek(SeekFrom::Start(header.chromosome_tree_offset))?;` to the final
// `Ok(info)`.  GHOST-ONLY ADDITION: last parameter `Ghost(t): Ghost<CTree>`, passed on to read_chrom_tree_block.
pub fn read_info(file: &mut VRead, filetype: BBIFile, header: BBIHeader, zoom_headers: Vec<ZoomHeader>, Ghost(t): Ghost<CTree>) -> (r: Result<BBIFileInfo, BBIFileReadInfoError>)
    requires
        
        tree_hdr_ok(old(file).content(), is_big(header.endianness), header.chromosome_tree_offset as int)
            ==> d32(is_big(header.endianness), old(file).content(), header.chromosome_tree_offset + 12) == 8,
        
        tree_hdr_ok(old(file).content(), is_big(header.endianness), header.chromosome_tree_offset as int)
            ==> tree_at(old(file).content(), is_big(header.endianness),
                    d32(is_big(header.endianness), old(file).content(), header.chromosome_tree_offset + 8),
                    header.chromosome_tree_offset + 32, t),
    ensures
        
        final(file).content() == old(file).content(),
        
        final(file).failed() ==> old(file).failed() || r is Err,
        
        r is Ok ==> tree_hdr_ok(old(file).content(), is_big(header.endianness), header.chromosome_tree_offset as int),
        
        !final(file).failed() && !tree_hdr_ok(old(file).content(), is_big(header.endianness), header.chromosome_tree_offset as int)
            ==> (r matches Err(e) && e is InvalidChroms),
        
        r matches Err(e) ==> (!final(file).failed() ==> e is InvalidChroms),
        
        r matches Ok(info) ==> infos(info.chrom_info@) == rows_of(leaf_items(t)),
        
        r matches Ok(info) ==> info.filetype == filetype && info.header == header && info.zoom_headers == zoom_headers,
        
        r is Err ==> final(file).failed() || !utf8_all(leaf_items(t))
            || !tree_hdr_ok(old(file).content(), is_big(header.endianness), header.chromosome_tree_offset as int),
{
    let ghost c0 = file.content();
    let ghost cto = header.chromosome_tree_offset as int;
    let ghost big = is_big(header.endianness);

    let endianness = header.endianness;

    // TODO: could instead store this as an Option and only read when needed
    file.seek_start(header.chromosome_tree_offset)?;

    let mut header_data = file.read_cur(32)?;


    proof {
        
        assert(cto + 32 <= c0.len() && header_data.rem() == c0.subrange(cto, cto + 32));
    }
    let (key_size, val_size, item_count) = match endianness {
        Endianness::Big => {
            let magic = header_data.get_u32();
            if magic != CHROM_TREE_MAGIC {
                return Err(BBIFileReadInfoError::InvalidChroms);
            }

            let _block_size = header_data.get_u32();
            let key_size = header_data.get_u32();
            let val_size = header_data.get_u32();
            let item_count = header_data.get_u64();
            let _reserved = header_data.get_u64();

            (key_size, val_size, item_count)
        }
        Endianness::Little => {
            let magic = header_data.get_u32_le();
            if magic != CHROM_TREE_MAGIC {
                return Err(BBIFileReadInfoError::InvalidChroms);
            }

            let _block_size = header_data.get_u32_le();
            let key_size = header_data.get_u32_le();
            let val_size = header_data.get_u32_le();
            let item_count = header_data.get_u64_le();
            let _reserved = header_data.get_u64_le();

            (key_size, val_size, item_count)
        }
    };

    proof {
        
        assert(tree_hdr_ok(c0, big, cto));
        
        assert(key_size == d32(big, c0, cto + 8) && val_size == d32(big, c0, cto + 12) && item_count == d64(big, c0, cto + 16));
    }
    assert(val_size == 8u32); 

    assert((val_size) == (8u32));

    let mut chrom_info = Vec::with_capacity(item_count as usize);
    map_err_to(read_chrom_tree_block(file, endianness, &mut chrom_info, key_size, Ghost(t)), BBIFileReadInfoError::InvalidChroms)?;


    proof {
        assert(infos(Seq::<ChromInfo>::empty()) =~= Seq::<Row>::empty());
        assert(Seq::<Row>::empty() + rows_of(leaf_items(t)) =~= rows_of(leaf_items(t)));
    }
    let info = BBIFileInfo {
        filetype,
        header,
        zoom_headers,
        chrom_info,
    };

    Ok(info)
}

} // verus!
fn main() {}

