//@unit zoom_enc
//@serves C07 C08 C09
//@backend verus
// bbiwrite::encode_zoom_section: a batch of zoom records -> one on-disk zoom block.
// C07/C08/C09: block bytes == published zoom-record layout (32 bytes per record), block span
// covers every record in it, one chromosome, advertised uncompressed size == real size.
// Round 6 (this unit has no NOTES.md): the template does not depend on the `(out_bytes, size)` tuple any more -- the
// type shim `(bytes, 0)` -> `(bytes.bytes, 0)` is min=0 with a twin for a bare `} else { bytes }`, the proof splice
// anchors on `let .. = if compress {`, the libdeflater cluster accepts `truncate(actual_sz)` for `resize(actual_sz, 0)`.
// The "tidied" `let uncompressed_buf_size = bytes.len(); let out_bytes = if compress {..} else { bytes };` is judged:
// VIOLATION advertised_uncompressed_size (0 iff not compressed); it used to end as "anchor lost".
// Mutation sweep follow-up: `Vec::with_capacity(EXPR)` accepts any arithmetic over literals and `items_in_section.len()`
// (`+`/`*` only: pure hint, dropped, stays OK; with `-`: `assert((EXPR over int) >= 0)` is added, the code's own overflow/
// capacity panic; `/`, calls, other names: not guessed, exit 2); `(bytes, N)` keeps its literal: `(bytes, 1)` is VIOLATION
// advertised_uncompressed_size.
use vstd::prelude::*;
use vstd::std_specs::ops::*;
use vstd::std_specs::convert::FromSpec;
verus! {
//@include ../_shared/floats.rs
//@include ../_shared/bytes.rs

//@extract struct bigtools/src/bbi.rs Summary
//@rule R8
//@end
//@extract struct bigtools/src/bbi.rs ZoomRecord
//@rule R8
//@end
//@extract struct bigtools/src/bbi/bbiwrite.rs SectionData
//@rule R8
//@end

// f64 -> f32 narrowing: uninterpreted (rounding not judged)
pub uninterp spec fn f32_of_f64(x: f64) -> f32;
#[verifier::external_body]
pub fn f64_to_f32(x: f64) -> (r: f32) ensures r == f32_of_f64(x) { x as f32 }

// libdeflater (C library): assumed contract = zlib inverse.  Replaces the 7-line
// Compressor::new / zlib_compress_bound / zlib_compress / resize cluster (R11).
pub uninterp spec fn inflate(z: Seq<u8>) -> Seq<u8>;
#[verifier::external_body]
pub fn deflate_vec(b: &Sink) -> (r: Vec<u8>) ensures inflate(r@) == b@ { unimplemented!() }

// ---- format spec (from the published layout; shares no code with the reader) ----
/// one 32-byte zoom record appended to `b` (left-associated, the order a sequential writer produces)
pub open spec fn put_zoom_rec(b: Seq<u8>, r: ZoomRecord) -> Seq<u8> {
    b + le32(r.chrom) + le32(r.start) + le32(r.end) + le32(r.summary.bases_covered as u32)
    + le32(f32_bits(f32_of_f64(r.summary.min_val))) + le32(f32_bits(f32_of_f64(r.summary.max_val)))
    + le32(f32_bits(f32_of_f64(r.summary.sum))) + le32(f32_bits(f32_of_f64(r.summary.sum_squares)))
}
pub open spec fn fmt_zoom_section(items: Seq<ZoomRecord>) -> Seq<u8>
    decreases items.len()
{
    if items.len() == 0 { Seq::empty() } else { put_zoom_rec(fmt_zoom_section(items.drop_last()), items.last()) }
}
pub proof fn lemma_fmt_len(items: Seq<ZoomRecord>)
    ensures fmt_zoom_section(items).len() == 32 * items.len()
    decreases items.len()
{
    if items.len() > 0 { lemma_fmt_len(items.drop_last()); }
}
/// what the tiling units (bw_zoom / bb_zoom) guarantee about an emitted batch
pub open spec fn batch_ok(items: Seq<ZoomRecord>) -> bool {
    &&& items.len() >= 1
    &&& forall|i: int| 0 <= i < items.len() ==> (#[trigger] items[i]).start < items[i].end && items[i].chrom == items[0].chrom && items[i].summary.bases_covered <= u32::MAX
    &&& forall|i: int, j: int| 0 <= i < j < items.len() ==> (#[trigger] items[i]).end <= (#[trigger] items[j]).start
}

// `.iter().map(|i| i.start|end).fold(init, u32::max)` and `.max()/.min().unwrap()` (not used by the code today; present so
// that an edit computing the section bounds this way is judged).  ASSUMED std contracts: the fold is the maximum of the
// initial value and every mapped element.
pub open spec fn max_start_upto(s: Seq<ZoomRecord>, n: int, init: u32) -> u32 decreases n {
    if n <= 0 || n > s.len() { init } else { let m = max_start_upto(s, n - 1, init); if s[n - 1].start > m { s[n - 1].start } else { m } }
}
pub open spec fn max_end_upto(s: Seq<ZoomRecord>, n: int, init: u32) -> u32 decreases n {
    if n <= 0 || n > s.len() { init } else { let m = max_end_upto(s, n - 1, init); if s[n - 1].end > m { s[n - 1].end } else { m } }
}
fn fold_max_start(v: &Vec<ZoomRecord>, init: u32) -> (r: u32) ensures r == max_start_upto(v@, v@.len() as int, init) {
    let mut m = init; let mut i: usize = 0;
    while i < v.len() invariant i <= v.len(), m == max_start_upto(v@, i as int, init) decreases v.len() - i { if v[i].start > m { m = v[i].start; } i = i + 1; }
    m
}
fn fold_max_end(v: &Vec<ZoomRecord>, init: u32) -> (r: u32) ensures r == max_end_upto(v@, v@.len() as int, init) {
    let mut m = init; let mut i: usize = 0;
    while i < v.len() invariant i <= v.len(), m == max_end_upto(v@, i as int, init) decreases v.len() - i { if v[i].end > m { m = v[i].end; } i = i + 1; }
    m
}
fn max_of_end(v: &Vec<ZoomRecord>) -> (r: u32) requires v@.len() > 0 ensures r == max_end_upto(v@, v@.len() as int, 0) { fold_max_end(v, 0) }
fn max_of_start(v: &Vec<ZoomRecord>) -> (r: u32) requires v@.len() > 0 ensures r == max_start_upto(v@, v@.len() as int, 0) { fold_max_start(v, 0) }
#[verifier::external_body] fn min_of_end(v: &Vec<ZoomRecord>) -> (r: u32) { unimplemented!() }
#[verifier::external_body] fn min_of_start(v: &Vec<ZoomRecord>) -> (r: u32) { unimplemented!() }
/// the maximum end of sorted disjoint records is the last record's end
proof fn lemma_max_end_sorted(s: Seq<ZoomRecord>, n: int)
    requires 0 < n <= s.len(), forall|i: int, j: int| 0 <= i < j < s.len() ==> (#[trigger] s[i]).end <= (#[trigger] s[j]).start, forall|i: int| 0 <= i < s.len() ==> (#[trigger] s[i]).start < s[i].end,
    ensures max_end_upto(s, n, 0) == s[n - 1].end, max_end_upto(s, n, s[0].end) == s[n - 1].end,
    decreases n
{
    if n > 1 {
        lemma_max_end_sorted(s, n - 1);
        assert(s[n - 2].end <= s[n - 1].start);
        assert(max_end_upto(s, n, 0) == (if s[n - 1].end > max_end_upto(s, n - 1, 0) { s[n - 1].end } else { max_end_upto(s, n - 1, 0) }));
        assert(max_end_upto(s, n, s[0].end) == (if s[n - 1].end > max_end_upto(s, n - 1, s[0].end) { s[n - 1].end } else { max_end_upto(s, n - 1, s[0].end) }));
    } else {
        assert(max_end_upto(s, 0, 0) == 0 && max_end_upto(s, 0, s[0].end) == s[0].end);
        assert(max_end_upto(s, 1, 0) == (if s[0].end > max_end_upto(s, 0, 0) { s[0].end } else { max_end_upto(s, 0, 0) }));
        assert(max_end_upto(s, 1, s[0].end) == (if s[0].end > max_end_upto(s, 0, s[0].end) { s[0].end } else { max_end_upto(s, 0, s[0].end) }));
    }
}

//@extract fn bigtools/src/bbi/bbiwrite.rs encode_zoom_section
//@rule R16
//@rule R1
//@rule R3 min=8
//@rule R7 min=1
//@rule R8
//@presub /use libdeflater::\{CompressionLvl, Compressor\};\n/ => ""
//@presub /let mut compressor = Compressor::new\(CompressionLvl::default\(\)\);\s*let max_sz = compressor\.zlib_compress_bound\(bytes\.len\(\)\);\s*let mut compressed_data = vec!\[0; max_sz\];\s*let actual_sz = compressor\s*\.zlib_compress\(&bytes, &mut compressed_data\)\s*\.unwrap\(\);\s*compressed_data\.(?:resize\(actual_sz, 0\)|truncate\(actual_sz\));/ => let compressed_data = deflate_vec(&bytes); let actual_sz = compressed_data.len(); let max_sz = actual_sz;
//@sub /(\w+)\s*\.iter\(\)\s*\.map\(\|(\w+)\| \2\.(start|end)\)\s*\.fold\(([^;]*?), u32::max\)/ => fold_max_\3(&\1, \4) min=0
//@sub /(\w+)\s*\.iter\(\)\s*\.map\(\|(\w+)\| \2\.(start|end)\)\s*\.(max|min)\(\)\s*\.unwrap\(\)/ => \4_of_\3(&\1) min=0
//@sub /let mut bytes = Vec::with_capacity\(((?:\d+|items_in_section\.len\(\)|[-+*\/()]|\s)*)\);/ => let mut bytes = Sink::with_capacity(0); CAP{\1}CAP
//@sub / CAP\{[^-\/{}]*\}CAP/ => "" min=0
//@sub /items_in_section\.len\(\)(?=[-+*()\d\s]*(?:items_in_section\.len\(\)[-+*()\d\s]*)*\}CAP)/ => items_in_section@.len() min=0
//@sub /CAP\{([^\/{}]*)\}CAP/ => assert((\1) >= 0); min=0
//@sub /\(bytes, (\d+)\)/ => (bytes.bytes, \1) min=0
//@sub /\}\s*else\s*\{\s*bytes\s*\}/ => } else { bytes.bytes } min=0
//@sub /io::Result</ => Result<
//@sub /usize\)> \{/ => usize), IoError> {
//@sub /\((item\.summary\.\w+) as f32\)/ => (f64_to_f32(\1)) min=0
//@ret r
//@sig
    requires
        [[L: pre_batch]]
        batch_ok(items_in_section@),
    ensures
        [[L: never_fails_on_memory_sink]]
        r.is_ok(),
        [[L: bytes_are_published_layout]]
        !compress ==> r.unwrap().0.data@ == fmt_zoom_section(items_in_section@),
        [[L: compressed_inflates_to_layout]]
        compress ==> inflate(r.unwrap().0.data@) == fmt_zoom_section(items_in_section@),
        [[L: advertised_uncompressed_size]]
        r.unwrap().1 == (if compress { 32 * items_in_section@.len() } else { 0 }),
        [[L: span_covers_every_record]]
        forall|i: int| 0 <= i < items_in_section@.len() ==> r.unwrap().0.start <= (#[trigger] items_in_section@[i]).start && items_in_section@[i].end <= r.unwrap().0.end,
        [[L: span_is_tight]]
        r.unwrap().0.start == items_in_section@[0].start && r.unwrap().0.end == items_in_section@.last().end,
        [[L: one_chromosome]]
        forall|i: int| 0 <= i < items_in_section@.len() ==> (#[trigger] items_in_section@[i]).chrom == r.unwrap().0.chrom,
//@loop 1
        invariant
            [[L: loop/prefix_encoded]]
            bytes@ == fmt_zoom_section(items_in_section@.subrange(0, i__1 as int)),
            batch_ok(items_in_section@),
//@at /let item = &items_in_section\[i__1\];/ after
        proof {
            assert(items_in_section@.subrange(0, i__1 + 1).drop_last() =~= items_in_section@.subrange(0, i__1 as int));
        }
        let ghost b0 = bytes@;
//@at /bytes\.put_f32\(f64_to_f32\(item\.summary\.sum_squares\)\)\?;/ after
        proof {
            assert(bytes@ == put_zoom_rec(b0, *item)); [[L: loop/record_layout]]
        }
//@at /let [^=;]*= if compress \{/ before
    proof {
        assert(items_in_section@.subrange(0, items_in_section@.len() as int) =~= items_in_section@);
        lemma_fmt_len(items_in_section@);
    }
//@end

} // verus!
fn main() {}
