#!/usr/bin/env python3
"""Supporting evidence for the TOKEN MODEL (assumption A1') and the generator's token shape (`gen_stream`) of unit
asql_parse.  Not part of ./check.

Copies bigtools/src/bed/autosql.rs (VERIF_REPO selects the tree, default /repo), opens `mod parser` and its `pub(super)`
items to the driver, and runs two checks on the REAL code:

 1. A1': for every string of up to N symbols (default 5) over
        {' ', ';', '(', ')', '[', ']', ',', '"', 'a', 'b', '\\n', U+00E9 (2-byte letter), U+3000 (3-byte white space)}
    and every parser state (start_cursor, end_cursor) reachable from Parser::of(s) through the public methods, each of
    take/peek_word/eat_word/peek_one/eat_one/peek_quoted_string/eat_quoted_string is called once; the ghost state
    (toks = lex(data), at, aligned, peeked) is computed from the cursors by the definitions written in unit.rs.tpl
    (a reference lexer, written independently of the tokenizer) and EVERY token clause assumed on VParser is checked.
 2. gen_stream: for n = 0..=60 extra columns, `bed_autosql(rest)` (rest = n tab-separated columns; "" for n = 0) is
    lexed by the reference lexer and the predicate gen_stream(T, n) of unit.rs.tpl is evaluated (positions gen_start(j),
    types gen_type(j), sized groups, generator-style names, `;`, quoted comments, closing `)`); the same
    for BED3 with n = 0; then the real parse_autosql is run on the text and compared with the theorem (one declaration,
    3 + n fields, field j = the type keyword, size, name and comment at gen_start(j)).

usage: tokmodel_check.py [N] [workdir]
"""
import os, subprocess, sys
repo = os.environ.get('VERIF_REPO', '/repo')
n = sys.argv[1] if len(sys.argv) > 1 else '5'
wd = sys.argv[2] if len(sys.argv) > 2 else '/var/tmp/asqlp-tokmodel'
os.makedirs(wd, exist_ok=True)
src = open(os.path.join(repo, 'bigtools/src/bed/autosql.rs')).read()
assert src.count('    mod parser {') == 1
src = src.replace('    mod parser {', '    pub mod parser {', 1).replace('pub(super)', 'pub')
open(os.path.join(wd, 'autosql.rs'), 'w').write(src)
DRIVER = r'''#![allow(dead_code, unused_imports, unused_variables)]
mod autosql;
use autosql::parse::parser::Parser;
use autosql::parse::{parse_autosql, FieldType};
use std::collections::HashSet;

// ---------- reference lexer: the definition of lex() in unit.rs.tpl ----------
fn is_delim(c: char) -> bool { c == ';' || c == '(' || c == ')' || c == '[' || c == ']' || c == ',' }
#[derive(Clone, Copy, Debug, PartialEq)]
struct Lx { s: usize, e: usize }
fn lex(data: &str) -> Vec<Lx> {
    let cs: Vec<(usize, char)> = data.char_indices().collect();
    let end_of = |k: usize| if k + 1 < cs.len() { cs[k + 1].0 } else { data.len() };
    let mut out = vec![];
    let mut k = 0;
    while k < cs.len() {
        let (i, c) = cs[k];
        if c.is_whitespace() { k += 1; continue; }
        if c == '"' {
            let mut j = k + 1;
            while j < cs.len() && cs[j].1 != '"' { j += 1; }
            let e = if j < cs.len() { end_of(j) } else { data.len() };
            out.push(Lx { s: i, e });
            k = if j < cs.len() { j + 1 } else { cs.len() };
        } else if is_delim(c) {
            out.push(Lx { s: i, e: end_of(k) });
            k += 1;
        } else {
            let mut j = k;
            while j + 1 < cs.len() && !cs[j + 1].1.is_whitespace() && !is_delim(cs[j + 1].1) { j += 1; }
            out.push(Lx { s: i, e: end_of(j) });
            k = j + 1;
        }
    }
    out
}
const LITS: [&str; 28] = ["", "(", ")", "[", "]", ";", ",", "primary", "index", "unique", "auto", "int", "uint", "short", "ushort",
    "byte", "ubyte", "float", "double", "char", "string", "lstring", "bigint", "enum", "set", "simple", "object", "table"];
fn lit_other(t: &str) -> bool { !LITS.contains(&t) }
fn punct(t: &str) -> bool { t.chars().count() == 1 && is_delim(t.chars().next().unwrap()) }
fn quoted(t: &str) -> bool { t.starts_with('"') }
fn word(t: &str) -> bool { !t.is_empty() && !quoted(t) && !punct(t) }

struct G { at: usize, aligned: bool, peeked: bool }
fn ghost(t: &[Lx], s: usize, e: usize) -> G {
    let at = t.iter().filter(|l| l.e <= s).count();
    let aligned = !t.iter().any(|l| l.s < s && s < l.e);
    let peeked = at < t.len() && t[at].s == s && t[at].e == e;
    G { at, aligned, peeked }
}
fn off(data: &str, t: &str) -> Option<usize> {
    let (d, p) = (data.as_ptr() as usize, t.as_ptr() as usize);
    if p >= d && p + t.len() <= d + data.len() { Some(p - d) } else { None }
}

#[derive(Clone, Copy, Debug)]
enum M { Take, PeekWord, EatWord, PeekOne, EatOne, PeekQ, EatQ }
const MS: [M; 7] = [M::Take, M::PeekWord, M::EatWord, M::PeekOne, M::EatOne, M::PeekQ, M::EatQ];

fn check(data: &str, toks: &[Lx], s0: usize, e0: usize, m: M, viol: &mut u64, nchecks: &mut u64, nspec: &mut u64) -> (usize, usize) {
    let mut p = Parser { data, start_cursor: s0, end_cursor: e0 };
    let t: &str = match m {
        M::Take => p.take(), M::PeekWord => p.peek_word(), M::EatWord => p.eat_word(),
        M::PeekOne => p.peek_one(), M::EatOne => p.eat_one(), M::PeekQ => p.peek_quoted_string(), M::EatQ => p.eat_quoted_string(),
    };
    let (s1, e1) = (p.start_cursor, p.end_cursor);
    let g0 = ghost(toks, s0, e0);
    let g1 = ghost(toks, s1, e1);
    let n = toks.len();
    let ready = g0.aligned;                       // 0 <= at <= n holds by construction
    let more = ready && g0.at < n;
    let done = ready && g0.at == n;
    let h = if g0.at < n { Some(toks[g0.at]) } else { None };
    let htxt = h.map(|l| &data[l.s..l.e]).unwrap_or("");
    let is_head = |t: &str| -> bool { match (h, off(data, t)) { (Some(l), Some(o)) => !t.is_empty() && o == l.s && t.len() == l.e - l.s, _ => false } };
    let stays = g1.at == g0.at && g1.aligned == g0.aligned;
    let stepped = g1.at == g0.at + 1 && g1.aligned;
    let mut ok = true;
    let mut spec = false;
    match m {
        M::Take => {
            ok &= !g1.peeked;
            if more && g0.peeked { spec = true; ok &= is_head(t) && stepped; }
            if s0 == e0 { ok &= stays; }
        }
        M::PeekWord => {
            if ready { ok &= stays; }
            if more && word(htxt) { spec = true; ok &= is_head(t) && g1.peeked; }
            if more && punct(htxt) { spec = true; ok &= !t.is_empty() && (is_head(t) || lit_other(t)); }
            if more && quoted(htxt) { spec = true; ok &= lit_other(t) && !t.is_empty(); }
            if done { spec = true; ok &= t.is_empty(); }
        }
        M::EatWord => {
            ok &= !g1.peeked;
            if more && word(htxt) { spec = true; ok &= is_head(t) && stepped; }
            if done { spec = true; ok &= t.is_empty() && stays; }
        }
        M::PeekOne => {
            if ready { ok &= stays; }
            if more && punct(htxt) { spec = true; ok &= is_head(t) && g1.peeked; }
            if more && !punct(htxt) { spec = true; ok &= lit_other(t) && !t.is_empty(); }
            if done { spec = true; ok &= t.is_empty(); }
        }
        M::EatOne => {
            ok &= !g1.peeked;
            if more && punct(htxt) { spec = true; ok &= is_head(t) && stepped; }
            if more && !punct(htxt) { spec = true; ok &= lit_other(t) && !t.is_empty(); }
            if done { spec = true; ok &= t.is_empty() && stays; }
        }
        M::PeekQ => {
            if ready { ok &= stays; }
            if more && quoted(htxt) { spec = true; ok &= is_head(t) && g1.peeked; }
            if ready && !(more && quoted(htxt)) { spec = true; ok &= t.is_empty(); }
        }
        M::EatQ => {
            ok &= !g1.peeked;
            if more && quoted(htxt) { spec = true; ok &= is_head(t) && stepped; }
            if ready && !(more && quoted(htxt)) { spec = true; ok &= t.is_empty() && stays; }
        }
    }
    *nchecks += 1;
    if spec { *nspec += 1; }
    if !ok { *viol += 1; if *viol < 20 { println!("TOKEN-MODEL VIOLATION data={:?} lex={:?} state=({},{}) {:?} -> tok={:?} state=({},{})", data, toks, s0, e0, m, t, s1, e1); } }
    (s1, e1)
}

// ---------- the generator's language: gen_stream(T, n) of unit.rs.tpl ----------
fn b2i(b: bool) -> usize { if b { 1 } else { 0 } }
fn gen_sized(j: usize) -> bool { j == 5 || j == 10 || j == 11 || j == 13 || j == 14 }
fn gen_start(j: usize) -> usize { 4 + 4 * j + 3 * (b2i(j > 5) + b2i(j > 10) + b2i(j > 11) + b2i(j > 13) + b2i(j > 14)) }
fn gen_type(j: usize) -> &'static str {
    if j == 0 || j == 3 { "string" } else if j == 5 { "char" } else if j == 14 { "float" } else if 9 <= j && j <= 13 { "int" } else if j >= 15 { "lstring" } else { "uint" }
}
fn gen_style(t: &str) -> bool {
    let mut cs = t.chars();
    match cs.next() { Some(c) if c.is_ascii_alphabetic() => {} _ => return false }
    t.chars().all(|c| c.is_ascii_alphanumeric())
}
fn gen_stream(data: &str, n: usize) -> Result<(), String> {
    let t = lex(data);
    let tx = |i: usize| -> &str { &data[t[i].s..t[i].e] };
    let semi = |i: usize| -> bool { tx(i) == ";" };
    if t.len() != gen_start(3 + n) + 1 { return Err(format!("length {} != {}", t.len(), gen_start(3 + n) + 1)); }
    if !(word(tx(0)) && tx(0) == "table") { return Err("T[0]".into()); }
    if !(word(tx(1)) && gen_style(tx(1))) { return Err("T[1]".into()); }
    if !quoted(tx(2)) { return Err("T[2]".into()); }
    if tx(3) != "(" { return Err("T[3]".into()); }
    for j in 0..3 + n {
        let p = gen_start(j);
        if !(word(tx(p)) && tx(p) == gen_type(j)) { return Err(format!("type of field {}: {:?}", j, tx(p))); }
        let ok = if gen_sized(j) {
            tx(p + 1) == "[" && word(tx(p + 2)) && tx(p + 3) == "]" && word(tx(p + 4)) && gen_style(tx(p + 4)) && semi(p + 5) && quoted(tx(p + 6))
        } else {
            word(tx(p + 1)) && gen_style(tx(p + 1)) && semi(p + 2) && quoted(tx(p + 3))
        };
        if !ok { return Err(format!("group {}", j)); }
    }
    if tx(gen_start(3 + n)) != ")" { return Err("closing paren".into()); }
    Ok(())
}
fn theorem_on_real_parser(data: &str, n: usize) -> Result<(), String> {
    let t = lex(data);
    let tx = |i: usize| -> &str { &data[t[i].s..t[i].e] };
    let v = parse_autosql(data).map_err(|e| format!("parse error {:?}", e))?;
    if v.len() != 1 { return Err(format!("{} declarations", v.len())); }
    let d = &v[0];
    if d.fields.len() != 3 + n { return Err(format!("{} fields for n = {}", d.fields.len(), n)); }
    if d.name.name != tx(1) || d.comment != tx(2) || d.name.index_type.is_some() || d.name.auto { return Err("declaration head".into()); }
    for j in 0..3 + n {
        let p = gen_start(j);
        let f = &d.fields[j];
        let ok = f.field_type.to_string() == tx(p) && f.index_type.is_none() && !f.auto && if gen_sized(j) {
            f.field_size.as_deref() == Some(tx(p + 2)) && f.name == tx(p + 4) && f.comment == tx(p + 6)
        } else {
            f.field_size.is_none() && f.name == tx(p + 1) && f.comment == tx(p + 3)
        };
        if !ok { return Err(format!("field {}: {:?}", j, f)); }
    }
    Ok(())
}

fn main() {
    let alpha: Vec<&str> = vec![" ", ";", "(", ")", "[", "]", ",", "\"", "a", "b", "\n", "\u{e9}", "\u{3000}"];
    let maxlen: usize = std::env::args().nth(1).map(|s| s.parse().unwrap()).unwrap_or(5);
    let (mut viol, mut nchecks, mut nspec, mut nstr, mut nstates) = (0u64, 0u64, 0u64, 0u64, 0u64);
    let mut idx = vec![0usize; 0];
    loop {
        let data: String = idx.iter().map(|&i| alpha[i]).collect();
        let toks = lex(&data);
        nstr += 1;
        let mut seen: HashSet<(usize, usize)> = HashSet::new();
        let mut work = vec![(0usize, 0usize)];
        seen.insert((0, 0));
        // Parser::of: at == 0, aligned
        let g = ghost(&toks, 0, 0);
        if !(g.at == 0 && g.aligned) { viol += 1; println!("TOKEN-MODEL VIOLATION of() data={:?}", data); }
        while let Some((s0, e0)) = work.pop() {
            nstates += 1;
            for m in MS {
                let st = check(&data, &toks, s0, e0, m, &mut viol, &mut nchecks, &mut nspec);
                if seen.insert(st) { work.push(st); }
            }
        }
        let mut k = idx.len();
        loop {
            if k == 0 { idx = vec![0; idx.len() + 1]; break; }
            k -= 1;
            if idx[k] + 1 < alpha.len() { idx[k] += 1; break; } else { idx[k] = 0; }
        }
        if idx.len() > maxlen { break; }
    }
    println!("A1': strings={} reachable_states={} calls_checked={} calls_where_the_model_names_the_token={} violations={}", nstr, nstates, nchecks, nspec, viol);

    let mut gviol = 0u64;
    for n in 0..=60usize {
        let rest: String = (0..n).map(|i| format!("c{}", i)).collect::<Vec<_>>().join("\t");
        let text = autosql::bed_autosql(&rest);
        if let Err(e) = gen_stream(&text, n) { gviol += 1; println!("GEN-STREAM VIOLATION n={} : {}", n, e); }
        if let Err(e) = theorem_on_real_parser(&text, n) { gviol += 1; println!("THEOREM VIOLATION on the real parser n={} : {}", n, e); }
    }
    if let Err(e) = gen_stream(autosql::BED3, 0) { gviol += 1; println!("GEN-STREAM VIOLATION BED3 : {}", e); }
    if let Err(e) = theorem_on_real_parser(autosql::BED3, 0) { gviol += 1; println!("THEOREM VIOLATION on the real parser BED3 : {}", e); }
    println!("gen_stream: generated schemas n=0..=60 and BED3: violations={}", gviol);
    if viol + gviol > 0 { std::process::exit(1); }
}
'''
open(os.path.join(wd, 'main.rs'), 'w').write(DRIVER)
subprocess.check_call(['rustc', '--edition', '2021', '-O', '-A', 'warnings', '-o', 'tokmodel', 'main.rs'], cwd=wd)
sys.exit(subprocess.call([os.path.join(wd, 'tokmodel'), n]))
