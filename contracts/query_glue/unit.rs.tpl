//@unit query_glue
//@serves C03 C04 C07 C08 C10
//@backend verus
// The query entry points that wire a chromosome NAME to an id, a tree and an iterator:
//   bbiread.rs:    BBIFileInfo::chrom_id, search_cir_tree, ZoomIntervalIter::new
//   bigwigread.rs: BigWigRead::{get_interval, get_interval_move, get_zoom_interval, get_zoom_interval_move}
//   bigbedread.rs: BigBedRead::{get_interval, get_interval_move, get_zoom_interval, get_zoom_interval_move}
// C10 ("chromosome table .. interval queries .. zoom queries all match the encoded content", whoever wrote
// the file): the id a query runs under is the `id` FIELD of the chromosome-table entry whose name is the
// requested one — NOT the entry's position in the table (files written by other tools store ids that need not
// follow the table order).  C03/C04/C07/C08: the iterator handed back carries exactly that id, the requested
// start/end unchanged, the blocks the index search returned for (the full-data tree resp. the tree of the
// REQUESTED reduction level, that id, start, end, the file's byte order), starts at known_offset 0 with no
// decoded values; an unknown chromosome is an Err; an error of the tree lookup or of the search is an Err; and a
// query only fails for one of those reasons.
// Device: every file access the glue performs (tree lookup, index search) is a shim that appends an event with
// its arguments and its result to a ghost log carried by the reader handle `read`.
use vstd::prelude::*;
verus! {

//@extract struct bigtools/src/bbi/bbiread.rs Block
//@rule R8
//@end
//@extract struct bigtools/src/bbi.rs Summary
//@rule R8
//@end
//@extract struct bigtools/src/bbi.rs Value
//@rule R8
//@end
//@extract struct bigtools/src/bbi.rs ZoomRecord
//@rule R8
//@end
// R11: `rest: String` -> `rest: Vec<u8>` (never inspected here)
//@extract struct bigtools/src/bbi.rs BedEntry
//@rule R8
//@sub /#\[derive\(Clone\)\]\n/ => ""
//@sub /rest: String/ => rest: Vec<u8>
//@end
//@extract enum bigtools/src/bbi.rs BBIFile
//@rule R8
//@end
//@extract struct bigtools/src/bbi.rs ZoomHeader
//@rule R8
//@end
//@extract struct bigtools/src/bbi/bbiread.rs BBIHeader
//@rule R8
//@end
// R11: chromosome names are an opaque `Name` with real equality (String/&str byte reasoning is outside Verus)
//@extract struct bigtools/src/bbi/bbiread.rs ChromInfo
//@rule R8
//@sub /name: String/ => name: Name min=1
//@sub /#\[derive\(Clone\)\]\n/ => "" min=0
//@end
//@extract struct bigtools/src/bbi/bbiread.rs BBIFileInfo
//@rule R8
//@sub /#\[derive\(Clone\)\]\n/ => "" min=0
//@end
//@extract struct bigtools/src/bbi/bbiread.rs ChromIdNotFound
//@rule R8
//@sub /String/ => Name min=1
//@end
//@extract enum bigtools/src/bbi/bbiread.rs CirTreeIndexType
//@rule R8
//@end
//@extract struct bigtools/src/bbi/bbiread.rs CirTreeIndex
//@rule R8
//@end
// thiserror attributes dropped; io::Error -> opaque IoError; BedValueError -> opaque
//@extract enum bigtools/src/bbi/bbiread.rs CirTreeSearchError
//@rule R8
//@sub /[ \t]*#\[error\([^\n]*\)\]\n/ => "" min=2
//@sub /#\[from\] io::Error/ => IoError
//@sub /String/ => Name min=1
//@end
//@extract enum bigtools/src/bbi/bbiread.rs BBIReadError
//@rule R8
//@sub /[ \t]*#\[error\([^\n]*\)\]\n/ => "" min=5
//@sub /#\[from\] io::Error/ => IoError
//@sub /#\[from\] BedValueError/ => BedValueError
//@sub /String/ => Name min=2
//@end
//@extract enum bigtools/src/bbi/bbiread.rs ZoomIntervalError
//@rule R8
//@sub /[ \t]*#\[error\([^\n]*\)\]\n/ => "" min=2
//@end
//@extract enum bigtools/src/bbi/bbiread.rs FullDataCirTreeError
//@rule R8
//@sub /io::Error/ => IoError min=1
//@end
//@extract enum bigtools/src/bbi/bbiread.rs ZoomDataCirTreeError
//@rule R8
//@sub /io::Error/ => IoError min=1
//@end

// ---------------- shims (each one is a listed assumption) ----------------
/// std::io::Error (opaque)
#[verifier::external_body]
pub struct IoError { _p: u8 }
/// bed::bedparser::BedValueError (opaque; never constructed here)
#[verifier::external_body]
pub struct BedValueError { _p: u8 }
/// byteordered::Endianness (external crate; only copied and passed through)
#[derive(Clone, Copy)]
pub enum Endianness { Big, Little }
/// a chromosome name (`String` / `&str`): opaque, with real equality
#[verifier::external_body]
pub struct Name { _s: String }
/// `a == b` on names (String == &str): decides spec equality
#[verifier::external_body]
pub fn name_eq(a: &Name, b: &Name) -> (r: bool)
    ensures r == (*a == *b),
{ unimplemented!() }
impl Name {
    /// `str::to_owned` / `str::to_string`: the same name
    #[verifier::external_body]
    pub fn to_owned(&self) -> (r: Name) ensures r == *self, { unimplemented!() }
    #[verifier::external_body]
    pub fn to_string(&self) -> (r: Name) ensures r == *self, { unimplemented!() }
    /// `String::as_str` (0 hits on /repo): the same name, borrowed
    #[verifier::external_body]
    pub fn as_str(&self) -> (r: &Name) ensures *r == *self, { unimplemented!() }
}
/// `str::cmp` (byte-wise lexicographic order of two names) as a sign: < 0, 0, > 0.  Uninterpreted: nothing the
/// glue states depends on the order itself, only on whether a table is KNOWN to be sorted by it.
pub uninterp spec fn name_cmp(a: Name, b: Name) -> int;
/// "the chromosome table is sorted by name" — the precondition under which `slice::binary_search_by` with the
/// comparator `|x| x.name.as_str().cmp(target)` means anything
pub open spec fn sorted_by_name(v: Seq<ChromInfo>) -> bool {
    forall|i: int, j: int| 0 <= i < j < v.len() ==> name_cmp(#[trigger] v[i].name, #[trigger] v[j].name) <= 0
}
/// shim for `V.binary_search_by(|x| x.name.as_str().cmp(chrom_name))` (0 hits on /repo; lets an edit that
/// bisects the chromosome table reach the verifier) with `slice::binary_search_by`'s REAL contract: it never
/// panics and the index it returns is in range (Ok: < len, Err: <= len); IF the slice is sorted consistently with
/// the comparator, Ok(i) is AN element that compares Equal (not necessarily the first) and Err(j) means no
/// element compares Equal (j = the insertion point); if the slice is NOT sorted that way "the returned result is
/// unspecified and meaningless" (std docs) — any in-range Ok / Err.
#[verifier::external_body]
pub fn bsearch_chrom_by_name(v: &Vec<ChromInfo>, chrom_name: &Name) -> (r: Result<usize, usize>)
    ensures
        r matches Ok(i) ==> i < v@.len(),
        r matches Err(j) ==> j <= v@.len(),
        sorted_by_name(v@) ==> (r matches Ok(i) ==> v@[i as int].name == *chrom_name),
        sorted_by_name(v@) ==> (r matches Err(j) ==> {
            &&& forall|k: int| 0 <= k < v@.len() ==> (#[trigger] v@[k]).name != *chrom_name
            &&& forall|k: int| 0 <= k < j ==> name_cmp((#[trigger] v@[k]).name, *chrom_name) < 0
            &&& forall|k: int| j <= k < v@.len() ==> name_cmp((#[trigger] v@[k]).name, *chrom_name) > 0
        }),
{ unimplemented!() }

// stand-in that only matters for CHANGED code (0 hits on /repo): lets an edit that swallows an error reach the
// verifier.  Weakest contract: on Ok the value is the payload; on Err nothing is known.
pub assume_specification<T: Default, E>[Result::<T, E>::unwrap_or_default](x: Result<T, E>) -> (v: T)
    ensures x matches Ok(y) ==> v == y;

/// which index a tree lookup asked for
pub ghost enum Which { Full, Zoom(u32) }
/// one file access of the glue: a tree lookup with its result (the tree's offset, None = it failed), or an
/// index search with all its arguments and its result (None = it failed)
pub ghost enum Ev {
    Tree { which: Which, at: Option<u64> },
    Search { endianness: Endianness, tree_at: u64, chrom_ix: u32, start: u32, end: u32, blocks: Option<Seq<Block>> },
}
/// R11 shim for the reader `R: BBIFileRead`: only a ghost log of the accesses made through it
#[verifier::external_body]
pub struct VRead { _p: u8 }
impl VRead {
    pub uninterp spec fn log(&self) -> Seq<Ev>;
}
pub open spec fn blocks_of(r: Result<Vec<Block>, IoError>) -> Option<Seq<Block>> {
    match r { Ok(b) => Some(b@), Err(_) => None }
}

// the index search itself (units rt_search / rt_nodes / cache): signature cut from /repo, body skipped.
// ASSUMED: it may fail or return any blocks; it is one logged access with exactly its arguments and result.
//@extract fn bigtools/src/bbi/bbiread.rs search_cir_tree_inner
//@rule R16
//@skipbody
//@sub /pub\(crate\) fn/ => pub fn
//@sub /search_cir_tree_inner<R: BBIFileRead>/ => search_cir_tree_inner
//@sub /file: &mut R/ => file: &mut VRead
//@sub /io::Result<Vec<Block>>/ => Result<Vec<Block>, IoError>
//@ret r
//@sig
    ensures
        final(file).log() == old(file).log().push(Ev::Search { endianness, tree_at: at, chrom_ix, start, end, blocks: blocks_of(r) }),
//@end

// ---------------- specification vocabulary ----------------
/// the FIRST entry of the chromosome table, from position i on, whose name is n
pub open spec fn lookup_from(v: Seq<ChromInfo>, n: Name, i: int) -> Option<ChromInfo>
    decreases v.len() - i
{
    if i < 0 || i >= v.len() { None } else if v[i].name == n { Some(v[i]) } else { lookup_from(v, n, i + 1) }
}
pub open spec fn lookup(v: Seq<ChromInfo>, n: Name) -> Option<ChromInfo> { lookup_from(v, n, 0) }

/// the two accesses of a successful query, in order, and nothing else: the lookup of tree `which` succeeded
/// and the search ran on THAT tree with exactly (byte order, id, start, end) and returned `blocks`
pub open spec fn query_log(l0: Seq<Ev>, l: Seq<Ev>, which: Which, endianness: Endianness, id: u32, start: u32, end: u32, blocks: Seq<Block>) -> bool {
    let n = l0.len() as int;
    &&& l.len() == n + 2
    &&& l[n] is Tree && l[n]->which == which && l[n]->at is Some
    &&& l == l0.push(l[n]).push(Ev::Search { endianness, tree_at: l[n]->at->Some_0, chrom_ix: id, start, end, blocks: Some(blocks) })
}
/// a query that failed although the chromosome exists: the tree lookup failed (and nothing was searched),
/// or the one search on that tree with exactly (byte order, id, start, end) failed
pub open spec fn failed_log(l0: Seq<Ev>, l: Seq<Ev>, which: Which, endianness: Endianness, id: u32, start: u32, end: u32) -> bool {
    let n = l0.len() as int;
    ||| l == l0.push(Ev::Tree { which, at: None })
    ||| {
        &&& l.len() == n + 2
        &&& l[n] is Tree && l[n]->which == which && l[n]->at is Some
        &&& l == l0.push(l[n]).push(Ev::Search { endianness, tree_at: l[n]->at->Some_0, chrom_ix: id, start, end, blocks: None })
    }
}

// ---------------- verified stand-ins for the `.iter().find(..)` closures ----------------
/// `V.iter().find(|&x| x.name == chrom_name)`: the first entry with that name (closures over iterators are
/// outside Verus; same result computed by a verified index loop)
pub fn find_chrom<'a>(v: &'a Vec<ChromInfo>, chrom_name: &Name) -> (r: Option<&'a ChromInfo>)
    ensures
        r matches Some(c) ==> lookup(v@, *chrom_name) == Some(*c),
        r is None ==> lookup(v@, *chrom_name) is None,
{
    let mut i: usize = 0;
    while i < v.len()
        invariant i <= v.len(), lookup(v@, *chrom_name) == lookup_from(v@, *chrom_name, i as int),
        decreases v.len() - i,
    {
        if name_eq(&v[i].name, chrom_name) {
            return Some(&v[i]);
        }
        i = i + 1;
    }
    None
}
/// `V.iter().find(|&x| x.name != chrom_name)`: the FIRST entry whose name DIFFERS (what `find` with that predicate
/// returns; 0 hits on /repo)
pub fn find_chrom_ne<'a>(v: &'a Vec<ChromInfo>, chrom_name: &Name) -> (r: Option<&'a ChromInfo>)
    ensures
        r matches Some(c) ==> exists|k: int| 0 <= k < v@.len() && v@[k] == *c && v@[k].name != *chrom_name
            && forall|j: int| 0 <= j < k ==> (#[trigger] v@[j]).name == *chrom_name,
        r is None ==> forall|j: int| 0 <= j < v@.len() ==> (#[trigger] v@[j]).name == *chrom_name,
{
    let mut i: usize = 0;
    while i < v.len()
        invariant i <= v.len(), forall|j: int| 0 <= j < i ==> (#[trigger] v@[j]).name == *chrom_name,
        decreases v.len() - i,
    {
        if !name_eq(&v[i].name, chrom_name) {
            return Some(&v[i]);
        }
        i = i + 1;
    }
    None
}
/// `V.iter().position(|x| x.name == chrom_name)` (0 hits on /repo; lets an edit that uses the table POSITION
/// reach the verifier): the index of the first entry with that name
pub fn position_chrom(v: &Vec<ChromInfo>, chrom_name: &Name) -> (r: Option<usize>)
    ensures
        r matches Some(k) ==> k < v@.len() && lookup(v@, *chrom_name) == Some(v@[k as int]),
        r is None ==> lookup(v@, *chrom_name) is None,
{
    let mut i: usize = 0;
    while i < v.len()
        invariant i <= v.len(), lookup(v@, *chrom_name) == lookup_from(v@, *chrom_name, i as int),
        decreases v.len() - i,
    {
        if name_eq(&v[i].name, chrom_name) {
            return Some(i);
        }
        i = i + 1;
    }
    None
}

// ---------------- the conversions behind `?` (From impls of the repository, extracted) ----------------
//@extract method bigtools/src/bbi/bbiread.rs from "From<ChromIdNotFound> for BBIReadError"
//@rule R16
//@sub /fn from\(e: ChromIdNotFound\) -> Self/ => pub fn cinf_to_read(e: ChromIdNotFound) -> BBIReadError min=1
//@ret r
//@sig
    ensures r is InvalidChromosome,
//@end
//@extract method bigtools/src/bbi/bbiread.rs from "From<CirTreeSearchError> for BBIReadError"
//@rule R16
//@sub /fn from\(value: CirTreeSearchError\) -> Self/ => pub fn cts_to_read(value: CirTreeSearchError) -> BBIReadError min=1
//@end
//@extract method bigtools/src/bbi/bbiread.rs from "From<internal::FullDataCirTreeError> for BBIReadError"
//@rule R16
//@sub /fn from\(value: internal::FullDataCirTreeError\) -> Self/ => pub fn fdct_to_read(value: FullDataCirTreeError) -> BBIReadError min=1
//@sub /internal::/ => "" min=0
//@end
//@extract method bigtools/src/bbi/bbiread.rs from "From<ChromIdNotFound> for ZoomIntervalError"
//@rule R16
//@sub /fn from\(e: ChromIdNotFound\) -> Self/ => pub fn cinf_to_zoom(e: ChromIdNotFound) -> ZoomIntervalError min=1
//@end
//@extract method bigtools/src/bbi/bbiread.rs from "From<CirTreeSearchError> for ZoomIntervalError"
//@rule R16
//@sub /fn from\(e: CirTreeSearchError\) -> Self/ => pub fn cts_to_zoom(e: CirTreeSearchError) -> ZoomIntervalError min=1
//@sub /e\.into\(\)/ => cts_to_read(e) min=0
//@end
//@extract method bigtools/src/bbi/bbiread.rs from "From<internal::ZoomDataCirTreeError> for ZoomIntervalError"
//@rule R16
//@sub /fn from\(value: internal::ZoomDataCirTreeError\) -> Self/ => pub fn zdct_to_zoom(value: ZoomDataCirTreeError) -> ZoomIntervalError min=1
//@sub /internal::/ => "" min=0
//@end
/// `#[from] io::Error` of CirTreeSearchError (generated by thiserror): behind `search_cir_tree_inner(..)?`
pub fn io_to_cts(e: IoError) -> (r: CirTreeSearchError)
    ensures r == CirTreeSearchError::IoError(e),
{ CirTreeSearchError::IoError(e) }

// ---------------- name -> id ----------------
impl BBIFileInfo {
//@extract method bigtools/src/bbi/bbiread.rs chrom_id "^impl BBIFileInfo"
//@rule R16
//@rule R8
//@sub /chrom_name: &str/ => chrom_name: &Name min=1
//@sub /((?:\w+(?:\(\))?\s*\.\s*)*\w+(?:\(\))?)\s*\.iter\(\)\s*\.find\(\|&?\w+\| \w+\.name == chrom_name\)/ => find_chrom(&\1, chrom_name) min=0
//@sub /((?:\w+(?:\(\))?\s*\.\s*)*\w+(?:\(\))?)\s*\.iter\(\)\s*\.find\(\|&?\w+\| \w+\.name != chrom_name\)/ => find_chrom_ne(&\1, chrom_name) min=0
//@sub /((?:\w+(?:\(\))?\s*\.\s*)*\w+(?:\(\))?)\s*\.iter\(\)\s*\.position\(\|&?\w+\| \w+\.name == chrom_name\)/ => position_chrom(&\1, chrom_name) min=0
//@sub /((?:\w+(?:\(\))?\s*\.\s*)*\w+(?:\(\))?)\s*\.binary_search_by\(\|(\w+)\|\s*\2\.name\.as_str\(\)\.cmp\(chrom_name\)\)/ => bsearch_chrom_by_name(&\1, chrom_name) min=0
//@ret r
//@sig
    ensures
        [[L: id_is_the_id_field_of_the_first_entry_with_that_name]]
        lookup(self.chrom_info@, *chrom_name) matches Some(c) ==> (r matches Ok(id) && id == c.id),
        [[L: unknown_name_is_an_error_naming_it]]
        lookup(self.chrom_info@, *chrom_name) is None ==> (r matches Err(e) && e.0 == *chrom_name),
//@end
}

//@extract fn bigtools/src/bbi/bbiread.rs search_cir_tree
//@rule R16
//@rule R8
//@sub /search_cir_tree<R: BBIFileRead>/ => search_cir_tree min=1
//@sub /file: &mut R/ => file: &mut VRead min=1
//@sub /chrom_name: &str/ => chrom_name: &Name min=1
//@sub /((?:\w+(?:\(\))?\s*\.\s*)*\w+(?:\(\))?)\s*\.iter\(\)\s*\.find\(\|&?\w+\| \w+\.name == chrom_name\)/ => find_chrom(&\1, chrom_name) min=0
//@sub /((?:\w+(?:\(\))?\s*\.\s*)*\w+(?:\(\))?)\s*\.iter\(\)\s*\.find\(\|&?\w+\| \w+\.name != chrom_name\)/ => find_chrom_ne(&\1, chrom_name) min=0
//@sub /((?:\w+(?:\(\))?\s*\.\s*)*\w+(?:\(\))?)\s*\.iter\(\)\s*\.position\(\|&?\w+\| \w+\.name == chrom_name\)/ => position_chrom(&\1, chrom_name) min=0
//@sub /((?:\w+(?:\(\))?\s*\.\s*)*\w+(?:\(\))?)\s*\.binary_search_by\(\|(\w+)\|\s*\2\.name\.as_str\(\)\.cmp\(chrom_name\)\)/ => bsearch_chrom_by_name(&\1, chrom_name) min=0
//@sub /(search_cir_tree_inner\([^()]*\))\?/ => (match \1 { Ok(v__) => v__, Err(e__) => return Err(io_to_cts(e__)) }) min=0
//@ret r
//@sig
    ensures
        [[L: unknown_chromosome_is_an_invalid_chromosome_error_without_file_access]]
        lookup(info.chrom_info@, *chrom_name) is None ==> (final(file).log() == old(file).log()
            && (r matches Err(CirTreeSearchError::InvalidChromosome(n)) && n == *chrom_name)),
        [[L: one_search_with_the_id_field_of_that_entry_the_trees_offset_the_files_byte_order_and_the_same_range]]
        lookup(info.chrom_info@, *chrom_name) matches Some(c) ==> final(file).log() == old(file).log().push(
            Ev::Search { endianness: info.header.endianness, tree_at: at.1, chrom_ix: c.id, start, end,
                         blocks: match r { Ok(b) => Some(b@), Err(_) => None } }),
        [[L: search_failure_is_an_io_error]]
        lookup(info.chrom_info@, *chrom_name) is Some && r is Err ==> r->Err_0 is IoError,
//@end

// ---------------- the iterator structs (PhantomData dropped, reader generics substituted away) ----------------
// `std::vec::IntoIter<T>` -> `Vec<T>` (the not-yet-consumed elements, front first); `X.into_iter()` -> `X`
//@extract struct bigtools/src/bbi/bigwigread.rs BigWigIntervalIter
//@rule R8
//@sub /<R, B>/ => <B> min=1
//@sub /[ \t]*r: std::marker::PhantomData<R>,\n/ => "" min=1
//@sub /std::vec::IntoIter<(\w+)>/ => Vec<\1> min=2
//@sub /^    (\w+):/ => pub \1: min=0
//@end
//@extract struct bigtools/src/bbi/bigbedread.rs BigBedIntervalIter
//@rule R8
//@sub /<R, B>/ => <B> min=1
//@sub /[ \t]*r: std::marker::PhantomData<R>,\n/ => "" min=1
//@sub /std::vec::IntoIter<(\w+)>/ => Vec<\1> min=2
//@sub /^    (\w+):/ => pub \1: min=0
//@end
//@extract struct bigtools/src/bbi/bbiread.rs ZoomIntervalIter
//@rule R8
//@sub /<R, B>/ => <B> min=1
//@sub /[ \t]*_r: std::marker::PhantomData<R>,\n/ => "" min=1
//@sub /std::vec::IntoIter<(\w+)>/ => Vec<\1> min=2
//@sub /^    (\w+):/ => pub \1: min=0
//@end

impl<B> ZoomIntervalIter<B> {
//@extract method bigtools/src/bbi/bbiread.rs new "^impl<R, B> ZoomIntervalIter<R, B>"
//@rule R16
//@sub /std::vec::IntoIter<(\w+)>/ => Vec<\1> min=1
//@sub /[ \t]*_r: std::marker::PhantomData,\n/ => "" min=1
//@ret r
//@sig
    ensures
        [[L: zoom_iter/fields_are_the_arguments_offset_zero_no_values]]
        r.bbifile == bbifile, r.blocks == blocks, r.chrom == chrom, r.start == start, r.end == end,
        r.known_offset == 0, r.vals is None,
//@end
}

// =====================================================================================
// BigWigRead<R>: R -> VRead
//@extract struct bigtools/src/bbi/bigwigread.rs BigWigRead
//@rule R8
//@sub /BigWigRead<R>/ => BigWigRead min=1
//@sub /read: R,/ => read: VRead, min=1
//@end

impl BigWigRead {
    /// shim for `BBIReadInternal::full_data_cir_tree` (seeks, reads and checks the 48-byte index header, caches
    /// `header.full_index_tree_offset`).  ASSUMED: may fail; one logged access; the chromosome table and the
    /// byte order of `info` do not change.
    #[verifier::external_body]
    pub fn full_data_cir_tree(&mut self) -> (r: Result<CirTreeIndex, FullDataCirTreeError>)
        ensures
            final(self).info.chrom_info == old(self).info.chrom_info,
            final(self).info.header.endianness == old(self).info.header.endianness,
            final(self).read.log() == old(self).read.log().push(Ev::Tree { which: Which::Full, at: match r { Ok(t) => Some(t.1), Err(_) => None } }),
    { unimplemented!() }
    /// shim for `BBIReadInternal::zoom_cir_tree` (finds the zoom header of that reduction level, reads its
    /// index header, caches `index_tree_offset`).  ASSUMED as above.
    #[verifier::external_body]
    pub fn zoom_cir_tree(&mut self, reduction_level: u32) -> (r: Result<CirTreeIndex, ZoomDataCirTreeError>)
        ensures
            final(self).info.chrom_info == old(self).info.chrom_info,
            final(self).info.header.endianness == old(self).info.header.endianness,
            final(self).read.log() == old(self).read.log().push(Ev::Tree { which: Which::Zoom(reduction_level), at: match r { Ok(t) => Some(t.1), Err(_) => None } }),
    { unimplemented!() }

//@extract method bigtools/src/bbi/bigwigread.rs get_interval "^impl<R> BigWigRead<R> where R: BBIFileRead"
//@rule R16
//@sub /BigWigRead<R>/ => BigWigRead min=1
//@sub /BigWigIntervalIter<R, / => BigWigIntervalIter< min=1
//@sub /chrom_name: &str/ => chrom_name: &Name min=1
//@sub /[ \t]*r: std::marker::PhantomData,\n/ => "" min=1
//@sub /\.into_iter\(\)/ => "" min=0
//@sub /(self\.info\.chrom_id\([^()]*\))\?/ => (match \1 { Ok(v__) => v__, Err(e__) => return Err(cinf_to_read(e__)) }) min=0
//@sub /(self\.full_data_cir_tree\(\))\?/ => (match \1 { Ok(v__) => v__, Err(e__) => return Err(fdct_to_read(e__)) }) min=0
//@sub /(search_cir_tree\([^()]*\))\?/ => (match \1 { Ok(v__) => v__, Err(e__) => return Err(cts_to_read(e__)) }) min=0
//@ret r
//@sig
    ensures
        [[L: bw_get/unknown_chromosome_is_an_error]]
        lookup(old(self).info.chrom_info@, *chrom_name) is None ==> r is Err,
        [[L: bw_get/chrom_is_the_id_field_of_the_named_entry_not_its_position]]
        r matches Ok(it) ==> (lookup(old(self).info.chrom_info@, *chrom_name) matches Some(c) && it.chrom == c.id),
        [[L: bw_get/range_unchanged_offset_zero_no_values]]
        r matches Ok(it) ==> it.start == start && it.end == end && it.known_offset == 0 && it.vals is None,
        [[L: bw_get/blocks_are_the_search_result_for_the_full_data_tree_that_id_and_range]]
        r matches Ok(it) ==> query_log(old(self).read.log(), it.bigwig.read.log(), Which::Full, old(self).info.header.endianness,
            it.chrom, start, end, it.blocks@),
        [[L: bw_get/fails_only_for_unknown_chromosome_or_failed_tree_lookup_or_failed_search]]
        r is Err ==> (lookup(old(self).info.chrom_info@, *chrom_name) matches Some(c) ==>
            failed_log(old(self).read.log(), final(self).read.log(), Which::Full, old(self).info.header.endianness, c.id, start, end)),
        [[L: bw_get/chromosome_table_unchanged]]
        r matches Ok(it) ==> it.bigwig.info.chrom_info == old(self).info.chrom_info,
//@end

//@extract method bigtools/src/bbi/bigwigread.rs get_interval_move "^impl<R> BigWigRead<R> where R: BBIFileRead"
//@rule R16
//@sub /BigWigRead<R>/ => BigWigRead min=1
//@sub /BigWigIntervalIter<R, / => BigWigIntervalIter< min=1
//@sub /chrom_name: &str/ => chrom_name: &Name min=1
//@sub /[ \t]*r: std::marker::PhantomData,\n/ => "" min=1
//@sub /\.into_iter\(\)/ => "" min=0
//@sub /(self\.info\.chrom_id\([^()]*\))\?/ => (match \1 { Ok(v__) => v__, Err(e__) => return Err(cinf_to_read(e__)) }) min=0
//@sub /(self\.full_data_cir_tree\(\))\?/ => (match \1 { Ok(v__) => v__, Err(e__) => return Err(fdct_to_read(e__)) }) min=0
//@sub /(search_cir_tree\([^()]*\))\?/ => (match \1 { Ok(v__) => v__, Err(e__) => return Err(cts_to_read(e__)) }) min=0
//@sub /mut self,/ => self__PARAM, min=1
//@sub /\bself\b/ => self_ min=0
//@sub /self__PARAM,/ => self, min=1
//@ret r
//@sig
    ensures
        [[L: bw_get_move/unknown_chromosome_is_an_error]]
        lookup(self.info.chrom_info@, *chrom_name) is None ==> r is Err,
        [[L: bw_get_move/chrom_is_the_id_field_of_the_named_entry_not_its_position]]
        r matches Ok(it) ==> (lookup(self.info.chrom_info@, *chrom_name) matches Some(c) && it.chrom == c.id),
        [[L: bw_get_move/range_unchanged_offset_zero_no_values]]
        r matches Ok(it) ==> it.start == start && it.end == end && it.known_offset == 0 && it.vals is None,
        [[L: bw_get_move/blocks_are_the_search_result_for_the_full_data_tree_that_id_and_range]]
        r matches Ok(it) ==> query_log(self.read.log(), it.bigwig.read.log(), Which::Full, self.info.header.endianness,
            it.chrom, start, end, it.blocks@),
        [[L: bw_get_move/chromosome_table_unchanged]]
        r matches Ok(it) ==> it.bigwig.info.chrom_info == self.info.chrom_info,
//@open
        let mut self_ = self;
//@end

//@extract method bigtools/src/bbi/bigwigread.rs get_zoom_interval "^impl<R> BigWigRead<R> where R: BBIFileRead"
//@rule R16
//@sub /BigWigRead<R>/ => BigWigRead min=1
//@sub /ZoomIntervalIter<BigWigRead, / => ZoomIntervalIter< min=1
//@sub /chrom_name: &str/ => chrom_name: &Name min=1
//@sub /\.into_iter\(\)/ => "" min=0
//@sub /(self\.info\.chrom_id\([^()]*\))\?/ => (match \1 { Ok(v__) => v__, Err(e__) => return Err(cinf_to_zoom(e__)) }) min=0
//@sub /(self\.zoom_cir_tree\([^()]*\))\?/ => (match \1 { Ok(v__) => v__, Err(e__) => return Err(zdct_to_zoom(e__)) }) min=0
//@sub /(self\.\w+\([^()]*\))\s*\.map_err\(\|_\| (ZoomIntervalError::\w+)\)\?/ => (match \1 { Ok(v__) => v__, Err(_) => return Err(\2) }) min=0
//@sub /(search_cir_tree\([^()]*\))\?/ => (match \1 { Ok(v__) => v__, Err(e__) => return Err(cts_to_zoom(e__)) }) min=0
//@ret r
//@sig
    ensures
        [[L: bw_zoom/unknown_chromosome_is_an_error]]
        lookup(old(self).info.chrom_info@, *chrom_name) is None ==> r is Err,
        [[L: bw_zoom/chrom_is_the_id_field_of_the_named_entry_not_its_position]]
        r matches Ok(it) ==> (lookup(old(self).info.chrom_info@, *chrom_name) matches Some(c) && it.chrom == c.id),
        [[L: bw_zoom/range_unchanged_offset_zero_no_values]]
        r matches Ok(it) ==> it.start == start && it.end == end && it.known_offset == 0 && it.vals is None,
        [[L: bw_zoom/blocks_are_the_search_result_for_the_tree_of_the_requested_level_that_id_and_range]]
        r matches Ok(it) ==> query_log(old(self).read.log(), it.bbifile.read.log(), Which::Zoom(reduction_level), old(self).info.header.endianness,
            it.chrom, start, end, it.blocks@),
        [[L: bw_zoom/fails_only_for_unknown_chromosome_or_failed_tree_lookup_or_failed_search]]
        r is Err ==> (lookup(old(self).info.chrom_info@, *chrom_name) matches Some(c) ==>
            failed_log(old(self).read.log(), final(self).read.log(), Which::Zoom(reduction_level), old(self).info.header.endianness, c.id, start, end)),
        [[L: bw_zoom/chromosome_table_unchanged]]
        r matches Ok(it) ==> it.bbifile.info.chrom_info == old(self).info.chrom_info,
//@end

//@extract method bigtools/src/bbi/bigwigread.rs get_zoom_interval_move "^impl<R> BigWigRead<R> where R: BBIFileRead"
//@rule R16
//@sub /BigWigRead<R>/ => BigWigRead min=1
//@sub /ZoomIntervalIter<BigWigRead, / => ZoomIntervalIter< min=1
//@sub /chrom_name: &str/ => chrom_name: &Name min=1
//@sub /\.into_iter\(\)/ => "" min=0
//@sub /(self\.info\.chrom_id\([^()]*\))\?/ => (match \1 { Ok(v__) => v__, Err(e__) => return Err(cinf_to_zoom(e__)) }) min=0
//@sub /(self\.zoom_cir_tree\([^()]*\))\?/ => (match \1 { Ok(v__) => v__, Err(e__) => return Err(zdct_to_zoom(e__)) }) min=0
//@sub /(self\.\w+\([^()]*\))\s*\.map_err\(\|_\| (ZoomIntervalError::\w+)\)\?/ => (match \1 { Ok(v__) => v__, Err(_) => return Err(\2) }) min=0
//@sub /(search_cir_tree\([^()]*\))\?/ => (match \1 { Ok(v__) => v__, Err(e__) => return Err(cts_to_zoom(e__)) }) min=0
//@sub /mut self,/ => self__PARAM, min=1
//@sub /\bself\b/ => self_ min=0
//@sub /self__PARAM,/ => self, min=1
//@ret r
//@sig
    ensures
        [[L: bw_zoom_move/unknown_chromosome_is_an_error]]
        lookup(self.info.chrom_info@, *chrom_name) is None ==> r is Err,
        [[L: bw_zoom_move/chrom_is_the_id_field_of_the_named_entry_not_its_position]]
        r matches Ok(it) ==> (lookup(self.info.chrom_info@, *chrom_name) matches Some(c) && it.chrom == c.id),
        [[L: bw_zoom_move/range_unchanged_offset_zero_no_values]]
        r matches Ok(it) ==> it.start == start && it.end == end && it.known_offset == 0 && it.vals is None,
        [[L: bw_zoom_move/blocks_are_the_search_result_for_the_tree_of_the_requested_level_that_id_and_range]]
        r matches Ok(it) ==> query_log(self.read.log(), it.bbifile.read.log(), Which::Zoom(reduction_level), self.info.header.endianness,
            it.chrom, start, end, it.blocks@),
        [[L: bw_zoom_move/chromosome_table_unchanged]]
        r matches Ok(it) ==> it.bbifile.info.chrom_info == self.info.chrom_info,
//@open
        let mut self_ = self;
//@end
}

// =====================================================================================
// BigBedRead<R>: R -> VRead
//@extract struct bigtools/src/bbi/bigbedread.rs BigBedRead
//@rule R8
//@sub /BigBedRead<R>/ => BigBedRead min=1
//@sub /read: R,/ => read: VRead, min=1
//@end

impl BigBedRead {
    /// shims as for BigWigRead (the same default methods of trait BBIReadInternal)
    #[verifier::external_body]
    pub fn full_data_cir_tree(&mut self) -> (r: Result<CirTreeIndex, FullDataCirTreeError>)
        ensures
            final(self).info.chrom_info == old(self).info.chrom_info,
            final(self).info.header.endianness == old(self).info.header.endianness,
            final(self).read.log() == old(self).read.log().push(Ev::Tree { which: Which::Full, at: match r { Ok(t) => Some(t.1), Err(_) => None } }),
    { unimplemented!() }
    #[verifier::external_body]
    pub fn zoom_cir_tree(&mut self, reduction_level: u32) -> (r: Result<CirTreeIndex, ZoomDataCirTreeError>)
        ensures
            final(self).info.chrom_info == old(self).info.chrom_info,
            final(self).info.header.endianness == old(self).info.header.endianness,
            final(self).read.log() == old(self).read.log().push(Ev::Tree { which: Which::Zoom(reduction_level), at: match r { Ok(t) => Some(t.1), Err(_) => None } }),
    { unimplemented!() }

// the inherent `info()` accessor used by get_interval / get_interval_move
//@extract method bigtools/src/bbi/bigbedread.rs info "^impl<R> BigBedRead<R>"
//@rule R16
//@ret r
//@sig
    ensures
        [[L: bb_info/is_the_readers_own_info]]
        *r == self.info,
//@end

//@extract method bigtools/src/bbi/bigbedread.rs get_interval "^impl<R: BBIFileRead> BigBedRead<R>"
//@rule R16
//@sub /BigBedRead<R>/ => BigBedRead min=1
//@sub /BigBedIntervalIter<R, / => BigBedIntervalIter< min=1
//@sub /chrom_name: &str/ => chrom_name: &Name min=1
//@sub /[ \t]*r: std::marker::PhantomData,\n/ => "" min=1
//@sub /\.into_iter\(\)/ => "" min=0
//@sub /((?:\w+(?:\(\))?\s*\.\s*)*\w+(?:\(\))?)\s*\.iter\(\)\s*\.find\(\|&?\w+\| \w+\.name == chrom_name\)/ => find_chrom(&\1, chrom_name) min=0
//@sub /((?:\w+(?:\(\))?\s*\.\s*)*\w+(?:\(\))?)\s*\.iter\(\)\s*\.find\(\|&?\w+\| \w+\.name != chrom_name\)/ => find_chrom_ne(&\1, chrom_name) min=0
//@sub /((?:\w+(?:\(\))?\s*\.\s*)*\w+(?:\(\))?)\s*\.iter\(\)\s*\.position\(\|&?\w+\| \w+\.name == chrom_name\)/ => position_chrom(&\1, chrom_name) min=0
//@sub /((?:\w+(?:\(\))?\s*\.\s*)*\w+(?:\(\))?)\s*\.binary_search_by\(\|(\w+)\|\s*\2\.name\.as_str\(\)\.cmp\(chrom_name\)\)/ => bsearch_chrom_by_name(&\1, chrom_name) min=0
//@sub /(self\.info\.chrom_id\([^()]*\))\?/ => (match \1 { Ok(v__) => v__, Err(e__) => return Err(cinf_to_read(e__)) }) min=0
//@sub /(self\.full_data_cir_tree\(\))\?/ => (match \1 { Ok(v__) => v__, Err(e__) => return Err(fdct_to_read(e__)) }) min=0
//@sub /(search_cir_tree\([^()]*\))\?/ => (match \1 { Ok(v__) => v__, Err(e__) => return Err(cts_to_read(e__)) }) min=0
//@ret r
//@sig
    ensures
        [[L: bb_get/unknown_chromosome_is_an_error]]
        lookup(old(self).info.chrom_info@, *chrom_name) is None ==> r is Err,
        [[L: bb_get/expected_chrom_is_the_id_field_of_the_named_entry_not_its_position]]
        r matches Ok(it) ==> (lookup(old(self).info.chrom_info@, *chrom_name) matches Some(c) && it.expected_chrom == c.id),
        [[L: bb_get/range_unchanged_offset_zero_no_values]]
        r matches Ok(it) ==> it.start == start && it.end == end && it.known_offset == 0 && it.vals is None,
        [[L: bb_get/blocks_are_the_search_result_for_the_full_data_tree_that_id_and_range]]
        r matches Ok(it) ==> query_log(old(self).read.log(), it.bigbed.read.log(), Which::Full, old(self).info.header.endianness,
            it.expected_chrom, start, end, it.blocks@),
        [[L: bb_get/fails_only_for_unknown_chromosome_or_failed_tree_lookup_or_failed_search]]
        r is Err ==> (lookup(old(self).info.chrom_info@, *chrom_name) matches Some(c) ==>
            failed_log(old(self).read.log(), final(self).read.log(), Which::Full, old(self).info.header.endianness, c.id, start, end)),
        [[L: bb_get/chromosome_table_unchanged]]
        r matches Ok(it) ==> it.bigbed.info.chrom_info == old(self).info.chrom_info,
//@at /let chrom_ix = / before
        assert(lookup(self.info.chrom_info@, *chrom_name) is Some); [[L: bb_get/unwrap_cannot_panic_the_search_already_refused_unknown_names]]
//@end

//@extract method bigtools/src/bbi/bigbedread.rs get_interval_move "^impl<R: BBIFileRead> BigBedRead<R>"
//@rule R16
//@sub /BigBedRead<R>/ => BigBedRead min=1
//@sub /BigBedIntervalIter<R, / => BigBedIntervalIter< min=1
//@sub /chrom_name: &str/ => chrom_name: &Name min=1
//@sub /[ \t]*r: std::marker::PhantomData,\n/ => "" min=1
//@sub /\.into_iter\(\)/ => "" min=0
//@sub /((?:\w+(?:\(\))?\s*\.\s*)*\w+(?:\(\))?)\s*\.iter\(\)\s*\.find\(\|&?\w+\| \w+\.name == chrom_name\)/ => find_chrom(&\1, chrom_name) min=0
//@sub /((?:\w+(?:\(\))?\s*\.\s*)*\w+(?:\(\))?)\s*\.iter\(\)\s*\.find\(\|&?\w+\| \w+\.name != chrom_name\)/ => find_chrom_ne(&\1, chrom_name) min=0
//@sub /((?:\w+(?:\(\))?\s*\.\s*)*\w+(?:\(\))?)\s*\.iter\(\)\s*\.position\(\|&?\w+\| \w+\.name == chrom_name\)/ => position_chrom(&\1, chrom_name) min=0
//@sub /((?:\w+(?:\(\))?\s*\.\s*)*\w+(?:\(\))?)\s*\.binary_search_by\(\|(\w+)\|\s*\2\.name\.as_str\(\)\.cmp\(chrom_name\)\)/ => bsearch_chrom_by_name(&\1, chrom_name) min=0
//@sub /(self\.info\.chrom_id\([^()]*\))\?/ => (match \1 { Ok(v__) => v__, Err(e__) => return Err(cinf_to_read(e__)) }) min=0
//@sub /(self\.full_data_cir_tree\(\))\?/ => (match \1 { Ok(v__) => v__, Err(e__) => return Err(fdct_to_read(e__)) }) min=0
//@sub /(search_cir_tree\([^()]*\))\?/ => (match \1 { Ok(v__) => v__, Err(e__) => return Err(cts_to_read(e__)) }) min=0
//@sub /mut self,/ => self__PARAM, min=1
//@sub /\bself\b/ => self_ min=0
//@sub /self__PARAM,/ => self, min=1
//@ret r
//@sig
    ensures
        [[L: bb_get_move/unknown_chromosome_is_an_error]]
        lookup(self.info.chrom_info@, *chrom_name) is None ==> r is Err,
        [[L: bb_get_move/expected_chrom_is_the_id_field_of_the_named_entry_not_its_position]]
        r matches Ok(it) ==> (lookup(self.info.chrom_info@, *chrom_name) matches Some(c) && it.expected_chrom == c.id),
        [[L: bb_get_move/range_unchanged_offset_zero_no_values]]
        r matches Ok(it) ==> it.start == start && it.end == end && it.known_offset == 0 && it.vals is None,
        [[L: bb_get_move/blocks_are_the_search_result_for_the_full_data_tree_that_id_and_range]]
        r matches Ok(it) ==> query_log(self.read.log(), it.bigbed.read.log(), Which::Full, self.info.header.endianness,
            it.expected_chrom, start, end, it.blocks@),
        [[L: bb_get_move/chromosome_table_unchanged]]
        r matches Ok(it) ==> it.bigbed.info.chrom_info == self.info.chrom_info,
//@at /let chrom_ix = / before
        assert(lookup(self_.info.chrom_info@, *chrom_name) is Some); [[L: bb_get_move/unwrap_cannot_panic_the_search_already_refused_unknown_names]]
//@open
        let mut self_ = self;
//@end

//@extract method bigtools/src/bbi/bigbedread.rs get_zoom_interval "^impl<R: BBIFileRead> BigBedRead<R>"
//@rule R16
//@sub /BigBedRead<R>/ => BigBedRead min=1
//@sub /ZoomIntervalIter<BigBedRead, / => ZoomIntervalIter< min=1
//@sub /chrom_name: &str/ => chrom_name: &Name min=1
//@sub /\.into_iter\(\)/ => "" min=0
//@sub /(self\.info\.chrom_id\([^()]*\))\?/ => (match \1 { Ok(v__) => v__, Err(e__) => return Err(cinf_to_zoom(e__)) }) min=0
//@sub /(self\s*\.\w+\([^()]*\))\s*\.map_err\(\|_\| (ZoomIntervalError::\w+)\)\?/ => (match \1 { Ok(v__) => v__, Err(_) => return Err(\2) }) min=0
//@sub /(self\.zoom_cir_tree\([^()]*\))\?/ => (match \1 { Ok(v__) => v__, Err(e__) => return Err(zdct_to_zoom(e__)) }) min=0
//@sub /(search_cir_tree\([^()]*\))\?/ => (match \1 { Ok(v__) => v__, Err(e__) => return Err(cts_to_zoom(e__)) }) min=0
//@ret r
//@sig
    ensures
        [[L: bb_zoom/unknown_chromosome_is_an_error]]
        lookup(old(self).info.chrom_info@, *chrom_name) is None ==> r is Err,
        [[L: bb_zoom/chrom_is_the_id_field_of_the_named_entry_not_its_position]]
        r matches Ok(it) ==> (lookup(old(self).info.chrom_info@, *chrom_name) matches Some(c) && it.chrom == c.id),
        [[L: bb_zoom/range_unchanged_offset_zero_no_values]]
        r matches Ok(it) ==> it.start == start && it.end == end && it.known_offset == 0 && it.vals is None,
        [[L: bb_zoom/blocks_are_the_search_result_for_the_tree_of_the_requested_level_that_id_and_range]]
        r matches Ok(it) ==> query_log(old(self).read.log(), it.bbifile.read.log(), Which::Zoom(reduction_level), old(self).info.header.endianness,
            it.chrom, start, end, it.blocks@),
        [[L: bb_zoom/fails_only_for_unknown_chromosome_or_failed_tree_lookup_or_failed_search]]
        r is Err ==> (lookup(old(self).info.chrom_info@, *chrom_name) matches Some(c) ==>
            failed_log(old(self).read.log(), final(self).read.log(), Which::Zoom(reduction_level), old(self).info.header.endianness, c.id, start, end)),
        [[L: bb_zoom/chromosome_table_unchanged]]
        r matches Ok(it) ==> it.bbifile.info.chrom_info == old(self).info.chrom_info,
//@end

//@extract method bigtools/src/bbi/bigbedread.rs get_zoom_interval_move "^impl<R: BBIFileRead> BigBedRead<R>"
//@rule R16
//@sub /BigBedRead<R>/ => BigBedRead min=1
//@sub /ZoomIntervalIter<BigBedRead, / => ZoomIntervalIter< min=1
//@sub /chrom_name: &str/ => chrom_name: &Name min=1
//@sub /\.into_iter\(\)/ => "" min=0
//@sub /(self\.info\.chrom_id\([^()]*\))\?/ => (match \1 { Ok(v__) => v__, Err(e__) => return Err(cinf_to_zoom(e__)) }) min=0
//@sub /(self\s*\.\w+\([^()]*\))\s*\.map_err\(\|_\| (ZoomIntervalError::\w+)\)\?/ => (match \1 { Ok(v__) => v__, Err(_) => return Err(\2) }) min=0
//@sub /(self\.zoom_cir_tree\([^()]*\))\?/ => (match \1 { Ok(v__) => v__, Err(e__) => return Err(zdct_to_zoom(e__)) }) min=0
//@sub /(search_cir_tree\([^()]*\))\?/ => (match \1 { Ok(v__) => v__, Err(e__) => return Err(cts_to_zoom(e__)) }) min=0
//@sub /mut self,/ => self__PARAM, min=1
//@sub /\bself\b/ => self_ min=0
//@sub /self__PARAM,/ => self, min=1
//@ret r
//@sig
    ensures
        [[L: bb_zoom_move/unknown_chromosome_is_an_error]]
        lookup(self.info.chrom_info@, *chrom_name) is None ==> r is Err,
        [[L: bb_zoom_move/chrom_is_the_id_field_of_the_named_entry_not_its_position]]
        r matches Ok(it) ==> (lookup(self.info.chrom_info@, *chrom_name) matches Some(c) && it.chrom == c.id),
        [[L: bb_zoom_move/range_unchanged_offset_zero_no_values]]
        r matches Ok(it) ==> it.start == start && it.end == end && it.known_offset == 0 && it.vals is None,
        [[L: bb_zoom_move/blocks_are_the_search_result_for_the_tree_of_the_requested_level_that_id_and_range]]
        r matches Ok(it) ==> query_log(self.read.log(), it.bbifile.read.log(), Which::Zoom(reduction_level), self.info.header.endianness,
            it.chrom, start, end, it.blocks@),
        [[L: bb_zoom_move/chromosome_table_unchanged]]
        r matches Ok(it) ==> it.bbifile.info.chrom_info == self.info.chrom_info,
//@open
        let mut self_ = self;
//@end
}

} // verus!
fn main() {}
