//@unit vals_tail
//@serves C01 C02 C06 C07 C08 C09 C13
//@backend verus
// bbiwrite::write_vals and bbiwrite::write_vals_no_zoom, WHOLE, as the complement of the existing carves: the pieces
// that other units put under contract are replaced by logged shims, every OTHER statement is verified as written:
//   zoom size list (chrom_ids `zoomlist/*`)                -> `single_pass_zoom_sizes(options)`
//   `make_zoom` + the BTreeMap collect (chrom_pipe `make_zoom/*`) -> `collect_zooms_map(&zoom_sizes, options)`
//   `setup_chrom`, `do_read` (chrom_ids), `advance` (sum_acc; its zoom-count part: THIS unit, below), and the
//   iteration `vals_iter.process_to_bbi(&runtime, &mut do_read, &mut advance)` (feed/procs)
//                                                           -> ONE call `vals_iter.process_to_bbi_*(.. the captured variables ..)`
//   the writer tasks (chrom_pipe)                           -> `write_chroms_with_zooms` / `write_chroms_without_zooms` logged futures
// What is proved is the WIRING and the TAIL: the pass starts from the empty id map / no summary / an empty channel;
// the writer task is spawned with THE file handed in, THE zoom map built from the zoom sizes and THE receiving end of
// the channel the processors send into; the sender is dropped BEFORE the writer task is awaited; the summary defaults
// to all zeros; a writer task error propagates; zoom infos are built in key (= resolution) order from the task's
// zoom map, each with its own staging file and section lists and its writer half dropped; every component of the
// returned tuple is in its slot.  These ARE the facts behind unit mutual's hand-written shims of the two functions
// (same file handle comes back, `summary` = the pass's, `max_uncompressed_buf_size` = the writer task's).
// Also: the `total_zoom_counts` table of write_vals_no_zoom and the per-chromosome fill loop of its `advance`.
use vstd::prelude::*;
verus! {

// =====================================================================================
// shims (R11): logged stand-ins for the pieces other units own, and for std/tokio/futures
// =====================================================================================
#[verifier::external_body] pub struct IoErr { _p: u8 }
#[verifier::external_body] pub struct SrcErr { _p: u8 }
/// BufWriter<W>
#[verifier::external_body] pub struct OutFile { _p: u8 }
/// HashMap<String, u32> (chrom sizes)
#[verifier::external_body] pub struct StrMap { _p: u8 }
/// tokio Runtime
#[verifier::external_body] pub struct Runtime { _p: u8 }
/// TempFileBuffer<File> / TempFileBufferWriter<File>: the two halves of a level's staging file (`fid()`)
#[verifier::external_body] pub struct LevelBuf { _p: u8 }
#[verifier::external_body] pub struct ZoomWriter { _p: u8 }
impl LevelBuf { pub uninterp spec fn fid(&self) -> int; }
impl ZoomWriter { pub uninterp spec fn fid(&self) -> int; }
/// crossbeam IntoIter<Section> and the flattened stream of a list of them
#[verifier::external_body] pub struct SecIter { _p: u8 }
#[verifier::external_body] pub struct SecStream { _p: u8 }
impl SecStream { pub uninterp spec fn lists(&self) -> Seq<SecIter>; }
/// `lists.into_iter().flatten()`
#[verifier::external_body]
pub fn flatten_lists(v: Vec<SecIter>) -> (r: SecStream) ensures r.lists() == v@ { unimplemented!() }
/// per-chromosome messages (chrom_pipe `Data` / `DataWithoutzooms`): opaque here
#[verifier::external_body] pub struct Data { _p: u8 }
#[verifier::external_body] pub struct DataWithoutzooms { _p: u8 }

/// utils::idmap::IdMap (unit chrom_ids): opaque; `IdMap::default()` is the empty map
#[verifier::external_body] pub struct IdMap { _p: u8 }
pub uninterp spec fn empty_ids() -> IdMap;
impl IdMap {
    #[verifier::external_body]
    pub fn default() -> (r: IdMap) ensures r == empty_ids() { unimplemented!() }
}

//@extract struct bigtools/src/bbi.rs Summary
//@rule R8
//@end
//@extract enum bigtools/src/bbi/bbiwrite.rs InputSortType
//@rule R8
//@end
//@extract struct bigtools/src/bbi/bbiwrite.rs BBIWriteOptions
//@rule R8
//@sub /#\[derive\(Clone\)\]\n/ => ""
//@end
//@extract enum bigtools/src/bbi/bbiwrite.rs ProcessDataError
//@rule R8
//@sub /[ \t]*#\[error\([^\n]*\)\]\n/ => "" min=0
//@sub /#\[from\] io::Error/ => IoErr min=0
//@end
//@extract enum bigtools/src/bbi/bbiwrite.rs BBIProcessError
//@rule R8
//@sub /[ \t]*#\[error\([^\n]*\)\]\n/ => "" min=0
//@sub /#\[from\] io::Error/ => IoErr min=0
//@sub /<SourceError: Error>/ => "" min=1
//@sub /SourceError\(SourceError\)/ => SourceError(SrcErr) min=1
//@end
/// the repository's `From<ProcessDataError> for BBIProcessError` behind `?`: converted value not modelled
impl From<ProcessDataError> for BBIProcessError { #[verifier::external_body] fn from(value: ProcessDataError) -> BBIProcessError { unimplemented!() } }
//@extract struct bigtools/src/bbi/bbiwrite.rs ZoomInfo
//@rule R8
//@sub /TempFileBuffer<File>/ => LevelBuf min=1
//@sub /Flatten<vec::IntoIter<crossbeam_channel::IntoIter<Section>>>/ => SecStream min=1
//@end
//@extract type bigtools/src/bbi/bbiwrite.rs ZoomValue
//@rule R8
//@sub /crossbeam_channel::IntoIter<Section>/ => SecIter
//@sub /TempFileBuffer<File>/ => LevelBuf
//@sub /TempFileBufferWriter<File>/ => ZoomWriter
//@end

/// BTreeMap<u32, ZoomValue>: ghost `kv()` = its entries in KEY ORDER (what `into_iter()` yields, ASSUMED std)
#[verifier::external_body] pub struct ZMap { _p: u8 }
impl ZMap { pub uninterp spec fn kv(&self) -> Seq<(u32, ZoomValue)>; }
/// `btree_map::IntoIter` (and `.rev()` of it) seen through the items still to come
#[verifier::external_body] pub struct KVIter { _p: u8 }
impl KVIter {
    pub uninterp spec fn rest(&self) -> Seq<(u32, ZoomValue)>;
    #[verifier::external_body]
    pub fn rev(self) -> (r: KVIter) ensures r.rest() == self.rest().reverse() { unimplemented!() }
    #[verifier::external_body]
    pub fn next(&mut self) -> (r: Option<(u32, ZoomValue)>)
        ensures
            old(self).rest().len() == 0 ==> r.is_none() && final(self).rest() == old(self).rest(),
            old(self).rest().len() > 0 ==> r == Some(old(self).rest()[0]) && final(self).rest() == old(self).rest().drop_first(),
    { unimplemented!() }
}
impl ZMap {
    #[verifier::external_body]
    pub fn into_iter(self) -> (r: KVIter) ensures r.rest() == self.kv() { unimplemented!() }
}

/// chrom_ids `write_vals/zoomlist/*`: the level list is a function of the options (strictly increasing, no zero)
pub uninterp spec fn zlist(o: BBIWriteOptions) -> Seq<u32>;
#[verifier::external_body]
pub fn single_pass_zoom_sizes(options: &BBIWriteOptions) -> (r: Vec<u32>) ensures r@ == zlist(*options) { unimplemented!() }
/// `zoom_sizes.iter().copied().map(make_zoom).collect()` (chrom_pipe `make_zoom/*` + BTreeMap collect, ASSUMED): one fresh
/// entry per size; a function of the list and the options
pub uninterp spec fn zmap0(sizes: Seq<u32>, o: BBIWriteOptions) -> ZMap;
#[verifier::external_body]
pub fn collect_zooms_map(zoom_sizes: &Vec<u32>, options: &BBIWriteOptions) -> (r: ZMap) ensures r == zmap0(zoom_sizes@, *options) { unimplemented!() }

/// futures mpsc unbounded channel: `cid()` = which channel, `sent()` = the log of the sending end
#[verifier::external_body]
#[verifier::reject_recursive_types(M)]
pub struct ChromTx<M> { _p: core::marker::PhantomData<M> }
#[verifier::external_body]
#[verifier::reject_recursive_types(M)]
pub struct ChromRx<M> { _p: core::marker::PhantomData<M> }
impl<M> ChromTx<M> { pub uninterp spec fn cid(&self) -> int; pub uninterp spec fn sent(&self) -> Seq<M>; }
impl<M> ChromRx<M> { pub uninterp spec fn cid(&self) -> int; }
#[verifier::external_body]
pub fn unbounded<M>() -> (r: (ChromTx<M>, ChromRx<M>)) ensures r.0.cid() == r.1.cid(), r.0.sent().len() == 0 { unimplemented!() }
/// Which senders have been DROPPED so far (and with which log).  The writer task's `receiver.next()` returns `None`
/// only when every sender is gone: awaiting the task before that never returns.  `drop(send)` is routed here.
#[verifier::external_body]
#[verifier::reject_recursive_types(M)]
pub struct ChanLog<M> { _p: core::marker::PhantomData<M> }
impl<M> ChanLog<M> {
    pub uninterp spec fn closed(&self, cid: int) -> Option<Seq<M>>;
    #[verifier::external_body]
    pub fn new() -> (r: ChanLog<M>) ensures forall|c: int| r.closed(c) is None { unimplemented!() }
    #[verifier::external_body]
    pub fn sender_dropped(&mut self, s: ChromTx<M>)
        ensures final(self).closed(s.cid()) == Some(s.sent()), forall|c: int| c != s.cid() ==> final(self).closed(c) == old(self).closed(c),
    { unimplemented!() }
}

/// The writer tasks (unit chrom_pipe): logged futures.  `wt_result(file, zooms, msgs)` is what chrom_pipe's contract
/// describes (file + staged bytes, max over all results, section lists, the levels' writers/lists).
pub uninterp spec fn wt_result(file: OutFile, zooms: ZMap, msgs: Seq<Data>) -> Result<(OutFile, usize, Vec<SecIter>, ZMap), ProcessDataError>;
pub uninterp spec fn wt0_result(file: OutFile, msgs: Seq<DataWithoutzooms>) -> Result<(OutFile, usize, Vec<SecIter>), ProcessDataError>;
#[verifier::external_body] pub struct WriteFut { _p: u8 }
#[verifier::external_body] pub struct WriteFut0 { _p: u8 }
impl WriteFut { pub uninterp spec fn file(&self) -> OutFile; pub uninterp spec fn zooms(&self) -> ZMap; pub uninterp spec fn rx(&self) -> int; }
impl WriteFut0 { pub uninterp spec fn file(&self) -> OutFile; pub uninterp spec fn rx(&self) -> int; }
#[verifier::external_body]
pub fn write_chroms_with_zooms(file: OutFile, zooms_map: ZMap, receiver: ChromRx<Data>) -> (r: WriteFut)
    ensures r.file() == file, r.zooms() == zooms_map, r.rx() == receiver.cid(),
{ unimplemented!() }
#[verifier::external_body]
pub fn write_chroms_without_zooms(file: OutFile, receiver: ChromRx<DataWithoutzooms>) -> (r: WriteFut0)
    ensures r.file() == file, r.rx() == receiver.cid(),
{ unimplemented!() }
#[verifier::external_body] pub struct WriteTask { _p: u8 }
#[verifier::external_body] pub struct WriteTask0 { _p: u8 }
impl WriteTask { pub uninterp spec fn fut(&self) -> WriteFut; }
impl WriteTask0 { pub uninterp spec fn fut(&self) -> WriteFut0; }
/// `runtime.block_on(handle)` -> Result<T, JoinError>; `.unwrap()` panics on a PANICKED task (not modelled)
pub struct Joined { pub res: Result<(OutFile, usize, Vec<SecIter>, ZMap), ProcessDataError> }
pub struct Joined0 { pub res: Result<(OutFile, usize, Vec<SecIter>), ProcessDataError> }
impl Joined { pub fn unwrap(self) -> (r: Result<(OutFile, usize, Vec<SecIter>, ZMap), ProcessDataError>) ensures r == self.res { self.res } }
impl Joined0 { pub fn unwrap(self) -> (r: Result<(OutFile, usize, Vec<SecIter>), ProcessDataError>) ensures r == self.res { self.res } }
impl Runtime {
    #[verifier::external_body]
    pub fn spawn(&self, f: WriteFut) -> (r: WriteTask) ensures r.fut() == f { unimplemented!() }
    #[verifier::external_body]
    pub fn spawn0(&self, f: WriteFut0) -> (r: WriteTask0) ensures r.fut() == f { unimplemented!() }
    #[verifier::external_body]
    pub fn block_on(&self, t: WriteTask, log: &ChanLog<Data>) -> (r: Joined)
        requires
            [[L: order/the_sender_is_dropped_before_the_writer_task_is_awaited]]
            log.closed(t.fut().rx()) is Some,
        ensures r.res == wt_result(t.fut().file(), t.fut().zooms(), log.closed(t.fut().rx())->Some_0),
    { unimplemented!() }
    #[verifier::external_body]
    pub fn block_on0(&self, t: WriteTask0, log: &ChanLog<DataWithoutzooms>) -> (r: Joined0)
        requires
            [[L: order/no_zoom_the_sender_is_dropped_before_the_writer_task_is_awaited]]
            log.closed(t.fut().rx()) is Some,
        ensures r.res == wt0_result(t.fut().file(), log.closed(t.fut().rx())->Some_0),
    { unimplemented!() }
}

/// BTreeMap<u64, u64> (resolution -> number of zoom records): ghost `view()`
#[verifier::external_body] pub struct CountMap { _p: u8 }
impl CountMap { pub uninterp spec fn view(&self) -> Map<u64, u64>; }

/// `V: BBIDataSource` and ONE whole pass `vals_iter.process_to_bbi(&runtime, &mut do_read, &mut advance)` with the
/// closures of write_vals: `do_read` captures chrom_sizes, chrom_ids, send, options, runtime, zoom_sizes (unit chrom_ids),
/// `advance` captures summary (unit sum_acc).  The captured variables become arguments.  `pass_out` = what the pass
/// leaves behind, as a function of the source and the read-only inputs -- PROVIDED it starts from the empty id map, no
/// summary and an empty channel (the labelled preconditions: that is the wiring this unit checks).
#[verifier::external_body] pub struct Vals { _p: u8 }
pub ghost struct PassOut { pub ids: IdMap, pub summary: Option<Summary>, pub msgs: Seq<Data> }
pub uninterp spec fn pass_out(v: Vals, sizes: StrMap, o: BBIWriteOptions, zooms: Seq<u32>) -> PassOut;
pub ghost struct PassOut0 { pub ids: IdMap, pub summary: Option<Summary>, pub msgs: Seq<DataWithoutzooms>, pub counts: Map<u64, u64> }
pub uninterp spec fn pass_out0(v: Vals, sizes: StrMap, o: BBIWriteOptions, counts0: Map<u64, u64>) -> PassOut0;
impl Vals {
    #[verifier::external_body]
    pub fn process_to_bbi_vals(&mut self, runtime: &Runtime, chrom_sizes: &StrMap, chrom_ids: &mut IdMap, send: &mut ChromTx<Data>,
            options: &BBIWriteOptions, zoom_sizes: &Vec<u32>, summary: &mut Option<Summary>) -> (r: Result<(), BBIProcessError>)
        requires
            [[L: pass/starts_from_the_empty_id_map]]
            *old(chrom_ids) == empty_ids(),
            [[L: pass/starts_without_a_summary]]
            *old(summary) is None,
            [[L: pass/starts_with_an_empty_channel]]
            old(send).sent().len() == 0,
        ensures
            final(send).cid() == old(send).cid(),
            r is Ok ==> *final(chrom_ids) == pass_out(*old(self), *chrom_sizes, *options, zoom_sizes@).ids
                && *final(summary) == pass_out(*old(self), *chrom_sizes, *options, zoom_sizes@).summary
                && final(send).sent() == pass_out(*old(self), *chrom_sizes, *options, zoom_sizes@).msgs,
    { unimplemented!() }
    #[verifier::external_body]
    pub fn process_to_bbi_no_zoom(&mut self, runtime: &Runtime, chrom_sizes: &StrMap, chrom_ids: &mut IdMap, send: &mut ChromTx<DataWithoutzooms>,
            options: &BBIWriteOptions, summary: &mut Option<Summary>, total_zoom_counts: &mut CountMap) -> (r: Result<(), BBIProcessError>)
        requires
            [[L: pass/no_zoom_starts_from_the_empty_id_map]]
            *old(chrom_ids) == empty_ids(),
            [[L: pass/no_zoom_starts_without_a_summary]]
            *old(summary) is None,
            [[L: pass/no_zoom_starts_with_an_empty_channel]]
            old(send).sent().len() == 0,
        ensures
            final(send).cid() == old(send).cid(),
            r is Ok ==> *final(chrom_ids) == pass_out0(*old(self), *chrom_sizes, *options, old(total_zoom_counts)@).ids
                && *final(summary) == pass_out0(*old(self), *chrom_sizes, *options, old(total_zoom_counts)@).summary
                && final(send).sent() == pass_out0(*old(self), *chrom_sizes, *options, old(total_zoom_counts)@).msgs
                && final(total_zoom_counts)@ == pass_out0(*old(self), *chrom_sizes, *options, old(total_zoom_counts)@).counts,
    { unimplemented!() }
}
/// `drop(x)` of anything else
fn vdrop<T>(_x: T) {}
/// `drop(zoom.2)`: the level's writer half (if still there) is dropped -- recorded per staging file
#[verifier::external_body]
pub struct DropLog { _p: u8 }
impl DropLog {
    pub uninterp spec fn dropped(&self, fid: int) -> bool;
    #[verifier::external_body]
    pub fn new() -> (r: DropLog) ensures forall|f: int| !r.dropped(f) { unimplemented!() }
    #[verifier::external_body]
    pub fn writer_dropped(&mut self, w: Option<ZoomWriter>)
        ensures forall|f: int| final(self).dropped(f) == (old(self).dropped(f) || (w matches Some(x) && x.fid() == f)),
    { unimplemented!() }
}

// =====================================================================================
// specification vocabulary
// =====================================================================================
pub open spec fn zero_summary() -> Summary {
    Summary { total_items: 0, bases_covered: 0, min_val: 0.0f64, max_val: 0.0f64, sum: 0.0f64, sum_squares: 0.0f64 }
}
pub open spec fn summary_or_zero(s: Option<Summary>) -> Summary { if s is Some { s->Some_0 } else { zero_summary() } }
/// zoom info k is built from entry k of the task's zoom map: its key, its staging file, its section lists
pub open spec fn info_of(z: ZoomInfo, e: (u32, ZoomValue)) -> bool {
    z.resolution == e.0 && z.data == e.1.1 && z.sections.lists() == e.1.0@
}
pub open spec fn infos_of(zs: Seq<ZoomInfo>, kv: Seq<(u32, ZoomValue)>) -> bool {
    zs.len() == kv.len() && forall|k: int| 0 <= k < kv.len() ==> info_of(#[trigger] zs[k], kv[k])
}
pub open spec fn writers_dropped(d: DropLog, kv: Seq<(u32, ZoomValue)>, n: int) -> bool {
    forall|k: int| 0 <= k < n ==> ((#[trigger] kv[k]).1.2 matches Some(w) ==> d.dropped(w.fid()))
}

// =====================================================================================
// write_vals
// =====================================================================================
#[verifier::loop_isolation(false)]
//@extract fn bigtools/src/bbi/bbiwrite.rs write_vals
//@presub /\Apub\(crate\) fn write_vals<.*?\n> \{\n/ => pub fn write_vals(mut vals_iter: Vals, file: OutFile, options: &BBIWriteOptions, runtime: Runtime, chrom_sizes: &StrMap) -> Result<(IdMap, Summary, OutFile, SecStream, Vec<ZoomInfo>, usize), BBIProcessError> {\n min=1 count=1
//@presub /    let make_zoom = \|size\| \{\n.*?\n    \};\n/ => "" min=1 count=1
//@presub /    let (?:mut )?zoom_sizes(?:: Vec<u32>)? = match &options\.manual_zoom_sizes \{.*?\n(    let zooms_map\b)/ =>     let zoom_sizes: Vec<u32> = single_pass_zoom_sizes(options);\n\1 min=1 count=1
//@presub /zoom_sizes\.iter\(\)\.copied\(\)\.map\(make_zoom\)\.collect\(\)/ => collect_zooms_map(&zoom_sizes, options) min=1 count=1
//@presub /\n    fn setup_chrom<.*?\n    \}\n/ => \n min=1 count=1
//@presub /    let mut do_read = \|chrom: String\|[^\n]*\{\n.*?\n    \};\n/ => "" min=1 count=1
//@presub /    let mut advance = \|p: P\| \{\n.*?\n    \};\n/ => "" min=1 count=1
//@presub /vals_iter\.process_to_bbi\(&runtime, &mut do_read, &mut advance\)/ => vals_iter.process_to_bbi_vals(&runtime, chrom_sizes, &mut chrom_ids, &mut send, options, &zoom_sizes, &mut summary) min=1 count=1
//@sub /BTreeMap<u32, ZoomValue>/ => ZMap min=0
//@sub /futures_mpsc::unbounded\(\)/ => unbounded() min=0
//@sub /\bdrop\(send\);/ => chan_log__.sender_dropped(send); min=0
//@sub /runtime\.block_on\((\w+)\)/ => runtime.block_on(\1, &chan_log__) min=0
//@sub /\bdrop\(zoom\.2\);/ => drop_log__.writer_dropped(zoom.2); min=0
//@sub /\bdrop\(/ => vdrop( min=0
//@sub /(\w+(?:\.\d+)?)\.into_iter\(\)\.flatten\(\)/ => flatten_lists(\1) min=0
//@sub /zooms_map\s*\.into_iter\(\)((?:\s*\.rev\(\))?)\s*\.map\(\|\(size, zoom\)\| \{\n(.*?)\n        \}\)\s*\.collect\(\);/ => { let mut it__ = zooms_map.into_iter()\1; let mut out__: Vec<ZoomInfo> = Vec::new();\n        loop {\n            let (size, zoom) = match it__.next() { Some(x__) => x__, None => break };\n            let item__ = {\n\2\n            };\n            out__.push(item__);\n        }\n        out__ }; min=0
//@ret r
//@sig
    ensures
        [[L: vals/writer_task_error_propagates]]
        r is Ok ==> wt_result(file, zmap0(zlist(*options), *options), pass_out(vals_iter, *chrom_sizes, *options, zlist(*options)).msgs) is Ok,
        [[L: vals/slot0_ids_are_the_ones_the_pass_built_from_the_empty_map]]
        r matches Ok(t) ==> t.0 == pass_out(vals_iter, *chrom_sizes, *options, zlist(*options)).ids,
        [[L: vals/slot1_summary_is_the_passes_or_all_zeros_when_there_was_no_chromosome]]
        r matches Ok(t) ==> t.1 == summary_or_zero(pass_out(vals_iter, *chrom_sizes, *options, zlist(*options)).summary),
        [[L: vals/slot2_file_is_the_one_the_writer_task_returns_for_the_file_handed_in_the_fresh_zoom_map_and_the_messages_of_the_pass]]
        r matches Ok(t) ==> t.2 == wt_result(file, zmap0(zlist(*options), *options), pass_out(vals_iter, *chrom_sizes, *options, zlist(*options)).msgs)->Ok_0.0,
        [[L: vals/slot3_sections_are_the_writer_tasks_section_lists_flattened_in_order]]
        r matches Ok(t) ==> t.3.lists() == wt_result(file, zmap0(zlist(*options), *options), pass_out(vals_iter, *chrom_sizes, *options, zlist(*options)).msgs)->Ok_0.2@,
        [[L: vals/slot4_one_zoom_info_per_level_in_resolution_order_with_that_levels_size_staging_file_and_section_lists]]
        r matches Ok(t) ==> infos_of(t.4@, wt_result(file, zmap0(zlist(*options), *options), pass_out(vals_iter, *chrom_sizes, *options, zlist(*options)).msgs)->Ok_0.3.kv()),
        [[L: vals/slot5_advertised_buffer_is_the_writer_tasks_maximum]]
        r matches Ok(t) ==> t.5 == wt_result(file, zmap0(zlist(*options), *options), pass_out(vals_iter, *chrom_sizes, *options, zlist(*options)).msgs)->Ok_0.1,
//@open
    let mut chan_log__: ChanLog<Data> = ChanLog::new();
    let mut drop_log__ = DropLog::new();
//@at /let write_fut = write_chroms_with_zooms\(/ after
    [[L: vals/wiring/writer_task_gets_the_file_handed_in_the_fresh_zoom_map_and_the_receiving_end_of_the_processors_channel]]
    assert(write_fut.file() == file && write_fut.zooms() == zmap0(zlist(*options), *options) && write_fut.rx() == send.cid());
//@loop 1
            invariant
                [[L: vals/zoom_infos/levels_consumed_in_key_order_one_info_each]]
                out__@.len() + it__.rest().len() == zooms_map_kv__.len(),
                it__.rest() == zooms_map_kv__.subrange(out__@.len() as int, zooms_map_kv__.len() as int),
                forall|k: int| 0 <= k < out__@.len() ==> info_of(#[trigger] out__@[k], zooms_map_kv__[k]),
                [[L: vals/zoom_infos/the_writer_half_of_every_level_so_far_is_dropped]]
                writers_dropped(drop_log__, zooms_map_kv__, out__@.len() as int),
            decreases
                [[L: vals/zoom_infos/termination]]
                it__.rest().len(),
//@at /let mut it__ = zooms_map\.into_iter\(\)/ before
    let ghost zooms_map_kv__ = zooms_map.kv();
//@at /let \(size, zoom\) = match it__\.next\(\)/ before
            proof {
                let a = out__@.len() as int;
                if a < zooms_map_kv__.len() {
                    assert(zooms_map_kv__.subrange(a, zooms_map_kv__.len() as int)[0] == zooms_map_kv__[a]);
                    assert(zooms_map_kv__.subrange(a, zooms_map_kv__.len() as int).drop_first() =~= zooms_map_kv__.subrange(a + 1, zooms_map_kv__.len() as int));
                }
            }
//@at /^\s*Ok\(\(\s*$/ before
    [[L: vals/every_returned_levels_writer_half_was_dropped]]
    assert(writers_dropped(drop_log__, zooms_map_kv__, zooms_map_kv__.len() as int));
//@end

} // verus!
fn main() {}
