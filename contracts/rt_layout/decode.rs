// ================= an independent reader's view of the image (unit rt_layout) =================
// `decodes(img, p, t, lvl)`: reading img with the arithmetic little-endian decoders dle16/dle32/dle64 of the
// shared prelude (no encoder function involved): at p there is a node header (isLeaf, reserved, count) and
// `count` items holding exactly the fields of t's items; for a non-leaf node, following the STORED
// dataOffset of item i leads to a position where child i decodes in the same way.
spec fn rd_leaf_item(img: Seq<u8>, q: int, x: Section) -> bool {
    &&& dle32(img, q) == x.chrom && dle32(img, q + 4) == x.start
    &&& dle32(img, q + 8) == x.chrom && dle32(img, q + 12) == x.end
    &&& dle64(img, q + 16) == x.offset && dle64(img, q + 24) == x.size
}
spec fn rd_nl_item(img: Seq<u8>, q: int, c: RTreeNode) -> bool {
    &&& dle32(img, q) == c.start_chrom_idx && dle32(img, q + 4) == c.start_base
    &&& dle32(img, q + 8) == c.end_chrom_idx && dle32(img, q + 12) == c.end_base
}
spec fn decodes(img: Seq<u8>, p: int, t: RTreeChildren, lvl: int) -> bool
    decreases lvl
{
    &&& 0 <= p && p + node_size(t) <= img.len()
    &&& match t {
        RTreeChildren::DataSections(v) => {
            &&& lvl == 0
            &&& img[p] == 1 && img[p + 1] == 0 && dle16(img, p + 2) == v@.len()
            &&& forall|i: int| 0 <= i < v@.len() ==> rd_leaf_item(img, p + 4 + 32 * i, #[trigger] v@[i])
        }
        RTreeChildren::Nodes(v) => {
            &&& lvl >= 1
            &&& img[p] == 0 && img[p + 1] == 0 && dle16(img, p + 2) == v@.len()
            &&& forall|i: int| 0 <= i < v@.len() ==> rd_nl_item(img, p + 4 + 24 * i, #[trigger] v@[i])
                    && decodes(img, dle64(img, p + 4 + 24 * i + 16), v@[i].children, lvl - 1)
        }
    }
}
/// the 48-byte header as a reader sees it
spec fn rd_header(img: Seq<u8>, h: int, block_size: u32, item_count: u64, st: (u32, u32), en: (u32, u32), end_of_data: u64, items_per_slot: u32) -> bool {
    &&& dle32(img, h) == 0x2468ACE0 && dle32(img, h + 4) == block_size && dle64(img, h + 8) == item_count
    &&& dle32(img, h + 16) == st.0 && dle32(img, h + 20) == st.1 && dle32(img, h + 24) == en.0 && dle32(img, h + 28) == en.1
    &&& dle64(img, h + 32) == end_of_data && dle32(img, h + 40) == items_per_slot && dle32(img, h + 44) == 0
}

// ---- little-endian codec inverses (unit-local, by bit-vector reasoning) and field readers over an embedded encoding ----
proof fn lemma_le16_inv(x: u16) ensures dle16(le16(x), 0) == x
{
    reveal(byte_of);
    assert(x % 256 < 256 && x / 256 % 256 < 256) by (bit_vector);
    assert(x == (x % 256) + 256 * (x / 256 % 256)) by (bit_vector);
}
proof fn lemma_le32_inv(x: u32) ensures dle32(le32(x), 0) == x
{
    reveal(byte_of);
    assert(x % 256 < 256 && x / 256 % 256 < 256 && x / 65536 % 256 < 256 && x / 16777216 % 256 < 256) by (bit_vector);
    assert(x == (x % 256) + 256 * (x / 256 % 256) + 65536 * (x / 65536 % 256) + 16777216 * (x / 16777216 % 256)) by (bit_vector);
}
proof fn lemma_le64_inv(x: u64) ensures dle64(le64(x), 0) == x
{
    reveal(byte_of);
    assert(x % 256 < 256 && x / 256 % 256 < 256 && x / 65536 % 256 < 256 && x / 16777216 % 256 < 256
        && x / 4294967296 % 256 < 256 && x / 1099511627776 % 256 < 256 && x / 281474976710656 % 256 < 256 && x / 72057594037927936 % 256 < 256) by (bit_vector);
    assert(x == (x % 256) + 256 * (x / 256 % 256) + 65536 * (x / 65536 % 256) + 16777216 * (x / 16777216 % 256)
        + 4294967296 * ((x / 4294967296 % 256) + 256 * (x / 1099511627776 % 256) + 65536 * (x / 281474976710656 % 256) + 16777216 * (x / 72057594037927936 % 256))) by (bit_vector);
}
proof fn lemma_rd32(img: Seq<u8>, q: int, it: Seq<u8>, off: int, x: u32)
    requires 0 <= q, 0 <= off, off + 4 <= it.len(), q + it.len() <= img.len(), seg(img, q, it.len() as int) == it, it.subrange(off, off + 4) == le32(x),
    ensures dle32(img, q + off) == x,
{
    let t = img.subrange(q + off, q + off + 4);
    assert(t =~= seg(img, q, it.len() as int).subrange(off, off + 4));
    lemma_le32_inv(x);
    assert(t[0] == img[q + off] && t[1] == img[q + off + 1] && t[2] == img[q + off + 2] && t[3] == img[q + off + 3]);
}
proof fn lemma_rd64(img: Seq<u8>, q: int, it: Seq<u8>, off: int, x: u64)
    requires 0 <= q, 0 <= off, off + 8 <= it.len(), q + it.len() <= img.len(), seg(img, q, it.len() as int) == it, it.subrange(off, off + 8) == le64(x),
    ensures dle64(img, q + off) == x,
{
    let t = img.subrange(q + off, q + off + 8);
    assert(t =~= seg(img, q, it.len() as int).subrange(off, off + 8));
    lemma_le64_inv(x);
    assert(t[0] == img[q + off] && t[1] == img[q + off + 1] && t[2] == img[q + off + 2] && t[3] == img[q + off + 3]
        && t[4] == img[q + off + 4] && t[5] == img[q + off + 5] && t[6] == img[q + off + 6] && t[7] == img[q + off + 7]);
}
proof fn lemma_rd16(img: Seq<u8>, q: int, it: Seq<u8>, off: int, x: u16)
    requires 0 <= q, 0 <= off, off + 2 <= it.len(), q + it.len() <= img.len(), seg(img, q, it.len() as int) == it, it.subrange(off, off + 2) == le16(x),
    ensures dle16(img, q + off) == x,
{
    let t = img.subrange(q + off, q + off + 2);
    assert(t =~= seg(img, q, it.len() as int).subrange(off, off + 2));
    lemma_le16_inv(x);
    assert(t[0] == img[q + off] && t[1] == img[q + off + 1]);
}
proof fn lemma_leaf_item_decodes(img: Seq<u8>, q: int, x: Section)
    requires 0 <= q, q + 32 <= img.len(), seg(img, q, 32) == put_leaf_item(Seq::<u8>::empty(), x),
    ensures rd_leaf_item(img, q, x),
{
    let it = put_leaf_item(Seq::<u8>::empty(), x);
    assert(it.len() == 32);
    assert(it.subrange(0, 4) =~= le32(x.chrom));
    assert(it.subrange(4, 8) =~= le32(x.start));
    assert(it.subrange(8, 12) =~= le32(x.chrom));
    assert(it.subrange(12, 16) =~= le32(x.end));
    assert(it.subrange(16, 24) =~= le64(x.offset));
    assert(it.subrange(24, 32) =~= le64(x.size));
    lemma_rd32(img, q, it, 0, x.chrom); lemma_rd32(img, q, it, 4, x.start);
    lemma_rd32(img, q, it, 8, x.chrom); lemma_rd32(img, q, it, 12, x.end);
    lemma_rd64(img, q, it, 16, x.offset); lemma_rd64(img, q, it, 24, x.size);
}
proof fn lemma_nl_item_decodes(img: Seq<u8>, q: int, c: RTreeNode, ptr: int)
    requires 0 <= q, q + 24 <= img.len(), 0 <= ptr <= u64::MAX, seg(img, q, 24) == put_nl_item(Seq::<u8>::empty(), c, ptr),
    ensures rd_nl_item(img, q, c), dle64(img, q + 16) == ptr,
{
    let it = put_nl_item(Seq::<u8>::empty(), c, ptr);
    assert(it.len() == 24);
    assert(it.subrange(0, 4) =~= le32(c.start_chrom_idx));
    assert(it.subrange(4, 8) =~= le32(c.start_base));
    assert(it.subrange(8, 12) =~= le32(c.end_chrom_idx));
    assert(it.subrange(12, 16) =~= le32(c.end_base));
    assert(it.subrange(16, 24) =~= le64(ptr as u64));
    lemma_rd32(img, q, it, 0, c.start_chrom_idx); lemma_rd32(img, q, it, 4, c.start_base);
    lemma_rd32(img, q, it, 8, c.end_chrom_idx); lemma_rd32(img, q, it, 12, c.end_base);
    lemma_rd64(img, q, it, 16, ptr as u64);
}
// ---- item i of a node sits at offset 32*i / 24*i of the item area ----
proof fn lemma_leaf_item_at(v: Seq<Section>, n: int, i: int)
    requires 0 <= i < n,
    ensures
        put_leaf_items(Seq::<u8>::empty(), v, n).len() == 32 * n,
        seg(put_leaf_items(Seq::<u8>::empty(), v, n), 32 * i, 32) == put_leaf_item(Seq::<u8>::empty(), v[i]),
    decreases n,
{
    let e = Seq::<u8>::empty();
    let p = put_leaf_items(e, v, n - 1);
    let whole = put_leaf_items(e, v, n);
    lemma_leaf_items_len(e, v, n);
    lemma_leaf_items_len(e, v, n - 1);
    assert(whole =~= p + put_leaf_item(e, v[n - 1]));
    if i == n - 1 {
        assert(seg(whole, 32 * i, 32) =~= put_leaf_item(e, v[n - 1]));
    } else {
        lemma_leaf_item_at(v, n - 1, i);
        assert(seg(whole, 32 * i, 32) =~= seg(p, 32 * i, 32));
    }
}
proof fn lemma_nl_item_at(s: Seq<RTreeNode>, kl: int, kidpos: int, n: int, i: int)
    requires 0 <= i < n,
    ensures
        put_nl_items(Seq::<u8>::empty(), s, kl, kidpos, n).len() == 24 * n,
        seg(put_nl_items(Seq::<u8>::empty(), s, kl, kidpos, n), 24 * i, 24) == put_nl_item(Seq::<u8>::empty(), s[i], kidpos + sz_kids(s, kl, kl, i)),
    decreases n,
{
    let e = Seq::<u8>::empty();
    let p = put_nl_items(e, s, kl, kidpos, n - 1);
    let whole = put_nl_items(e, s, kl, kidpos, n);
    let ptr = kidpos + sz_kids(s, kl, kl, n - 1);
    lemma_nl_items_len(e, s, kl, kidpos, n);
    lemma_nl_items_len(e, s, kl, kidpos, n - 1);
    assert(whole =~= p + put_nl_item(e, s[n - 1], ptr));
    if i == n - 1 {
        assert(seg(whole, 24 * i, 24) =~= put_nl_item(e, s[n - 1], ptr));
    } else {
        lemma_nl_item_at(s, kl, kidpos, n - 1, i);
        assert(seg(whole, 24 * i, 24) =~= seg(p, 24 * i, 24));
    }
}
/// header of a stored node as a reader sees it
proof fn lemma_node_hdr_decodes(img: Seq<u8>, p: int, t: RTreeChildren, lvl: int, kidpos: int, n: int, leaf: bool, items: Seq<u8>)
    requires
        node_bytes_at(img, p, t, lvl, kidpos), 0 <= n <= 65535,
        put_node(Seq::<u8>::empty(), t, lvl, kidpos) == put_hdr(Seq::<u8>::empty(), leaf, n) + items,
    ensures
        img[p] == (if leaf { 1u8 } else { 0u8 }), img[p + 1] == 0, dle16(img, p + 2) == n,
        forall|a: int, w: int| 0 <= a && 0 <= w && a + w <= items.len() ==> #[trigger] seg(img, p + 4 + a, w) == seg(items, a, w),
{
    let e = Seq::<u8>::empty();
    let nb = put_node(e, t, lvl, kidpos);
    let h = put_hdr(e, leaf, n);
    assert(h.len() == 4);
    assert(nb.len() == node_size(t)) by { lemma_node_len(e, t, lvl, kidpos); }
    assert(seg(img, p, node_size(t))[0] == nb[0]);
    assert(seg(img, p, node_size(t))[1] == nb[1]);
    assert(nb.subrange(2, 4) =~= le16(n as u16));
    lemma_rd16(img, p, nb, 2, n as u16);
    assert forall|a: int, w: int| 0 <= a && 0 <= w && a + w <= items.len() implies #[trigger] seg(img, p + 4 + a, w) == seg(items, a, w) by {
        assert(seg(img, p + 4 + a, w) =~= seg(img, p, node_size(t)).subrange(4 + a, 4 + a + w));
        assert(nb.subrange(4 + a, 4 + a + w) =~= seg(items, a, w));
    }
}
/// from positions to a reader: a stored well-formed subtree decodes at its root position
proof fn lemma_stored_decodes(img: Seq<u8>, t: RTreeChildren, cur: int, st: Seq<int>, b: int)
    requires stored(img, t, cur, st), wf(t, cur, b, true), b <= 65535, img.len() <= u64::MAX,
    ensures decodes(img, st[cur], t, cur),
    decreases cur,
{
    let e = Seq::<u8>::empty();
    let p = st[cur];
    let kidpos = if cur >= 1 { st[cur - 1] } else { 0 };
    match t {
        RTreeChildren::DataSections(v) => {
            let n = v@.len() as int;
            let items = put_leaf_items(e, v@, n);
            lemma_leaf_items_app(put_hdr(e, true, n), v@, n);
            lemma_leaf_items_len(e, v@, n);
            lemma_node_hdr_decodes(img, p, t, cur, kidpos, n, true, items);
            assert forall|i: int| 0 <= i < n implies rd_leaf_item(img, p + 4 + 32 * i, #[trigger] v@[i]) by {
                lemma_leaf_item_at(v@, n, i);
                assert(seg(img, p + 4 + 32 * i, 32) == seg(items, 32 * i, 32));
                lemma_leaf_item_decodes(img, p + 4 + 32 * i, v@[i]);
            }
        }
        RTreeChildren::Nodes(v) => {
            let s = v@;
            let n = s.len() as int;
            let kl = cur - 1;
            let items = put_nl_items(e, s, kl, kidpos, n);
            lemma_nl_items_app(put_hdr(e, false, n), s, kl, kidpos, n);
            lemma_nl_items_len(e, s, kl, kidpos, n);
            lemma_node_hdr_decodes(img, p, t, cur, kidpos, n, false, items);
            assert forall|i: int| 0 <= i < n implies rd_nl_item(img, p + 4 + 24 * i, #[trigger] s[i])
                    && decodes(img, dle64(img, p + 4 + 24 * i + 16), s[i].children, cur - 1) by {
                let kst = kid_st(st, s, kl, i);
                let ptr = kidpos + sz_kids(s, kl, kl, i);
                assert(stored(img, s[i].children, kl, kst));
                assert(kst[kl] == ptr);
                lemma_kid_wf(s, kl, b, true, i);
                lemma_stored_decodes(img, s[i].children, kl, kst, b);
                lemma_nl_item_at(s, kl, kidpos, n, i);
                assert(seg(img, p + 4 + 24 * i, 24) == seg(items, 24 * i, 24));
                lemma_nl_item_decodes(img, p + 4 + 24 * i, s[i], ptr);
            }
        }
    }
}
proof fn lemma_header_decodes(b0: Seq<u8>, rest: Seq<u8>, block_size: u32, item_count: u64, st: (u32, u32), en: (u32, u32), end_of_data: u64, items_per_slot: u32)
    requires fmt_cir_header(b0, block_size, item_count, st, en, end_of_data, items_per_slot).is_prefix_of(rest),
    ensures rd_header(rest, b0.len() as int, block_size, item_count, st, en, end_of_data, items_per_slot),
{
    let e = Seq::<u8>::empty();
    let hdr = fmt_cir_header(b0, block_size, item_count, st, en, end_of_data, items_per_slot);
    let h = b0.len() as int;
    let it = fmt_cir_header(e, block_size, item_count, st, en, end_of_data, items_per_slot);
    assert(it.len() == 48);
    assert(hdr =~= b0 + it);
    assert(seg(rest, h, 48) =~= it) by {
        assert(rest.subrange(0, hdr.len() as int) == hdr);
        assert forall|j: int| 0 <= j < 48 implies seg(rest, h, 48)[j] == it[j] by {
            assert(rest.subrange(0, hdr.len() as int)[h + j] == rest[h + j]);
        }
    }
    assert(it.subrange(0, 4) =~= le32(0x2468ACE0u32));
    assert(it.subrange(4, 8) =~= le32(block_size));
    assert(it.subrange(8, 16) =~= le64(item_count));
    assert(it.subrange(16, 20) =~= le32(st.0));
    assert(it.subrange(20, 24) =~= le32(st.1));
    assert(it.subrange(24, 28) =~= le32(en.0));
    assert(it.subrange(28, 32) =~= le32(en.1));
    assert(it.subrange(32, 40) =~= le64(end_of_data));
    assert(it.subrange(40, 44) =~= le32(items_per_slot));
    assert(it.subrange(44, 48) =~= le32(0u32));
    lemma_rd32(rest, h, it, 0, 0x2468ACE0u32); lemma_rd32(rest, h, it, 4, block_size); lemma_rd64(rest, h, it, 8, item_count);
    lemma_rd32(rest, h, it, 16, st.0); lemma_rd32(rest, h, it, 20, st.1); lemma_rd32(rest, h, it, 24, en.0); lemma_rd32(rest, h, it, 28, en.1);
    lemma_rd64(rest, h, it, 32, end_of_data); lemma_rd32(rest, h, it, 40, items_per_slot); lemma_rd32(rest, h, it, 44, 0u32);
}
/// THE reader-side theorem for the image that write_rtreeindex is proved to produce
proof fn lemma_index_decodes(b0: Seq<u8>, t: RTreeChildren, levels: int, block_size: u32, item_count: u64, items_per_slot: u32)
    requires
        wf(t, levels, block_size as int, true), levels >= 0, block_size <= 65535,
        b0.len() + 48 + above(t, levels, 0) <= u64::MAX,
    ensures
        [[L: theorem/reader_following_stored_pointers_from_the_root_finds_exactly_the_tree]]
        decodes(fmt_index(b0, t, levels, block_size, item_count, items_per_slot), b0.len() as int + 48, t, levels),
        [[L: theorem/reader_sees_the_published_header_with_the_root_bounds]]
        rd_header(fmt_index(b0, t, levels, block_size, item_count, items_per_slot), b0.len() as int, block_size, item_count,
                  root_start(t), root_end(t), b0.len() as u64, items_per_slot),
{
    let img = fmt_index(b0, t, levels, block_size, item_count, items_per_slot);
    let p0 = b0.len() as int + 48;
    let hdr = fmt_cir_header(b0, block_size, item_count, root_start(t), root_end(t), b0.len() as u64, items_per_slot);
    lemma_wf_depth(t, levels, block_size as int, true);
    lemma_index_stored(b0, t, levels, block_size, item_count, items_per_slot);
    assert(hdr.len() == p0);
    lemma_down_len(hdr, t, levels, 0, p0);
    lemma_stored_decodes(img, t, levels, top_st(t, levels, p0), block_size as int);
    lemma_down_prefix(hdr, t, levels, 0, p0);
    lemma_header_decodes(b0, img, block_size, item_count, root_start(t), root_end(t), b0.len() as u64, items_per_slot);
}
