//@unit feed_par
//@serves C01 C02 C13 C18
//@backend verus
// beddata::BedParserParallelStreamingIterator: the PARALLEL feeding protocol (one reader task per chromosome of the
// index, at most 5 in flight).  Unit `feed` proves the protocol for the serial source; this unit proves the same
// protocol for the parallel one, per chromosome:
//   (A) `chrom_task`  -- the `async move { .. }` block handed to `runtime.spawn` (R1: sequentialised): every item of the
//       task's window goes to `do_process(val, next)` exactly once, in order, `next` = the following item's value iff
//       that item parsed and is on the task's chromosome; parse error => SourceError at once; a line of ANOTHER
//       chromosome inside the window => refused (InvalidInput), never processed, never skipped.
//   (B) `process_to_bbi` -- chromosomes are taken in FILE order; chromosome k reads exactly the window
//       [offset_k, offset_{k+1}) of the file; start_processing once per index entry in file order; advance in the SAME
//       order, only after the entry's task returned Ok; out-of-order chromosome names refused before anything is started
//       for the offending entry; the `assert!(curr.1 != n.1)` cannot fire; both loops terminate.
//   (C) `lemma_parallel_equals_serial_per_chromosome` -- what the log of (A)+(B) is, chromosome by chromosome, written
//       with the vocabulary of unit `feed`.
// SEQUENTIALISATION (R1/R2): `runtime.spawn(task)` runs the task to completion AT SPAWN TIME; `block_on(handle)` only
// fetches the stored result.  Interleavings of tasks are NOT claimed; everything stated about the log is stated on
// per-chromosome projections and on the Start / Advance subsequences, which do not depend on the interleaving as long
// as each task's own events stay in task order.
use vstd::prelude::*;
use vstd::std_specs::cmp::PartialEqSpecImpl;
use std::collections::VecDeque;
verus! {
/// any re-ordering of the index other than the code's `reverse()` (`sort_by(..)`, `sort()`, ..): a permutation about which
/// nothing else is known -- present so that such an edit is judged
#[verifier::external_body]
fn sort_index_somehow(v: &mut Vec<(u64, Name)>) ensures final(v)@.len() == old(v)@.len() { unimplemented!() }


// ---------------- repository types (error enums), generics / derive attributes shimmed ----------------
//@extract enum bigtools/src/bbi/bbiwrite.rs ProcessDataError
//@rule R8
//@sub /[ \t]*#\[error\([^\n]*\)\]\n/ => "" min=3
//@sub /#\[from\] io::Error/ => IoErr
//@end
// R11: the generic parameter `SourceError: Error` is instantiated with the parallel source's
// `type Error = BedValueError`.
//@extract enum bigtools/src/bbi/bbiwrite.rs BBIProcessError
//@rule R8
//@sub /[ \t]*#\[error\([^\n]*\)\]\n/ => "" min=4
//@sub /#\[from\] io::Error/ => IoErr
//@sub /<SourceError: Error>/ => "" min=1
//@sub /SourceError\(SourceError\)/ => SourceError(BedValueError) min=1
//@end
//@extract enum bigtools/src/bed/bedparser.rs BedValueError
//@rule R8
//@sub /[ \t]*#\[error\([^\n]*\)\]\n/ => "" min=2
//@sub /#\[from\] io::Error/ => IoErr
//@end
// `impl<E: Error> From<ProcessDataError> for BBIProcessError<E>`: the conversion behind `start_processing(..)?` and
// `do_process(..).await?`, extracted as a free function.
//@extract method bigtools/src/bbi/bbiwrite.rs from "From<ProcessDataError> for BBIProcessError"
//@rule R16
//@sub /fn from\(value: ProcessDataError\) -> Self/ => fn pde_into(value: ProcessDataError) -> BBIProcessError min=1
//@end

// ---------------- shims (each one is a listed assumption) ----------------
/// `std::io::Error`
#[verifier::external_body]
pub struct IoErr { _p: u8 }
impl IoErr {
    /// `impl From<io::Error> for BedValueError` (thiserror `#[from]`)
    #[verifier::external_body]
    pub fn into(self) -> (r: BedValueError)
        ensures r == BedValueError::IoError(self)
    { unimplemented!() }
}
/// text of the error messages (`"..".to_string()`): dropped
#[verifier::external_body]
fn err_msg() -> String { unimplemented!() }

/// One value of the stream (`V`: `Value` for bigWig, `BedEntry` for bigBed).  The feeder is generic in it: it can only
/// move it and lend it.  Not Copy/Clone: it cannot be duplicated.
pub struct Val { pub payload: u64 }

/// Chromosome name (`&str` from the reader, `String` once owned): an opaque value with a byte content; `==` / `!=` is
/// equality of the bytes (true of `str`/`String`); `>` etc. is an UNINTERPRETED relation on the byte strings.
#[verifier::external_body]
pub struct Name { _p: Vec<u8> }
impl Name {
    pub uninterp spec fn view(&self) -> Seq<u8>;
    /// `String::clone`
    #[verifier::external_body]
    pub fn clone(&self) -> (r: Name)
        ensures r@ == self@
    { unimplemented!() }
    /// `str::to_string`
    #[verifier::external_body]
    pub fn to_string(&self) -> (r: Name)
        ensures r@ == self@
    { unimplemented!() }
    /// `String::as_str`
    pub fn as_str(&self) -> (r: &Name)
        ensures r == self
    { self }
}
impl PartialEqSpecImpl for Name {
    open spec fn obeys_eq_spec() -> bool { true }
    open spec fn eq_spec(&self, o: &Name) -> bool { self@ == o@ }
}
impl PartialEq for Name {
    #[verifier::external_body]
    fn eq(&self, o: &Name) -> (r: bool)
    { unimplemented!() }
}
/// `a > b`, `a < b`, `a >= b`, `a <= b` on `String`: each assumed to be SOME deterministic relation of the two byte
/// strings (nothing else: they are four unrelated symbols, so swapping one for another is visible)
pub uninterp spec fn gt(a: Seq<u8>, b: Seq<u8>) -> bool;
pub uninterp spec fn lt(a: Seq<u8>, b: Seq<u8>) -> bool;
pub uninterp spec fn ge(a: Seq<u8>, b: Seq<u8>) -> bool;
pub uninterp spec fn le(a: Seq<u8>, b: Seq<u8>) -> bool;
#[verifier::external_body]
fn name_gt(a: &Name, b: &Name) -> (r: bool) ensures r == gt(a@, b@) { unimplemented!() }
#[verifier::external_body]
fn name_lt(a: &Name, b: &Name) -> (r: bool) ensures r == lt(a@, b@) { unimplemented!() }
#[verifier::external_body]
fn name_ge(a: &Name, b: &Name) -> (r: bool) ensures r == ge(a@, b@) { unimplemented!() }
#[verifier::external_body]
fn name_le(a: &Name, b: &Name) -> (r: bool) ensures r == le(a@, b@) { unimplemented!() }

pub type Item = Result<(Name, Val), BedValueError>;

/// `Parser<V>` (a fn pointer, Copy): opaque identity
#[derive(Clone, Copy)]
pub struct ParserFn { pub id: u8 }

/// THE ITEMS OF A WINDOW: what a `BedFileStream` over `FileView(file, a, b)` hands out until it is exhausted.  Units
/// `fview` (the view behaves like bytes [a, b) in isolation) and `bedparse` (`BedFileStream::next`: one item per line,
/// in order, each the parse of its line, I/O errors passed on) say what it is; here it is an uninterpreted function of
/// (parser, file content, a, b): a DETERMINISTIC stream (I/O errors are treated as part of the file).
pub uninterp spec fn win_items(parse: ParserFn, content: Seq<u8>, a: int, b: int) -> Seq<Item>;

/// `PathBuf` of the input file: ghost content of the file it names (ASSUMED not to change during the call: every
/// `File::open` sees the same bytes)
#[verifier::external_body]
pub struct VPath { _p: u8 }
impl VPath {
    pub uninterp spec fn content(&self) -> Seq<u8>;
    /// hypothesis "opening and seeking never fails" (a constant of the path)
    pub uninterp spec fn reliable(&self) -> bool;
}
/// `std::fs::File`
#[verifier::external_body]
pub struct VFile { _p: u8 }
impl VFile {
    pub uninterp spec fn content(&self) -> Seq<u8>;
    pub uninterp spec fn reliable(&self) -> bool;
}
/// `File::open(&self.path)`
#[verifier::external_body]
fn open_file(path: &VPath) -> (r: Result<VFile, IoErr>)
    ensures
        path.reliable() ==> r is Ok,
        r matches Ok(f) ==> f.content() == path.content() && f.reliable() == path.reliable(),
        // a file has fewer than 2^64 bytes (its length is a u64)
        r is Ok ==> path.content().len() <= u64::MAX,
{ unimplemented!() }
/// `FileView` (unit fview): the window [start, end) of the file
#[verifier::external_body]
pub struct FileView { _p: u8 }
impl FileView {
    pub uninterp spec fn content(&self) -> Seq<u8>;
    pub uninterp spec fn start(&self) -> int;
    pub uninterp spec fn end(&self) -> int;
    /// `FileView::new` with the contract of unit fview: `new/pre_window_inside_file` is a REAL precondition there
    /// (S4: the window is not validated) and is discharged here at the call site;
    /// `new/window_is_requested_range_clamped_to_file`.  May fail (it seeks).
    #[verifier::external_body]
    pub fn new(file: VFile, start: u64, end: u64) -> (r: Result<FileView, IoErr>)
        requires
            start <= end,
            start <= file.content().len(),
        ensures
            file.reliable() ==> r is Ok,
            r matches Ok(v) ==> v.content() == file.content() && v.start() == start
                && v.end() == (if end <= file.content().len() { end as int } else { file.content().len() as int }),
    { unimplemented!() }
}
/// `BufReader::new`: buffering is transparent
fn buf_reader_new(v: FileView) -> (r: FileView) ensures r == v { v }
/// `StreamingLineReader<BufReader<FileView>>` seen through the items still to come for a given parser
#[verifier::external_body]
pub struct StreamingLineReader { _p: u8 }
impl StreamingLineReader {
    pub uninterp spec fn items(&self, parse: ParserFn) -> Seq<Item>;
    /// `StreamingLineReader::new` (unit bedparse: `new/starts_at_the_first_line`)
    #[verifier::external_body]
    pub fn new(v: FileView) -> (r: StreamingLineReader)
        ensures forall|parse: ParserFn| #[trigger] r.items(parse) == win_items(parse, v.content(), v.start(), v.end()),
    { unimplemented!() }
}
/// `BedFileStream<V, BufReader<FileView>>` (struct of bedparser.rs; its fields are set by a struct literal in
/// process_to_bbi).  ASSUMED contract of `StreamingBedValues::next` (unit bedparse, `next/file_*`): a finite queue of
/// items handed out in order; `None` when exhausted, and it stays exhausted.  `&str` names borrowed from the reader are
/// modelled as owned `Name` values.
pub struct BedFileStream { pub bed: StreamingLineReader, pub parse: ParserFn }
impl BedFileStream {
    pub open spec fn rest(&self) -> Seq<Item> { self.bed.items(self.parse) }
    #[verifier::external_body]
    pub fn next(&mut self) -> (r: Option<Item>)
        ensures
            final(self).parse == old(self).parse,
            old(self).rest().len() == 0 ==> r.is_none() && final(self).rest() == old(self).rest(),
            old(self).rest().len() > 0 ==> r == Some(old(self).rest()[0]) && final(self).rest() == old(self).rest().drop_first(),
    { unimplemented!() }
}

/// what the environment observes (same events as unit feed)
pub ghost enum Event {
    Start(Seq<u8>),
    Value(Seq<u8>, Val, Option<Val>),
    Advance(Seq<u8>),
}
pub open spec fn opt_val(o: Option<&Val>) -> Option<Val> {
    match o { Some(v) => Some(*v), None => None }
}
/// The two closures `start_processing: FnMut(String) -> Result<P, ProcessDataError>`, `advance: FnMut(P)` and the
/// processor `P: BBIDataProcessor` are replaced by one environment that logs every SUCCESSFUL call (same shim as unit
/// feed).  `start_processing` and `do_process` may fail (then they log nothing); `reliable()` is the hypothesis "the
/// environment never fails" (a constant of it).
#[verifier::external_body]
pub struct Env { _p: u8 }
#[verifier::external_body]
pub struct Proc { _p: u8 }
impl Env {
    pub uninterp spec fn log(&self) -> Seq<Event>;
    /// number of successful `do_process` calls so far
    pub uninterp spec fn nvalues(&self) -> nat;
    pub uninterp spec fn reliable(&self) -> bool;
    #[verifier::external_body]
    fn start_processing(&mut self, chrom: Name) -> (r: Result<Proc, ProcessDataError>)
        ensures
            final(self).reliable() == old(self).reliable(),
            final(self).nvalues() == old(self).nvalues(),
            old(self).reliable() ==> r.is_ok(),
            r.is_ok() ==> r->Ok_0.name() == chrom@ && final(self).log() == old(self).log().push(Event::Start(chrom@)),
            r.is_err() ==> final(self).log() == old(self).log(),
    { unimplemented!() }
    #[verifier::external_body]
    fn advance(&mut self, p: Proc)
        ensures
            final(self).reliable() == old(self).reliable(),
            final(self).nvalues() == old(self).nvalues(),
            final(self).log() == old(self).log().push(Event::Advance(p.name())),
    { unimplemented!() }
}
impl Proc {
    pub uninterp spec fn name(&self) -> Seq<u8>;
    #[verifier::external_body]
    fn do_process(&mut self, env: &mut Env, val: Val, next: Option<&Val>) -> (r: Result<(), ProcessDataError>)
        ensures
            final(self).name() == old(self).name(),
            final(env).reliable() == old(env).reliable(),
            old(env).reliable() ==> r.is_ok(),
            r.is_ok() ==> final(env).log() == old(env).log().push(Event::Value(old(self).name(), val, opt_val(next)))
                && final(env).nvalues() == old(env).nvalues() + 1,
            r.is_err() ==> final(env).log() == old(env).log() && final(env).nvalues() == old(env).nvalues(),
    { unimplemented!() }
}

// ---------------- specification vocabulary: one chromosome ----------------
pub open spec fn nm(q: Seq<Item>, k: int) -> Seq<u8> { q[k]->Ok_0.0@ }
pub open spec fn vl(q: Seq<Item>, k: int) -> Val { q[k]->Ok_0.1 }
/// item k parsed and is on chromosome c
pub open spec fn own(q: Seq<Item>, k: int, c: Seq<u8>) -> bool { q[k] is Ok && nm(q, k) == c }
pub open spec fn all_own(q: Seq<Item>, n: int, c: Seq<u8>) -> bool { forall|k: int| 0 <= k < n ==> #[trigger] own(q, k, c) }
/// THE FEEDING PROTOCOL inside one window: the `next` handed over with item k is the following item iff that one
/// exists, parsed, and is on the task's chromosome
pub open spec fn tnxt(q: Seq<Item>, k: int, c: Seq<u8>) -> Option<Val> {
    if k + 1 < q.len() && own(q, k + 1, c) { Some(vl(q, k + 1)) } else { None }
}
/// the log after the first n items of the window were handed to the processor named pn (left-associated, in the
/// order the events happen): one `Value` per item, in window order
pub open spec fn tlog(base: Seq<Event>, q: Seq<Item>, n: int, pn: Seq<u8>, c: Seq<u8>) -> Seq<Event>
    decreases n
{
    if n <= 0 { base } else { tlog(base, q, n - 1, pn, c).push(Event::Value(pn, vl(q, n - 1), tnxt(q, n - 1, c))) }
}

// =====================================================================================
// (A) the per-chromosome task
// =====================================================================================
// Carve-out (presub, R11): everything of process_to_bbi up to and including `runtime.spawn(async move {` becomes the
// signature below, everything from the block's closing `});` on becomes `}`.  The block's text is kept verbatim; its
// captured variables (`stream`, `p`, `curr_chrom`, all moved in) are the parameters, the environment is threaded
// explicitly.  R1 then removes `.await` (the regex `\basync\s+fn\b|\s*\.await\b` touches nothing else; `async move {`
// is consumed by the presub).
// loop_isolation(false): the postconditions at the `return`s inside the loop talk about the PARAMETERS `stream`, `p`
// (shadowed by `let mut` copies in the body), which a loop invariant cannot name.
#[verifier::loop_isolation(false)]
//@extract method bigtools/src/bbi/beddata.rs process_to_bbi "BBIDataSource for BedParserParallelStreamingIterator"
//@rule R16
//@as chrom_task
//@presub /\A.*?runtime\s*\.\s*spawn\(\s*async move \{/ => fn chrom_task(stream: BedFileStream, p: Proc, curr_chrom: Name, env: &mut Env) -> Result<Proc, BBIProcessError> { min=1 count=1
//@presub /\}\);\s*queued_reads\.push.*\Z/ => } min=1 count=1
//@rule R1
//@rule R15
//@sub /Option<Result<\(&str, V\), BedValueError>>/ => Option<Item> min=0
//@sub /\.do_process\(/ => .do_process(env,  min=0
//@sub /([\w\.]+\([^;\n]*\))\?;/ => (match \1 { Ok(v__) => v__, Err(e__) => return Err(pde_into(e__)) }); min=0
//@sub /"[^"\n]*"\s*\.to_string\(\)/ => err_msg() min=0
//@ret r
//@sig
    ensures
        [[L: ok_means_every_item_of_the_window_processed_once_in_order]]
        r is Ok ==> all_own(stream.rest(), stream.rest().len() as int, curr_chrom@)
            && final(env).log() == tlog(old(env).log(), stream.rest(), stream.rest().len() as int, p.name(), curr_chrom@)
            && final(env).nvalues() == old(env).nvalues() + stream.rest().len(),
        [[L: ok_returns_the_processor_it_was_given]]
        r matches Ok(p2) ==> p2.name() == p.name(),
        [[L: error_stops_at_once_log_is_the_protocol_prefix]]
        r is Err ==> ({
            let i = final(env).nvalues() - old(env).nvalues();
            &&& 0 <= i < stream.rest().len()
            &&& all_own(stream.rest(), i, curr_chrom@)
            &&& final(env).log() == tlog(old(env).log(), stream.rest(), i, p.name(), curr_chrom@)
        }),
        [[L: parse_error_is_returned_as_source_error]]
        r is Err ==> ({
            let i = final(env).nvalues() - old(env).nvalues();
            stream.rest()[i] matches Err(e) ==> r == Err::<Proc, BBIProcessError>(BBIProcessError::SourceError(e))
        }),
        [[L: line_of_another_chromosome_is_refused_not_processed_not_skipped]]
        r is Err ==> ({
            let i = final(env).nvalues() - old(env).nvalues();
            stream.rest()[i] is Ok && nm(stream.rest(), i) != curr_chrom@ ==> r->Err_0 is InvalidInput
        }),
        [[L: no_spurious_failure]]
        r is Err && old(env).reliable() ==> !own(stream.rest(), final(env).nvalues() - old(env).nvalues(), curr_chrom@),
        [[L: succeeds_on_a_window_of_parsed_own_lines]]
        all_own(stream.rest(), stream.rest().len() as int, curr_chrom@) && old(env).reliable() ==> r is Ok,
        [[L: frame]]
        final(env).reliable() == old(env).reliable(),
//@open
    let mut stream = stream;
    let mut p = p;
    let ghost q = stream.rest();
    let ghost len = q.len() as int;
    let ghost log0 = env.log();
    let ghost nv0 = env.nvalues();
    let ghost pn = p.name();
    let ghost i: int = 0;
//@loop 1
        invariant
            [[L: loop/progress]]
            0 <= i <= len, len == q.len(),
            log0 == old(env).log(), nv0 == old(env).nvalues(),
            env.reliable() == old(env).reliable(),
            p.name() == pn,
            [[L: loop/pending_item_is_window_item_i]]
            match next_val {
                Some(nv) => i < len && q[i] == nv && stream.rest() == q.subrange(i + 1, len),
                None => stream.rest() == q.subrange(i, len),
            },
            [[L: loop/all_processed_items_parsed_and_own]]
            all_own(q, i, curr_chrom@),
            [[L: loop/log_is_protocol_prefix]]
            env.log() == tlog(log0, q, i, pn, curr_chrom@),
            env.nvalues() == nv0 + i,
        decreases
            [[L: loop/termination]]
            len - i,
//@at /let curr_value = match next_val\.take\(\)/ before optional
                            let ghost nv_before = next_val;
                            let ghost rest_before = stream.rest();
//@at /next_val = match curr_value \{/ before optional
                            proof {
                                [[L: loop/fetched_item_is_window_item_i]]
                                if nv_before is None && i < len {
                                    assert(rest_before[0] == q[i]);
                                    assert(rest_before.drop_first() =~= q.subrange(i + 1, len));
                                }
                            }
//@at /let next_val = stream\.next\(\);/ after optional
                                    proof {
                                        [[L: loop/lookahead_item_is_window_item_i_plus_1]]
                                        if i + 1 < len {
                                            assert(q.subrange(i + 1, len)[0] == q[i + 1]);
                                            assert(q.subrange(i + 1, len).drop_first() =~= q.subrange(i + 2, len));
                                        }
                                    }
//@at /do_process\(/ after optional
                                    proof { i = i + 1; }
//@end

// =====================================================================================
// (B) the outer loop: index entries -> windows -> tasks -> advance
// =====================================================================================
// ---------------- specification vocabulary: the whole index ----------------
pub open spec fn ev_name(e: Event) -> Seq<u8> {
    match e { Event::Start(c) => c, Event::Value(c, _, _) => c, Event::Advance(c) => c }
}
/// the events of chromosome c, in log order.  Everything (B) says about values is said on these projections: they do
/// not depend on how the tasks interleave.
pub open spec fn proj(lg: Seq<Event>, c: Seq<u8>) -> Seq<Event>
    decreases lg.len()
{
    if lg.len() == 0 { Seq::empty() } else {
        let p = proj(lg.drop_last(), c);
        if ev_name(lg.last()) == c { p.push(lg.last()) } else { p }
    }
}
/// names started / advanced, in log order (as in unit feed)
pub open spec fn starts_of(lg: Seq<Event>) -> Seq<Seq<u8>>
    decreases lg.len()
{
    if lg.len() == 0 { Seq::empty() } else {
        let p = starts_of(lg.drop_last());
        match lg.last() { Event::Start(c) => p.push(c), _ => p }
    }
}
pub open spec fn advances_of(lg: Seq<Event>) -> Seq<Seq<u8>>
    decreases lg.len()
{
    if lg.len() == 0 { Seq::empty() } else {
        let p = advances_of(lg.drop_last());
        match lg.last() { Event::Advance(c) => p.push(c), _ => p }
    }
}
pub type Entry = (u64, Name);
/// THE INDEX IN FILE ORDER: the struct stores it reversed (`new`), `pop()` takes entries from the back
pub open spec fn file_order(stored: Seq<Entry>) -> Seq<Entry> {
    Seq::new(stored.len(), |k: int| stored[stored.len() - 1 - k])
}
pub open spec fn cname(ix: Seq<Entry>, k: int) -> Seq<u8> { ix[k].1@ }
pub open spec fn names(ix: Seq<Entry>, n: int) -> Seq<Seq<u8>> { Seq::new(n as nat, |k: int| cname(ix, k)) }
/// end of chromosome k's window: the next entry's offset; the end of the file for the last entry
pub open spec fn wend(ix: Seq<Entry>, k: int, flen: int) -> int { if k + 1 < ix.len() { ix[k + 1].0 as int } else { flen } }
/// C18: the items chromosome k's reader sees = the items of the bytes [offset_k, offset_{k+1})
pub open spec fn window(parse: ParserFn, content: Seq<u8>, ix: Seq<Entry>, k: int) -> Seq<Item> {
    win_items(parse, content, ix[k].0 as int, wend(ix, k, content.len() as int))
}
pub open spec fn offsets_increase(ix: Seq<Entry>) -> bool { forall|i: int, j: int| 0 <= i < j < ix.len() ==> (#[trigger] ix[i]).0 < (#[trigger] ix[j]).0 }
pub open spec fn offsets_inside(ix: Seq<Entry>, flen: int) -> bool { forall|i: int| 0 <= i < ix.len() ==> (#[trigger] ix[i]).0 <= flen }
pub open spec fn distinct_names(ix: Seq<Entry>) -> bool { forall|i: int, j: int| 0 <= i < j < ix.len() ==> #[trigger] cname(ix, i) != #[trigger] cname(ix, j) }
pub open spec fn is_index_name(ix: Seq<Entry>, c: Seq<u8>) -> bool { exists|k: int| 0 <= k < ix.len() && #[trigger] cname(ix, k) == c }
/// entries 0..s pass the order check `!(name_k > name_{k+1})`
pub open spec fn sorted_upto(ix: Seq<Entry>, s: int) -> bool { forall|k: int| 0 <= k < s && k + 1 < ix.len() ==> !gt(#[trigger] cname(ix, k), cname(ix, k + 1)) }
/// chromosome c's events once it was started and its task handed over m items: Start, then the task protocol (A)
pub open spec fn started(p0: Seq<Event>, w: Seq<Item>, m: int, c: Seq<u8>) -> Seq<Event> { tlog(p0.push(Event::Start(c)), w, m, c, c) }
/// ... and once it was advanced: the whole window, then Advance
pub open spec fn finished(p0: Seq<Event>, w: Seq<Item>, c: Seq<u8>) -> Seq<Event> { started(p0, w, w.len() as int, c).push(Event::Advance(c)) }
/// state of chromosome k when a entries were advanced and s started (ms[k] = items its task handed over)
pub open spec fn chrom_ok(lg: Seq<Event>, lg0: Seq<Event>, ix: Seq<Entry>, parse: ParserFn, content: Seq<u8>, a: int, s: int, ms: Seq<int>, k: int) -> bool {
    let c = cname(ix, k);
    let w = window(parse, content, ix, k);
    let p0 = proj(lg0, c);
    if k < a { all_own(w, w.len() as int, c) && proj(lg, c) == finished(p0, w, c) }
    else if k < s { 0 <= ms[k] <= w.len() && all_own(w, ms[k], c) && proj(lg, c) == started(p0, w, ms[k], c) }
    else { proj(lg, c) == p0 }
}
/// THE STATE OF THE LOG at every point of (B) (and at every return, Ok or Err): entries 0..a are finished, a..s
/// started (their tasks ran, completely or up to their error), s.. untouched; nothing under any other name; Starts in
/// file order, Advances in the same order
pub open spec fn inv(lg: Seq<Event>, lg0: Seq<Event>, ix: Seq<Entry>, parse: ParserFn, content: Seq<u8>, a: int, s: int, ms: Seq<int>) -> bool {
    &&& 0 <= a <= s <= ix.len()
    &&& ms.len() == s
    &&& forall|k: int| 0 <= k < ix.len() ==> #[trigger] chrom_ok(lg, lg0, ix, parse, content, a, s, ms, k)
    &&& forall|c: Seq<u8>| !is_index_name(ix, c) ==> #[trigger] proj(lg, c) == proj(lg0, c)
    &&& starts_of(lg) == starts_of(lg0) + names(ix, s)
    &&& advances_of(lg) == advances_of(lg0) + names(ix, a)
}
/// what a finished task's result says about its window (from (A)'s contract), m = items it handed over
pub open spec fn task_outcome(res: Result<Proc, BBIProcessError>, w: Seq<Item>, m: int, c: Seq<u8>, rel: bool) -> bool {
    &&& res matches Ok(p) ==> m == w.len() && p.name() == c
    &&& res is Err ==> 0 <= m < w.len()
    &&& res is Err ==> (w[m] matches Err(e) ==> res == Err::<Proc, BBIProcessError>(BBIProcessError::SourceError(e)))
    &&& res is Err ==> (w[m] is Ok && nm(w, m) != c ==> res->Err_0 is InvalidInput)
    &&& res is Err && rel ==> !own(w, m, c)
}
pub open spec fn queue_ok(qs: Seq<TaskHandle>, ix: Seq<Entry>, parse: ParserFn, content: Seq<u8>, a: int, s: int, ms: Seq<int>, rel: bool) -> bool {
    &&& qs.len() == s - a
    &&& forall|j: int| 0 <= j < s - a ==> task_outcome((#[trigger] qs[j]).result(), window(parse, content, ix, a + j), ms[a + j], cname(ix, a + j), rel)
}
/// hypothesis "no line is misplaced or malformed": every window holds parsed lines of its own chromosome only.  For a
/// grouped file and the index of unit `index` (offsets = run starts) this holds: see NOTES.
pub open spec fn windows_pure(ix: Seq<Entry>, parse: ParserFn, content: Seq<u8>) -> bool {
    forall|k: int| 0 <= k < ix.len() ==> all_own(#[trigger] window(parse, content, ix, k), window(parse, content, ix, k).len() as int, cname(ix, k))
}

proof fn lemma_push(s: Seq<Event>, e: Event, c: Seq<u8>)
    ensures
        proj(s.push(e), c) == (if ev_name(e) == c { proj(s, c).push(e) } else { proj(s, c) }),
        starts_of(s.push(e)) == (match e { Event::Start(x) => starts_of(s).push(x), _ => starts_of(s) }),
        advances_of(s.push(e)) == (match e { Event::Advance(x) => advances_of(s).push(x), _ => advances_of(s) }),
{
    assert(s.push(e).drop_last() =~= s);
    assert(s.push(e).last() == e);
}
/// a task's events are all under its processor's name: they extend that projection and no other
proof fn lemma_tlog(base: Seq<Event>, w: Seq<Item>, m: int, pn: Seq<u8>, c: Seq<u8>, c2: Seq<u8>)
    requires 0 <= m,
    ensures
        proj(tlog(base, w, m, pn, c), c2) == (if c2 == pn { tlog(proj(base, c2), w, m, pn, c) } else { proj(base, c2) }),
        starts_of(tlog(base, w, m, pn, c)) == starts_of(base),
        advances_of(tlog(base, w, m, pn, c)) == advances_of(base),
    decreases m
{
    if m > 0 {
        lemma_tlog(base, w, m - 1, pn, c, c2);
        lemma_push(tlog(base, w, m - 1, pn, c), Event::Value(pn, vl(w, m - 1), tnxt(w, m - 1, c)), c2);
    }
}
/// entry s was started and its task handed over m items: inv moves from (a, s) to (a, s+1)
proof fn lemma_spawned(lg: Seq<Event>, lg0: Seq<Event>, ix: Seq<Entry>, parse: ParserFn, content: Seq<u8>, a: int, s: int, ms: Seq<int>, m: int, lg2: Seq<Event>)
    requires
        inv(lg, lg0, ix, parse, content, a, s, ms), s < ix.len(), distinct_names(ix),
        0 <= m <= window(parse, content, ix, s).len(),
        all_own(window(parse, content, ix, s), m, cname(ix, s)),
        lg2 == tlog(lg.push(Event::Start(cname(ix, s))), window(parse, content, ix, s), m, cname(ix, s), cname(ix, s)),
    ensures
        inv(lg2, lg0, ix, parse, content, a, s + 1, ms.push(m)),
{
    let cs = cname(ix, s);
    let w = window(parse, content, ix, s);
    let lg1 = lg.push(Event::Start(cs));
    let ms2 = ms.push(m);
    assert(chrom_ok(lg, lg0, ix, parse, content, a, s, ms, s));
    assert forall|k: int| 0 <= k < ix.len() implies #[trigger] chrom_ok(lg2, lg0, ix, parse, content, a, s + 1, ms2, k) by {
        let c = cname(ix, k);
        assert(chrom_ok(lg, lg0, ix, parse, content, a, s, ms, k));
        lemma_push(lg, Event::Start(cs), c);
        lemma_tlog(lg1, w, m, cs, cs, c);
        if k < s { assert(cname(ix, k) != cname(ix, s)); assert(ms2[k] == ms[k]); }
        else if k > s { assert(cname(ix, s) != cname(ix, k)); }
        else { assert(ms2[k] == m); }
    }
    assert forall|c: Seq<u8>| !is_index_name(ix, c) implies #[trigger] proj(lg2, c) == proj(lg0, c) by {
        assert(cname(ix, s) == cs);
        assert(is_index_name(ix, cs));
        lemma_push(lg, Event::Start(cs), c);
        lemma_tlog(lg1, w, m, cs, cs, c);
    }
    lemma_push(lg, Event::Start(cs), cs);
    lemma_tlog(lg1, w, m, cs, cs, cs);
    assert(names(ix, s).push(cs) =~= names(ix, s + 1));
    assert((starts_of(lg0) + names(ix, s)).push(cs) =~= starts_of(lg0) + names(ix, s + 1));
}
/// entry a (whose task handed over its whole window) was advanced: inv moves from (a, s) to (a+1, s)
proof fn lemma_advanced(lg: Seq<Event>, lg0: Seq<Event>, ix: Seq<Entry>, parse: ParserFn, content: Seq<u8>, a: int, s: int, ms: Seq<int>)
    requires
        inv(lg, lg0, ix, parse, content, a, s, ms), a < s, distinct_names(ix),
        ms[a] == window(parse, content, ix, a).len(),
    ensures
        inv(lg.push(Event::Advance(cname(ix, a))), lg0, ix, parse, content, a + 1, s, ms),
{
    let ca = cname(ix, a);
    let lg2 = lg.push(Event::Advance(ca));
    assert forall|k: int| 0 <= k < ix.len() implies #[trigger] chrom_ok(lg2, lg0, ix, parse, content, a + 1, s, ms, k) by {
        let c = cname(ix, k);
        assert(chrom_ok(lg, lg0, ix, parse, content, a, s, ms, k));
        lemma_push(lg, Event::Advance(ca), c);
        if k < a { assert(cname(ix, k) != cname(ix, a)); }
        else if k > a { assert(cname(ix, a) != cname(ix, k)); }
    }
    assert forall|c: Seq<u8>| !is_index_name(ix, c) implies #[trigger] proj(lg2, c) == proj(lg0, c) by {
        assert(cname(ix, a) == ca);
        assert(is_index_name(ix, ca));
        lemma_push(lg, Event::Advance(ca), c);
    }
    lemma_push(lg, Event::Advance(ca), ca);
    assert(names(ix, a).push(ca) =~= names(ix, a + 1));
    assert((advances_of(lg0) + names(ix, a)).push(ca) =~= advances_of(lg0) + names(ix, a + 1));
}

// ---------------- shims of (B) ----------------
/// `Vec::reverse`
#[verifier::external_body]
fn vec_reverse<T>(v: &mut Vec<T>)
    ensures
        final(v)@.len() == old(v)@.len(),
        forall|i: int| 0 <= i < old(v)@.len() ==> #[trigger] final(v)@[i] == old(v)@[old(v)@.len() - 1 - i],
{ v.reverse() }
/// tokio `JoinHandle<Result<P, BBIProcessError<BedValueError>>>` of one reader task; ghost `result()` = what the task
/// returned.  R2-like hand-off: `runtime.spawn(async move { BODY })` -> `runtime.spawn(chrom_task(..))`: the task body
/// (A) RUNS TO COMPLETION AT SPAWN TIME and the handle stores its result.
#[verifier::external_body]
pub struct TaskHandle { _p: u8 }
impl TaskHandle {
    pub uninterp spec fn result(&self) -> Result<Proc, BBIProcessError>;
}
/// `runtime.block_on(handle)`: `Result<T, JoinError>`; `.unwrap()` panics iff the task panicked or was cancelled
/// (NOT modelled: (A) proves the task body itself has no panic, `do_process` is outside)
#[verifier::external_body]
pub struct Joined { _p: u8 }
impl Joined {
    pub uninterp spec fn result(&self) -> Result<Proc, BBIProcessError>;
    #[verifier::external_body]
    pub fn unwrap(self) -> (r: Result<Proc, BBIProcessError>) ensures r == self.result() { unimplemented!() }
}
#[verifier::external_body]
pub struct Runtime { _p: u8 }
impl Runtime {
    #[verifier::external_body]
    pub fn spawn(&self, task_result: Result<Proc, BBIProcessError>) -> (r: TaskHandle) ensures r.result() == task_result { unimplemented!() }
    #[verifier::external_body]
    pub fn block_on(&self, h: TaskHandle) -> (r: Joined) ensures r.result() == h.result() { unimplemented!() }
}
/// thiserror `#[from] io::Error` of BBIProcessError: the conversion behind `FileView::new(..)?`
fn ioe_into(e: IoErr) -> (r: BBIProcessError) ensures r == BBIProcessError::IoError(e) { BBIProcessError::IoError(e) }

//@extract struct bigtools/src/bbi/beddata.rs BedParserParallelStreamingIterator
//@rule R8
//@sub /Parser<V>/ => ParserFn min=1
//@sub /<V>/ => "" min=1
//@sub /PathBuf/ => VPath min=1
//@sub /\bString\b/ => Name min=1
//@end

impl BedParserParallelStreamingIterator {
//@extract method bigtools/src/bbi/beddata.rs new "impl<V> BedParserParallelStreamingIterator<V>"
//@rule R16
//@sub /Parser<V>/ => ParserFn min=1
//@sub /PathBuf/ => VPath min=1
//@sub /\bString\b/ => Name min=1
//@sub /(\w+)\.reverse\(\);/ => vec_reverse(&mut \1); min=0
//@sub /(\w+)\.sort\w*\((?:[^()]|\([^()]*\))*\);/ => sort_index_somehow(&mut \1); min=0
//@sub /pub fn new/ => fn new min=0
//@ret r
//@sig
    ensures
        [[L: index_is_stored_reversed_so_that_pop_yields_file_order]]
        file_order(r.chrom_indices@) =~= chrom_indices@,
        [[L: other_fields_stored]]
        r.allow_out_of_order_chroms == allow_out_of_order_chroms, r.path == path, r.parse_fn == parse_fn,
//@end

spec fn ix(&self) -> Seq<Entry> { file_order(self.chrom_indices@) }

//@extract method bigtools/src/bbi/beddata.rs process_to_bbi "BBIDataSource for BedParserParallelStreamingIterator"
//@rule R16
//@presub /fn process_to_bbi<.*?>\(\s*&mut self,.*?\) -> Result<\(\), BBIProcessError<Self::Error>> \{/ => fn process_to_bbi(&mut self, runtime: &Runtime, env: &mut Env) -> Result<(), BBIProcessError> { min=1 count=1
//@presub /runtime\s*\.\s*spawn\(\s*async move \{.*\}\)(;\s*queued_reads\.)/ => runtime.spawn(chrom_task(stream, p, curr_chrom, env))\1 min=1 count=1
//@rule R1
//@rule R6
//@rule R15
//@sub /VecDeque<_>/ => VecDeque<TaskHandle> min=0
//@sub /next\.map\(\|n\| assert\((.*?)\)\);/ => match next {\n                    Some(n) => {\n                        assert(\1);\n                    }\n                    None => {}\n                } min=0
//@sub /(\w+)\.1 >= (\w+)\.1/ => name_ge(&\1.1, &\2.1) min=0
//@sub /(\w+)\.1 <= (\w+)\.1/ => name_le(&\1.1, &\2.1) min=0
//@sub /(\w+)\.1 > (\w+)\.1/ => name_gt(&\1.1, &\2.1) min=0
//@sub /(\w+)\.1 < (\w+)\.1/ => name_lt(&\1.1, &\2.1) min=0
//@sub /File::open\(/ => open_file( min=0
//@sub /BufReader::new\(/ => buf_reader_new( min=0
//@sub /FileView::new\(([^;\n]*)\)\?;/ => (match FileView::new(\1) { Ok(v__) => v__, Err(e__) => return Err(ioe_into(e__)) }); min=0
//@sub /tokio::task::JoinHandle<Result<P, BBIProcessError<BedValueError>>>/ => TaskHandle min=0
//@sub /(?<![\w\.])start_processing\(/ => env.start_processing( min=0
//@sub /(?<![\w\.])advance\(/ => env.advance( min=0
//@sub /(env\.start_processing\([^;\n]*\))\?;/ => (match \1 { Ok(v__) => v__, Err(e__) => return Err(pde_into(e__)) }); min=0
//@sub /(runtime\.block_on\([^;\n]*\)\.unwrap\(\))\?;/ => (match \1 { Ok(v__) => v__, Err(e__) => return Err(e__) }); min=0
//@sub /"[^"\n]*"\s*\.to_string\(\)/ => err_msg() min=0
//@ret r
//@sig
    requires
        [[L: pre/index_offsets_strictly_increase]]
        offsets_increase(old(self).ix()),
        [[L: pre/index_offsets_inside_the_file]]
        offsets_inside(old(self).ix(), old(self).path.content().len() as int),
        [[L: pre/index_names_pairwise_distinct]]
        distinct_names(old(self).ix()),
    ensures
        [[L: every_return_leaves_a_prefix_finished_a_stretch_started_the_rest_untouched]]
        exists|a: int, s: int, ms: Seq<int>| #[trigger] inv(final(env).log(), old(env).log(), old(self).ix(), old(self).parse_fn, old(self).path.content(), a, s, ms),
        [[L: ok_every_entry_started_once_in_file_order]]
        r is Ok ==> starts_of(final(env).log()) == starts_of(old(env).log()) + names(old(self).ix(), old(self).ix().len() as int),
        [[L: ok_every_entry_advanced_once_in_the_same_order]]
        r is Ok ==> advances_of(final(env).log()) == advances_of(old(env).log()) + names(old(self).ix(), old(self).ix().len() as int),
        [[L: ok_each_chromosome_got_exactly_the_items_of_its_window_then_advance]]
        r is Ok ==> forall|k: int| 0 <= k < old(self).ix().len() ==> ({
            let c = #[trigger] cname(old(self).ix(), k);
            let w = window(old(self).parse_fn, old(self).path.content(), old(self).ix(), k);
            all_own(w, w.len() as int, c) && proj(final(env).log(), c) == finished(proj(old(env).log(), c), w, c)
        }),
        [[L: ok_nothing_logged_under_any_other_name]]
        r is Ok ==> forall|c: Seq<u8>| !is_index_name(old(self).ix(), c) ==> #[trigger] proj(final(env).log(), c) == proj(old(env).log(), c),
        [[L: ok_means_index_names_in_order_when_required]]
        r is Ok && !old(self).allow_out_of_order_chroms ==> sorted_upto(old(self).ix(), old(self).ix().len() as int),
        [[L: ok_means_index_consumed]]
        r is Ok ==> final(self).chrom_indices@.len() == 0,
        [[L: succeeds_when_nothing_fails_and_order_is_fine]]
        old(env).reliable() && old(self).path.reliable()
            && windows_pure(old(self).ix(), old(self).parse_fn, old(self).path.content())
            && (old(self).allow_out_of_order_chroms || sorted_upto(old(self).ix(), old(self).ix().len() as int))
            ==> r is Ok,
        [[L: out_of_order_names_refused_before_the_offender_is_started]]
        r is Err && old(env).reliable() && old(self).path.reliable()
            && windows_pure(old(self).ix(), old(self).parse_fn, old(self).path.content())
            ==> ({
                let ix = old(self).ix();
                let s = starts_of(final(env).log()).len() - starts_of(old(env).log()).len();
                &&& !old(self).allow_out_of_order_chroms
                &&& 0 <= s && s + 1 < ix.len()
                &&& sorted_upto(ix, s)
                &&& gt(cname(ix, s), cname(ix, s + 1))
                &&& r->Err_0 is SourceError && r->Err_0->SourceError_0 is InvalidInput
            }),
        [[L: first_failing_task_in_file_order_decides_the_error]]
        r is Err && old(env).reliable() && old(self).path.reliable()
            && (old(self).allow_out_of_order_chroms || sorted_upto(old(self).ix(), old(self).ix().len() as int))
            ==> ({
                let ix = old(self).ix();
                let a = advances_of(final(env).log()).len() - advances_of(old(env).log()).len();
                let w = window(old(self).parse_fn, old(self).path.content(), ix, a);
                &&& 0 <= a < ix.len()
                &&& forall|k: int| 0 <= k < a ==> all_own(#[trigger] window(old(self).parse_fn, old(self).path.content(), ix, k), window(old(self).parse_fn, old(self).path.content(), ix, k).len() as int, cname(ix, k))
                &&& !all_own(w, w.len() as int, cname(ix, a))
                &&& forall|m: int| 0 <= m < w.len() && all_own(w, m, cname(ix, a)) && !#[trigger] own(w, m, cname(ix, a)) ==> {
                    &&& w[m] matches Err(e) ==> r == Err::<(), BBIProcessError>(BBIProcessError::SourceError(e))
                    &&& w[m] is Ok ==> r->Err_0 is InvalidInput
                }
            }),
        [[L: frame]]
        final(self).allow_out_of_order_chroms == old(self).allow_out_of_order_chroms,
        final(self).parse_fn == old(self).parse_fn, final(self).path == old(self).path,
        final(env).reliable() == old(env).reliable(),
//@open
    let ghost stored = self.chrom_indices@;
    let ghost ix = self.ix();
    let ghost nn = ix.len() as int;
    let ghost parse = self.parse_fn;
    let ghost content = self.path.content();
    let ghost lg0 = env.log();
    let ghost rel = env.reliable();
    let ghost a: int = 0;
    let ghost s: int = 0;
    let ghost ms: Seq<int> = Seq::empty();
    proof {
        [[L: entry/nothing_started_nothing_advanced]]
        assert(names(ix, 0) =~= Seq::<Seq<u8>>::empty());
        assert(starts_of(lg0) + names(ix, 0) =~= starts_of(lg0));
        assert(advances_of(lg0) + names(ix, 0) =~= advances_of(lg0));
    }
//@loop 1
        invariant
            nn == ix.len(), ix == file_order(stored), stored == old(self).chrom_indices@, ix == old(self).ix(),
            parse == old(self).parse_fn, content == old(self).path.content(), lg0 == old(env).log(), rel == old(env).reliable(),
            offsets_increase(ix), offsets_inside(ix, content.len() as int), distinct_names(ix),
            [[L: loop/frame]]
            self.allow_out_of_order_chroms == old(self).allow_out_of_order_chroms,
            self.parse_fn == old(self).parse_fn, self.path == old(self).path,
            env.reliable() == rel,
            [[L: loop/entries_are_taken_in_file_order]]
            0 <= a <= s <= nn, self.chrom_indices@ == stored.subrange(0, nn - s),
            !remaining ==> s == nn,
            [[L: loop/log_state]]
            inv(env.log(), lg0, ix, parse, content, a, s, ms),
            [[L: loop/queue_holds_the_started_entries_in_start_order]]
            queue_ok(queued_reads@, ix, parse, content, a, s, ms, rel),
            [[L: loop/order_checked_for_every_started_entry]]
            !self.allow_out_of_order_chroms ==> sorted_upto(ix, s),
        ensures
            [[L: loop/exit_only_when_everything_is_advanced]]
            a == nn, s == nn,
            !old(self).allow_out_of_order_chroms ==> sorted_upto(ix, nn),
        decreases
            [[L: loop/termination]]
            nn - a,
//@loop 2
            invariant
                nn == ix.len(), ix == file_order(stored), stored == old(self).chrom_indices@, ix == old(self).ix(),
                parse == old(self).parse_fn, content == old(self).path.content(), lg0 == old(env).log(), rel == old(env).reliable(),
                offsets_increase(ix), offsets_inside(ix, content.len() as int), distinct_names(ix),
                [[L: fill/frame]]
                self.allow_out_of_order_chroms == old(self).allow_out_of_order_chroms,
                self.parse_fn == old(self).parse_fn, self.path == old(self).path,
                env.reliable() == rel,
                [[L: fill/entries_are_taken_in_file_order]]
                0 <= a <= s <= nn, self.chrom_indices@ == stored.subrange(0, nn - s),
                !remaining ==> s == nn,
                [[L: fill/log_state]]
                inv(env.log(), lg0, ix, parse, content, a, s, ms),
                [[L: fill/queue_holds_the_started_entries_in_start_order]]
                queue_ok(queued_reads@, ix, parse, content, a, s, ms, rel),
                [[L: fill/order_checked_for_every_started_entry]]
                !self.allow_out_of_order_chroms ==> sorted_upto(ix, s),
            ensures
                [[L: fill/an_empty_queue_means_the_index_is_exhausted]]
                queued_reads@.len() == 0 ==> s == nn,
            decreases
                [[L: fill/termination]]
                nn - s,
//@at /^\s*\};\s*$/ nth=1 after optional
                let ghost lg1 = env.log();
                let ghost nv1 = env.nvalues();
                proof {
                    [[L: fill/pop_takes_the_last_stored_entry]]
                    assert(stored.subrange(0, nn - s)[nn - s - 1] == stored[nn - s - 1]);
                    assert(ix[s] == stored[nn - 1 - s]);
                    [[L: fill/pop_takes_the_next_entry_in_file_order]]
                    assert(curr == ix[s]);
                    if s + 1 < nn {
                        assert(stored.subrange(0, nn - s).subrange(0, nn - s - 1)[nn - s - 2] == stored[nn - s - 2]);
                        assert(ix[s + 1] == stored[nn - 1 - (s + 1)]);
                        [[L: fill/next_is_the_following_entry_in_file_order]]
                        assert(next == Some(&ix[s + 1]));
                    } else {
                        [[L: fill/next_is_none_exactly_for_the_last_entry]]
                        assert(next is None);
                    }
                    [[L: fill/remaining_index_is_the_stored_prefix]]
                    assert(stored.subrange(0, nn - s).subrange(0, nn - s - 1) =~= stored.subrange(0, nn - (s + 1)));
                }
//@at /^\s*assert\(/ before optional
                        // the code's own `assert!(curr.1 != n.1)` (a PANIC in the repository): cannot fire because unit
                        // index's epilogue makes the names of the list pairwise distinct (pre/index_names_pairwise_distinct)
                        [[L: adjacent_index_entries_have_different_names]]
                        assert(curr.1@ != n.1@) by {
                            assert(cname(ix, s) == curr.1@ && cname(ix, s + 1) == n.1@);
                        }
//@at /FileView::new\(/ before optional
                proof {
                    // unit fview's `new/pre_window_inside_file` (S4 there: FileView::new does not validate its window)
                    [[L: fill/file_view_window_is_not_inverted_and_starts_inside_the_file]]
                    assert(curr.0 <= (match next { Some(x) => x.0, None => u64::MAX }) && curr.0 <= file.content().len());
                }
//@at /let data\b/ before optional
                let ghost w_s = stream.rest();
                let ghost pn_s = p.name();
                let ghost cc_s = curr_chrom@;
//@at /queued_reads\.push_(back|front)\(data\)/ before optional
                let ghost res = data.result();
                let ghost m = env.nvalues() - nv1;
                let ghost q_before = queued_reads@;
//@at /queued_reads\.push_(back|front)\(data\)/ after optional
                proof {
                    [[L: fill/the_task_reads_exactly_the_window_of_its_entry]]
                    assert(w_s == window(parse, content, ix, s));
                    [[L: fill/the_task_runs_under_the_name_of_its_entry]]
                    assert(pn_s == cname(ix, s) && cc_s == cname(ix, s));
                    [[L: fill/start_then_the_task_protocol_prefix_is_all_that_was_logged]]
                    assert(s < nn && 0 <= m <= w_s.len() && all_own(w_s, m, cname(ix, s))
                        && env.log() == tlog(lg1.push(Event::Start(cname(ix, s))), w_s, m, cname(ix, s), cname(ix, s)));
                    [[L: fill/log_state_after_spawn]]
                    lemma_spawned(lg1, lg0, ix, parse, content, a, s, ms, m, env.log());
                    [[L: fill/the_handle_stores_the_outcome_of_the_task_of_entry_s]]
                    assert(task_outcome(res, w_s, m, cname(ix, s), rel));
                    let ms2 = ms.push(m);
                    assert forall|k: int| a <= k < s implies #[trigger] ms2[k] == ms[k] by { }
                    s = s + 1;
                    ms = ms2;
                }
//@at /queued_reads\.pop_(front|back)\(\)/ before optional
            let ghost q0 = queued_reads@;
//@at /runtime\.block_on\(/ before optional
            proof {
                // what an Err result of the awaited task implies (for the error postconditions)
                let w = window(parse, content, ix, a);
                let c = cname(ix, a);
                let m0 = ms[a];
                let lg = env.log();
                [[L: loop/state_of_the_oldest_started_entry]]
                assert(chrom_ok(lg, lg0, ix, parse, content, a, s, ms, a));
                [[L: loop/the_awaited_task_is_the_oldest_started_entry]]
                assert(task_outcome(next_chrom.result(), w, m0, c, rel)) by { assert(next_chrom == q0[0]); assert(a + 0 == a); }
                [[L: loop/what_an_error_of_the_awaited_task_implies]]
                assert((starts_of(lg0) + names(ix, s)).len() == starts_of(lg0).len() + s);
                assert((advances_of(lg0) + names(ix, a)).len() == advances_of(lg0).len() + a);
                if next_chrom.result() is Err && rel {
                    assert(!own(w, m0, c));
                    assert forall|k: int| 0 <= k < a implies all_own(#[trigger] window(parse, content, ix, k), window(parse, content, ix, k).len() as int, cname(ix, k)) by {
                        assert(chrom_ok(lg, lg0, ix, parse, content, a, s, ms, k));
                    }
                    assert forall|m: int| 0 <= m < w.len() && all_own(w, m, c) && !#[trigger] own(w, m, c) implies m == m0 by {
                        if m < m0 { assert(own(w, m, c)); }
                        if m0 < m { assert(own(w, m0, c)); }
                    }
                }
            }
//@at /env\.advance\(/ before optional
            let ghost lg2 = env.log();
            let ghost q_now = queued_reads@;
//@at /^\s*Ok\(\(\)\)\s*$/ before optional
        proof {
            let lg = env.log();
            [[L: ok_exit/every_entry_is_finished_and_the_index_is_empty]]
            assert forall|k: int| 0 <= k < nn implies ({
                let c = #[trigger] cname(ix, k);
                let w = window(parse, content, ix, k);
                all_own(w, w.len() as int, c) && proj(lg, c) == finished(proj(lg0, c), w, c)
            }) by {
                assert(chrom_ok(lg, lg0, ix, parse, content, a, s, ms, k));
            }
            assert(self.chrom_indices@.len() == 0);
        }
//@at /env\.advance\(/ after optional
            proof {
                [[L: loop/only_the_oldest_entry_is_advanced_and_only_after_its_task_returned_ok]]
                assert(a < s && ms[a] == window(parse, content, ix, a).len() && env.log() == lg2.push(Event::Advance(cname(ix, a))));
                [[L: loop/log_state_after_advance]]
                lemma_advanced(lg2, lg0, ix, parse, content, a, s, ms);
                [[L: loop/queue_after_pop_is_the_rest_in_start_order]]
                assert forall|j: int| 0 <= j < s - (a + 1) implies
                    task_outcome((#[trigger] q_now[j]).result(), window(parse, content, ix, a + 1 + j), ms[a + 1 + j], cname(ix, a + 1 + j), rel) by {
                    assert(a + 1 + j == a + (j + 1));
                }
                a = a + 1;
            }
//@end
}

// =====================================================================================
// (C) composition
// =====================================================================================
/// NOT repository code: the two calls every user of the parallel source makes (`new`, then `process_to_bbi`), so that
/// the contract is stated on the index AS RETURNED BY `index_chroms` (file order) and the reversal in `new` and the
/// `pop()` from the back in `process_to_bbi` are checked against each other.  Preconditions = what unit `index`
/// guarantees for the list it returns (`offsets_strictly_increase`, `every_entry_names_the_line_at_its_offset` [only
/// "offset inside the file" is used], names pairwise distinct after the epilogue).
fn parallel_source_run(chrom_indices: Vec<Entry>, allow_out_of_order_chroms: bool, path: VPath, parse_fn: ParserFn, runtime: &Runtime, env: &mut Env) -> (r: Result<(), BBIProcessError>)
    requires
        offsets_increase(chrom_indices@),
        offsets_inside(chrom_indices@, path.content().len() as int),
        distinct_names(chrom_indices@),
    ensures
        [[L: driver/every_entry_started_and_advanced_once_in_index_order]]
        r is Ok ==> starts_of(final(env).log()) == starts_of(old(env).log()) + names(chrom_indices@, chrom_indices@.len() as int)
            && advances_of(final(env).log()) == advances_of(old(env).log()) + names(chrom_indices@, chrom_indices@.len() as int),
        [[L: driver/chromosome_k_is_fed_exactly_the_items_of_bytes_offset_k_to_offset_k_plus_1]]
        r is Ok ==> forall|k: int| 0 <= k < chrom_indices@.len() ==> ({
            let c = #[trigger] cname(chrom_indices@, k);
            let w = window(parse_fn, path.content(), chrom_indices@, k);
            all_own(w, w.len() as int, c) && proj(final(env).log(), c) == finished(proj(old(env).log(), c), w, c)
        }),
        [[L: driver/unsorted_index_is_refused_when_sorted_input_is_required]]
        !allow_out_of_order_chroms && !sorted_upto(chrom_indices@, chrom_indices@.len() as int) ==> r is Err,
        [[L: driver/a_window_with_a_malformed_or_foreign_line_is_refused]]
        !windows_pure(chrom_indices@, parse_fn, path.content()) ==> r is Err,
        [[L: driver/succeeds_when_nothing_fails_and_order_is_fine]]
        old(env).reliable() && path.reliable() && windows_pure(chrom_indices@, parse_fn, path.content())
            && (allow_out_of_order_chroms || sorted_upto(chrom_indices@, chrom_indices@.len() as int)) ==> r is Ok,
{
    let ghost ix = chrom_indices@;
    let mut src = BedParserParallelStreamingIterator::new(chrom_indices, allow_out_of_order_chroms, path, parse_fn);
    assert(src.ix() == ix);
    let r = src.process_to_bbi(runtime, env);
    proof {
        if r is Ok {
            assert forall|k: int| 0 <= k < ix.len() implies all_own(#[trigger] window(parse_fn, path.content(), ix, k), window(parse_fn, path.content(), ix, k).len() as int, cname(ix, k)) by {
                let c = cname(ix, k);
            }
        }
    }
    r
}

// ---------------- the SERIAL protocol of unit feed (definitions copied from contracts/feed: nxt, elog, full) ----------------
pub open spec fn s_nxt(q: Seq<Item>, k: int) -> Option<Val> {
    if k + 1 < q.len() && q[k + 1] is Ok && nm(q, k + 1) == nm(q, k) { Some(vl(q, k + 1)) } else { None }
}
pub open spec fn s_elog(base: Seq<Event>, q: Seq<Item>, n: int) -> Seq<Event>
    decreases n
{
    if n <= 0 { base } else {
        let i = n - 1;
        let prev = s_elog(base, q, i);
        if i == 0 {
            prev.push(Event::Start(nm(q, 0))).push(Event::Value(nm(q, 0), vl(q, 0), s_nxt(q, 0)))
        } else if nm(q, i) == nm(q, i - 1) {
            prev.push(Event::Value(nm(q, i), vl(q, i), s_nxt(q, i)))
        } else {
            prev.push(Event::Advance(nm(q, i - 1))).push(Event::Start(nm(q, i))).push(Event::Value(nm(q, i), vl(q, i), s_nxt(q, i)))
        }
    }
}
pub open spec fn s_full(base: Seq<Event>, q: Seq<Item>) -> Seq<Event> {
    s_elog(base, q, q.len() as int).push(Event::Advance(nm(q, q.len() - 1)))
}
/// the items of the first k windows one after the other.  ASSUMED (argued in NOTES, not proved here): for the index of
/// unit `index` (offset_0 = 0, every offset a line start) `cat(.., n)` IS the item stream the serial reader gets from
/// the whole file.
pub open spec fn cat(ix: Seq<Entry>, parse: ParserFn, content: Seq<u8>, k: int) -> Seq<Item>
    decreases k
{
    if k <= 0 { Seq::empty() } else { cat(ix, parse, content, k - 1) + window(parse, content, ix, k - 1) }
}
pub open spec fn windows_nonempty(ix: Seq<Entry>, parse: ParserFn, content: Seq<u8>) -> bool {
    forall|k: int| 0 <= k < ix.len() ==> (#[trigger] window(parse, content, ix, k)).len() > 0
}
/// closed form of the serial log once the first k windows went through
pub open spec fn serial(base: Seq<Event>, ix: Seq<Entry>, parse: ParserFn, content: Seq<u8>, k: int) -> Seq<Event>
    decreases k, 0int
{
    if k <= 0 { base } else {
        let w = window(parse, content, ix, k - 1);
        tlog(serial_x(base, ix, parse, content, k - 1).push(Event::Start(cname(ix, k - 1))), w, w.len() as int, cname(ix, k - 1), cname(ix, k - 1))
    }
}
/// ... and the previous chromosome (if any) advanced
pub open spec fn serial_x(base: Seq<Event>, ix: Seq<Entry>, parse: ParserFn, content: Seq<u8>, k: int) -> Seq<Event>
    decreases k, 1int
{
    if k <= 0 { base } else { serial(base, ix, parse, content, k).push(Event::Advance(cname(ix, k - 1))) }
}
pub open spec fn lens(ix: Seq<Entry>, parse: ParserFn, content: Seq<u8>, k: int) -> Seq<int> {
    Seq::new(k as nat, |i: int| window(parse, content, ix, i).len() as int)
}
proof fn lemma_cat_index(ix: Seq<Entry>, parse: ParserFn, content: Seq<u8>, n: int, k: int, t: int)
    requires 0 <= k < n <= ix.len(), 0 <= t < window(parse, content, ix, k).len(),
    ensures
        cat(ix, parse, content, k + 1).len() == cat(ix, parse, content, k).len() + window(parse, content, ix, k).len(),
        cat(ix, parse, content, n).len() >= cat(ix, parse, content, k + 1).len(),
        cat(ix, parse, content, n)[cat(ix, parse, content, k).len() + t] == window(parse, content, ix, k)[t],
    decreases n
{
    if n > k + 1 {
        lemma_cat_index(ix, parse, content, n - 1, k, t);
    }
}
/// the `next` of the serial protocol on the concatenation = the `next` of the task protocol inside the window
proof fn lemma_nxt(ix: Seq<Entry>, parse: ParserFn, content: Seq<u8>, k: int, t: int)
    requires
        distinct_names(ix), windows_pure(ix, parse, content), windows_nonempty(ix, parse, content),
        0 <= k < ix.len(), 0 <= t < window(parse, content, ix, k).len(),
    ensures ({
        let q = cat(ix, parse, content, ix.len() as int);
        let i = cat(ix, parse, content, k).len() + t;
        let w = window(parse, content, ix, k);
        &&& 0 <= i < q.len() && q[i] == w[t] && own(w, t, cname(ix, k))
        &&& s_nxt(q, i) == tnxt(w, t, cname(ix, k))
    }),
{
    let n = ix.len() as int;
    let q = cat(ix, parse, content, n);
    let w = window(parse, content, ix, k);
    let c = cname(ix, k);
    lemma_cat_index(ix, parse, content, n, k, t);
    assert(own(w, t, c));
    if t + 1 < w.len() {
        lemma_cat_index(ix, parse, content, n, k, t + 1);
        assert(own(w, t + 1, c));
    } else if k + 1 < n {
        let w2 = window(parse, content, ix, k + 1);
        lemma_cat_index(ix, parse, content, n, k + 1, 0);
        assert(own(w2, 0, cname(ix, k + 1)));
        assert(cname(ix, k) != cname(ix, k + 1));
    } else {
        assert(cat(ix, parse, content, k + 1) == q);
    }
}
/// unit feed's `elog` on the concatenated windows, j items into window k
proof fn lemma_serial_step(base: Seq<Event>, ix: Seq<Entry>, parse: ParserFn, content: Seq<u8>, k: int, j: int)
    requires
        distinct_names(ix), windows_pure(ix, parse, content), windows_nonempty(ix, parse, content),
        0 <= k < ix.len(), 1 <= j <= window(parse, content, ix, k).len(),
    ensures
        s_elog(base, cat(ix, parse, content, ix.len() as int), cat(ix, parse, content, k).len() + j)
            == tlog(serial_x(base, ix, parse, content, k).push(Event::Start(cname(ix, k))), window(parse, content, ix, k), j, cname(ix, k), cname(ix, k)),
    decreases k, j
{
    let n = ix.len() as int;
    let q = cat(ix, parse, content, n);
    let w = window(parse, content, ix, k);
    let c = cname(ix, k);
    let i = cat(ix, parse, content, k).len() + j - 1;
    let x = serial_x(base, ix, parse, content, k).push(Event::Start(c));
    let ev = Event::Value(c, vl(w, j - 1), tnxt(w, j - 1, c));
    lemma_nxt(ix, parse, content, k, j - 1);
    assert(nm(q, i) == c && vl(q, i) == vl(w, j - 1) && s_nxt(q, i) == tnxt(w, j - 1, c));
    assert(tlog(x, w, j, c, c) == tlog(x, w, j - 1, c, c).push(ev));
    assert(tlog(x, w, 0, c, c) == x);
    if j > 1 {
        lemma_serial_step(base, ix, parse, content, k, j - 1);
        lemma_nxt(ix, parse, content, k, j - 2);
        assert(nm(q, i - 1) == c);
        assert(s_elog(base, q, i + 1) == s_elog(base, q, i).push(ev));
    } else if k > 0 {
        let wp = window(parse, content, ix, k - 1);
        let cp = cname(ix, k - 1);
        lemma_serial_step(base, ix, parse, content, k - 1, wp.len() as int);
        lemma_nxt(ix, parse, content, k - 1, wp.len() - 1);
        lemma_cat_index(ix, parse, content, n, k - 1, 0);
        assert(cname(ix, k - 1) != cname(ix, k));
        assert(i == cat(ix, parse, content, k - 1).len() + wp.len());
        assert(i > 0);
        assert(nm(q, i - 1) == cp);
        assert(s_elog(base, q, i) == serial(base, ix, parse, content, k));
        assert(s_elog(base, q, i + 1) == s_elog(base, q, i).push(Event::Advance(cp)).push(Event::Start(c)).push(ev));
    } else {
        assert(i == 0);
        assert(s_elog(base, q, 0) == base);
        assert(s_elog(base, q, 1) == base.push(Event::Start(c)).push(ev));
    }
}
/// the serial log of the concatenated windows in closed form, and what its projections are: THE SAME predicate `inv`
/// with everything started and advanced that (B) proves for the parallel log
proof fn lemma_serial_log(base: Seq<Event>, ix: Seq<Entry>, parse: ParserFn, content: Seq<u8>, k: int)
    requires
        distinct_names(ix), windows_pure(ix, parse, content),
        1 <= k <= ix.len(),
    ensures
        inv(serial(base, ix, parse, content, k), base, ix, parse, content, k - 1, k, lens(ix, parse, content, k)),
        inv(serial_x(base, ix, parse, content, k), base, ix, parse, content, k, k, lens(ix, parse, content, k)),
    decreases k
{
    let w = window(parse, content, ix, k - 1);
    if k == 1 {
        assert(names(ix, 0) =~= Seq::<Seq<u8>>::empty());
        assert(starts_of(base) + names(ix, 0) =~= starts_of(base));
        assert(advances_of(base) + names(ix, 0) =~= advances_of(base));
        assert(inv(base, base, ix, parse, content, 0, 0, Seq::<int>::empty()));
        lemma_spawned(base, base, ix, parse, content, 0, 0, Seq::<int>::empty(), w.len() as int, serial(base, ix, parse, content, 1));
        assert(Seq::<int>::empty().push(w.len() as int) =~= lens(ix, parse, content, 1));
    } else {
        lemma_serial_log(base, ix, parse, content, k - 1);
        lemma_spawned(serial_x(base, ix, parse, content, k - 1), base, ix, parse, content, k - 1, k - 1, lens(ix, parse, content, k - 1), w.len() as int, serial(base, ix, parse, content, k));
        assert(lens(ix, parse, content, k - 1).push(w.len() as int) =~= lens(ix, parse, content, k));
    }
    lemma_advanced(serial(base, ix, parse, content, k), base, ix, parse, content, k - 1, k, lens(ix, parse, content, k));
}
/// (C): for a grouped, sorted file and its index, the log of the PARALLEL source (any log with the Ok-postconditions
/// of (B)) and the log `full(base, items of the file)` of the SERIAL source (unit feed,
/// `ok_means_whole_protocol_was_logged`) have the same events under every chromosome name in the same order, the same
/// Start sequence and the same Advance sequence.  (They differ only in how events of DIFFERENT chromosomes interleave.)
proof fn lemma_parallel_equals_serial_per_chromosome(base: Seq<Event>, ix: Seq<Entry>, parse: ParserFn, content: Seq<u8>, lg_par: Seq<Event>)
    requires
        ix.len() >= 1,
        distinct_names(ix), windows_pure(ix, parse, content), windows_nonempty(ix, parse, content),
        // the Ok-postconditions of (B)
        starts_of(lg_par) == starts_of(base) + names(ix, ix.len() as int),
        advances_of(lg_par) == advances_of(base) + names(ix, ix.len() as int),
        forall|k: int| 0 <= k < ix.len() ==> proj(lg_par, #[trigger] cname(ix, k)) == finished(proj(base, cname(ix, k)), window(parse, content, ix, k), cname(ix, k)),
        forall|c: Seq<u8>| !is_index_name(ix, c) ==> #[trigger] proj(lg_par, c) == proj(base, c),
    ensures
        [[L: lemma/serial_log_of_the_concatenated_windows_in_closed_form]]
        s_full(base, cat(ix, parse, content, ix.len() as int)) == serial_x(base, ix, parse, content, ix.len() as int),
        [[L: lemma/same_events_per_chromosome_in_the_same_order]]
        forall|c: Seq<u8>| proj(lg_par, c) == #[trigger] proj(s_full(base, cat(ix, parse, content, ix.len() as int)), c),
        [[L: lemma/same_starts_same_advances_in_the_same_order]]
        starts_of(lg_par) == starts_of(s_full(base, cat(ix, parse, content, ix.len() as int))),
        advances_of(lg_par) == advances_of(s_full(base, cat(ix, parse, content, ix.len() as int))),
{
    let n = ix.len() as int;
    let q = cat(ix, parse, content, n);
    let wl = window(parse, content, ix, n - 1);
    let ser = s_full(base, q);
    lemma_serial_step(base, ix, parse, content, n - 1, wl.len() as int);
    lemma_nxt(ix, parse, content, n - 1, wl.len() - 1);
    lemma_cat_index(ix, parse, content, n, n - 1, 0);
    assert(q.len() == cat(ix, parse, content, n - 1).len() + wl.len());
    assert(ser == serial_x(base, ix, parse, content, n));
    lemma_serial_log(base, ix, parse, content, n);
    let ms = lens(ix, parse, content, n);
    assert(inv(ser, base, ix, parse, content, n, n, ms));
    assert forall|c: Seq<u8>| proj(lg_par, c) == #[trigger] proj(ser, c) by {
        if is_index_name(ix, c) {
            let k = choose|k: int| 0 <= k < ix.len() && #[trigger] cname(ix, k) == c;
            assert(chrom_ok(ser, base, ix, parse, content, n, n, ms, k));
        }
    }
}

} // verus!
fn main() {}
