//@unit merge_tool
//@serves C15
//@backend verus
// bigwigmerge (CLI), bigtools/src/utils/cli/bigwigmerge.rs: the TOOL around the k-way merge.
//   C15: "The merge tool applies clip, adjust and threshold to that per-base sum, covers every base of every
//         chromosome from position 0, accepts the output names it documents, and its bedGraph and bigWig
//         outputs agree."
// Carved out of the file by whole-text //@presub (see NOTES.md):
//   (1) bigwigmerge:      the `let output_type = match (args.output_type, &output) { .. };` statement
//   (2) get_merged_vals:  the chromosome table loop nest; the fd budget; the two per-file closures (one query
//                         [0, size) per file); the per-chromosome closure (few files / chunked re-merge)
//   (3) <ChromGroupReadImpl as BBIDataSource>::process_to_bbi: the feeding protocol (twin of unit feed)
//   (4) bigwigmerge:      the bedGraph writer loop
//   (5) bigwigmerge:      the input opening loops
// The k-way merge itself: units value_iter / merge_into; the clip/adjust/threshold closures: unit mv_adjust;
// what a query [0, size) returns: units query_glue, bw_values, bw_dec.
use vstd::prelude::*;
// `eprintln!` (diagnostics on stderr): where the message matters (1, 5) a //@sub routes it to `elog!(env, ..)`;
// everywhere else the shadowing macro drops it (stderr is not part of C15).
#[allow(unused_macros)]
macro_rules! eprintln {
    ($f:literal $(, $a:expr)* $(,)?) => { stderr_dropped() };
}
#[allow(unused_macros)]
macro_rules! elog {
    ($e:expr, $f:literal $(, $a:expr)* $(,)?) => { $e.eprint($f, ($(&$a,)*)) };
}
// `format_args!` is kept verbatim: rustc splits the arguments, the text is an uninterpreted function of the
// literal and of the argument tuple (same device as unit avg_rows)
#[allow(unused_macros)]
macro_rules! format_args {
    ($f:literal $(, $a:expr)* $(,)?) => { fmt_args($f, ($(&$a,)*)) };
}
verus! {

// =====================================================================================================
// shared shims (each one is a listed assumption, see NOTES.md)
// =====================================================================================================
/// `String` / `&str` values of the tool (output name, --output-type, chromosome names, file names): opaque,
/// observed through the sequence of its chars
#[verifier::external_body]
pub struct Str { _p: u8 }
/// edits that spell the type out (`let mut prev = String::new();`) resolve to the shim
pub type String = Str;
/// `String::to_lowercase`: uninterpreted in general (Unicode tables, context dependent sigma) ...
pub uninterp spec fn lower(s: Seq<char>) -> Seq<char>;
/// ... but an ASCII tail is lower-cased char by char whatever precedes it
pub open spec fn lc(c: char) -> char {
    if 'A' <= c && c <= 'Z' { ((c as int) + 32) as char } else { c }
}
pub open spec fn is_ascii(t: Seq<char>) -> bool { forall|i: int| 0 <= i < t.len() ==> (#[trigger] t[i] as int) < 128 }
pub open spec fn ascii_lower(t: Seq<char>) -> Seq<char> { Seq::new(t.len(), |i: int| lc(t[i])) }
pub open spec fn ends(s: Seq<char>, suffix: Seq<char>) -> bool {
    suffix.len() <= s.len() && s.subrange(s.len() - suffix.len(), s.len() as int) == suffix
}
/// ASSUMED about std: lower-casing leaves nothing but the lower-cased ASCII tail at the end
#[verifier::external_body]
pub proof fn axiom_lower_ascii_tail(p: Seq<char>, t: Seq<char>)
    requires is_ascii(t),
    ensures ends(lower(p + t), ascii_lower(t)),
{}
impl Str {
    pub uninterp spec fn view(&self) -> Seq<char>;
    #[verifier::external_body]
    pub fn new() -> (r: Str) ensures r@ == Seq::<char>::empty() { unimplemented!() }
    /// `"literal".to_owned()` / `.to_string()` (see the //@sub)
    #[verifier::external_body]
    pub fn lit(s: &str) -> (r: Str) ensures r@ == s@ { unimplemented!() }
    #[verifier::external_body]
    pub fn to_lowercase(&self) -> (r: Str) ensures r@ == lower(self@) { unimplemented!() }
    /// `str::ends_with(&str)`
    #[verifier::external_body]
    pub fn ends_with(&self, lit: &str) -> (r: bool) ensures r == ends(self@, lit@) { unimplemented!() }
    /// `String == &str` (see the //@sub that routes `X == "lit"` here)
    #[verifier::external_body]
    pub fn eq_lit(&self, lit: &str) -> (r: bool) ensures r == (self@ == lit@) { unimplemented!() }
    #[verifier::external_body]
    pub fn clone(&self) -> (r: Str) ensures r@ == self@ { unimplemented!() }
    #[verifier::external_body]
    pub fn to_owned(&self) -> (r: Str) ensures r@ == self@ { unimplemented!() }
    #[verifier::external_body]
    pub fn to_string(&self) -> (r: Str) ensures r@ == self@ { unimplemented!() }
    #[verifier::external_body]
    pub fn as_str(&self) -> (r: &Str) ensures r@ == self@ { unimplemented!() }
    // what a plausible edit might call: NO postcondition (judged, not rejected)
    #[verifier::external_body] pub fn to_uppercase(&self) -> Str { unimplemented!() }
    #[verifier::external_body] pub fn to_ascii_lowercase(&self) -> Str { unimplemented!() }
    #[verifier::external_body] pub fn to_ascii_uppercase(&self) -> Str { unimplemented!() }
    #[verifier::external_body] pub fn starts_with(&self, lit: &str) -> bool { unimplemented!() }
    #[verifier::external_body] pub fn contains(&self, lit: &str) -> bool { unimplemented!() }
    #[verifier::external_body] pub fn eq_ignore_ascii_case(&self, lit: &str) -> bool { unimplemented!() }
    #[verifier::external_body] pub fn trim(&self) -> &Str { unimplemented!() }
    #[verifier::external_body] pub fn is_empty(&self) -> bool { unimplemented!() }
    #[verifier::external_body] pub fn len(&self) -> usize { unimplemented!() }
}
/// `==` between two names (`String == String`, `String == &str` of a variable): equality of the chars
#[verifier::external_body]
pub fn str_eq(a: &Str, b: &Str) -> (r: bool) ensures r == (a@ == b@) { unimplemented!() }
/// the shadowing `eprintln!` where no environment is threaded through: message dropped
#[verifier::external_body]
pub fn stderr_dropped() { }
/// std::io::Error
#[verifier::external_body] #[derive(Debug)]
pub struct IoErr { _p: u8 }
/// BBIReadError (which one: never inspected here)
#[verifier::external_body] #[derive(Debug)]
pub struct BBIReadError { _p: u8 }
/// `Box<dyn Error>` of `bigwigmerge`
#[verifier::external_body] #[derive(Debug)]
pub struct AnyErr { _p: u8 }

//@extract struct bigtools/src/bbi.rs Value
//@rule R8
//@end
// thiserror attributes dropped; the wrapped foreign errors are opaque
//@extract enum bigtools/src/utils/cli/bigwigmerge.rs MergingValuesError
//@rule R8
//@sub /[ \t]*#\[error\([^\n]*\)\]\n/ => "" min=4
//@sub /#\[from\] BBIReadError/ => BBIReadError min=1
//@sub /#\[from\] io::Error/ => IoErr min=1
//@sub /\(String\)/ => (Str) min=2
//@end

/// the tool's stderr, as far as the contract reads it: one entry per `eprintln!` (format literal; arguments dropped)
#[verifier::external_body]
pub struct Term { _p: u8 }
impl Term {
    pub uninterp spec fn said(&self) -> Seq<Seq<char>>;
    #[verifier::external_body]
    pub fn eprint<T>(&mut self, fmt: &'static str, args: T)
        ensures final(self).said() == old(self).said().push(fmt@)
    { unimplemented!() }
}

// =====================================================================================================
// (1) output format choice
// =====================================================================================================
// the enum is declared inside `bigwigmerge`
//@extract enum bigtools/src/utils/cli/bigwigmerge.rs OutputType
//@rule R8
//@end

/// what the help text of `BigWigMergeArgs` documents (`output`: "the path of the merged output bigwig (if .bw
/// or .bigWig) or bedGraph (if .bedGraph)"; `--output-type`: "Can be `bigwig` or `bedgraph`
/// (case-insensitive). If not specified, will be inferred from the output file ending.")
pub open spec fn documented_bigwig_name(output: Seq<char>) -> bool { ends(output, ".bw"@) || ends(output, ".bigWig"@) }
pub open spec fn documented_bedgraph_name(output: Seq<char>) -> bool { ends(output, ".bedGraph"@) }
/// the endings in any letter case (what the code accepts on top of the documented spellings)
pub open spec fn bigwig_ending(output: Seq<char>) -> bool { ends(lower(output), ".bw"@) || ends(lower(output), ".bigwig"@) }
pub open spec fn bedgraph_ending(output: Seq<char>) -> bool { ends(lower(output), ".bedgraph"@) }
/// the decision, from the documentation: an explicit --output-type decides (any letter case; anything else
/// is refused, whatever the file name); without it the ending of the output name decides
spec fn chosen(output_type: Option<Str>, output: Seq<char>) -> Option<OutputType> {
    match output_type {
        Some(t) => if lower(t@) == "bigwig"@ { Some(OutputType::BigWig) } else if lower(t@) == "bedgraph"@ { Some(OutputType::BedGraph) } else { None },
        None => if bigwig_ending(output) { Some(OutputType::BigWig) } else if bedgraph_ending(output) { Some(OutputType::BedGraph) } else { None },
    }
}
/// the documented spellings are endings in the sense of `bigwig_ending` / `bedgraph_ending`
pub proof fn lemma_documented_names(output: Seq<char>)
    ensures
        [[L: lemma/documented_spellings_are_endings_after_lower_casing]]
        documented_bigwig_name(output) ==> bigwig_ending(output),
        documented_bedgraph_name(output) ==> bedgraph_ending(output),
{
    reveal_strlit(".bw"); reveal_strlit(".bigWig"); reveal_strlit(".bedGraph");
    reveal_strlit(".bigwig"); reveal_strlit(".bedgraph");
    if ends(output, ".bw"@) {
        let t = ".bw"@; let p = output.subrange(0, output.len() - t.len());
        assert(p + t =~= output);
        axiom_lower_ascii_tail(p, t);
        assert(ascii_lower(t) =~= ".bw"@);
    }
    if ends(output, ".bigWig"@) {
        let t = ".bigWig"@; let p = output.subrange(0, output.len() - t.len());
        assert(p + t =~= output);
        axiom_lower_ascii_tail(p, t);
        assert(ascii_lower(t) =~= ".bigwig"@);
    }
    if ends(output, ".bedGraph"@) {
        let t = ".bedGraph"@; let p = output.subrange(0, output.len() - t.len());
        assert(p + t =~= output);
        axiom_lower_ascii_tail(p, t);
        assert(ascii_lower(t) =~= ".bedgraph"@);
    }
}
/// the two decisions exclude each other: no name has both endings, the two type words differ
pub proof fn lemma_exclusive(x: Seq<char>)
    ensures
        !((ends(x, ".bw"@) || ends(x, ".bigwig"@)) && ends(x, ".bedgraph"@)),
        "bigwig"@ != "bedgraph"@,
{
    reveal_strlit(".bw"); reveal_strlit(".bigwig"); reveal_strlit(".bedgraph"); reveal_strlit("bigwig"); reveal_strlit("bedgraph");
    assert("bigwig"@.len() == 6 && "bedgraph"@.len() == 8);
    if ends(x, ".bedgraph"@) {
        assert(x[x.len() - 1] == x.subrange(x.len() - 9, x.len() as int)[8]);
        if ends(x, ".bw"@) { assert(x[x.len() - 1] == x.subrange(x.len() - 3, x.len() as int)[2]); }
        if ends(x, ".bigwig"@) { assert(x[x.len() - 1] == x.subrange(x.len() - 7, x.len() as int)[6]); }
    }
}
/// a type given in any letter case of `bigwig` / `bedgraph` lower-cases to that word (ASCII only)
pub proof fn lemma_type_words(t: Seq<char>)
    ensures
        [[L: lemma/type_word_in_any_ascii_letter_case_lower_cases_to_the_word]]
        is_ascii(t) && ascii_lower(t) == "bigwig"@ ==> lower(t) == "bigwig"@,
        is_ascii(t) && ascii_lower(t) == "bedgraph"@ ==> lower(t) == "bedgraph"@,
{
    if is_ascii(t) {
        assert(Seq::<char>::empty() + t =~= t);
        axiom_lower_ascii_tail(Seq::<char>::empty(), t);
        // `ends` only pins the tail; the length of lower(t) for an all-ASCII t is part of the assumption below
        axiom_lower_ascii_whole(t);
    }
}
/// ASSUMED about std: an all-ASCII string is lower-cased char by char (nothing is added)
#[verifier::external_body]
pub proof fn axiom_lower_ascii_whole(t: Seq<char>)
    requires is_ascii(t),
    ensures lower(t) == ascii_lower(t),
{}

// The statement is carved out whole; the frame around it (signature, `Ok(Some(output_type))`) is the template's.
// `return Ok(());` of the refusing arm (the tool ends successfully without creating a file) becomes `return Ok(None);`.
//@extract fn bigtools/src/utils/cli/bigwigmerge.rs bigwigmerge
//@rule R16
//@presub /\A.*?\n([ \t]*let output_type = match \(args\.output_type, &output\) \{.*?\n    \};)\n.*\Z/ => fn choose_output_type(args: OutArgs, output: Str, env: &mut Term) -> Result<Option<OutputType>, AnyErr> {\n\1\n    Ok(Some(output_type))\n} min=1 count=1
//@sub /return Ok\(\(\)\);/ => return Ok(None); min=0
//@sub /eprintln!\(/ => elog!(env,  min=0
//@sub /([\w\.]+(?:\(\))?) == ("[^"\n]*")/ => \1.eq_lit(\2) min=0
//@sub /([\w\.]+(?:\(\))?) != ("[^"\n]*")/ => !\1.eq_lit(\2) min=0
//@ret r
//@sig
    ensures
        [[L: documented_output_names_accepted]]
        args.output_type is None && documented_bigwig_name(output@) ==> r == Ok::<Option<OutputType>, AnyErr>(Some(OutputType::BigWig)),
        args.output_type is None && documented_bedgraph_name(output@) ==> r == Ok::<Option<OutputType>, AnyErr>(Some(OutputType::BedGraph)),
        [[L: output_type_option_accepted_in_any_letter_case]]
        (args.output_type matches Some(t) && lower(t@) == "bigwig"@) ==> r == Ok::<Option<OutputType>, AnyErr>(Some(OutputType::BigWig)),
        (args.output_type matches Some(t) && lower(t@) == "bedgraph"@) ==> r == Ok::<Option<OutputType>, AnyErr>(Some(OutputType::BedGraph)),
        [[L: decision_is_the_documented_one_nothing_else_accepted]]
        r == Ok::<Option<OutputType>, AnyErr>(chosen(args.output_type, output@)),
        [[L: refusal_prints_the_message_acceptance_prints_nothing]]
        r matches Ok(c) ==> (c is Some ==> final(env).said() == old(env).said())
            && (c is None ==> final(env).said().len() == old(env).said().len() + 1),
//@open
    proof {
        lemma_documented_names(output@);
        lemma_exclusive(lower(output@));
    }
//@end
/// the two arguments the statement reads (`args.output_type`; `args.output` was moved to `output` before)
pub struct OutArgs { pub output_type: Option<Str> }

// =====================================================================================================
// (2) get_merged_vals
// =====================================================================================================
/// `BBIFileInfo` of one input (header + cached chromosome table), cloned per chromosome: opaque token
pub struct Info { pub id: u64 }
impl Clone for Info { fn clone(&self) -> (r: Self) ensures r == *self { Info { id: self.id } } }
impl Copy for Info {}
/// `PathBuf` of one input: opaque token
pub struct Path { pub id: u64 }
impl Clone for Path { fn clone(&self) -> (r: Self) ensures r == *self { Path { id: self.id } } }
impl Copy for Path {}
/// std::fs::File
#[verifier::external_body]
pub struct File { _p: u8 }
impl File {
    pub uninterp spec fn path(&self) -> Path;
    /// `File::open(&path)?` inside the per-file closures: the io::Error -> BBIReadError -> MergingValuesError
    /// conversions of the two `?` are folded into the shim (which error: lost either way)
    #[verifier::external_body]
    pub fn open(p: &Path) -> (r: Result<File, MergingValuesError>)
        ensures r matches Ok(f) ==> f.path() == *p
    { unimplemented!() }
}
//@extract struct bigtools/src/utils/file/reopen.rs ReopenableFile
//@rule R8
//@sub /PathBuf/ => Path min=1
//@end
//@extract struct bigtools/src/bbi/bigwigread.rs BigWigRead
//@rule R8
//@sub /BigWigRead<R>/ => BigWigRead min=1
//@sub /info: BBIFileInfo/ => info: Info min=1
//@sub /read: R,/ => read: ReopenableFile, min=1
//@end

/// one whole-file query: which input (cached info + path, as stored per chromosome), which chromosome NAME, which range
pub ghost struct Query { pub info: Info, pub path: Path, pub chrom: Seq<char>, pub start: u32, pub end: u32 }
/// where a value stream comes from
pub ghost enum Src {
    /// `get_interval_move(chrom, start, end)` on one input
    File(Query),
    /// every value of the merge described, drained completely and replayed in the same order
    Replay(MVDesc),
}
/// one `MergingValues::new(iters, threshold, adjust, clip)`
pub ghost struct MVDesc { pub parts: Seq<Src>, pub threshold: f32, pub adjust: Option<f32>, pub clip: Option<f32> }
/// BigWigIntervalIter<ReopenableFile, BigWigRead<ReopenableFile>>
#[verifier::external_body]
pub struct BigWigIntervalIter { _p: u8 }
impl BigWigIntervalIter { pub uninterp spec fn q(&self) -> Query; }
/// `Box<dyn Iterator<Item = Result<Value, MergingValuesError>> + Send>` / the `impl Iterator` the closures return
#[verifier::external_body]
pub struct Stream { _p: u8 }
impl Stream { pub uninterp spec fn src(&self) -> Src; }
pub open spec fn srcs(v: Seq<Stream>) -> Seq<Src> { Seq::new(v.len(), |i: int| v[i].src()) }
/// `.map(|i| i.map(|r| r.map_err(|e| MergingValuesError::BBIReadError(e))))` on the query result: the same
/// values with the error type wrapped (a //@sub routes the adaptor chain here; the BBIReadError ->
/// MergingValuesError conversion of the following `?` is folded in)
#[verifier::external_body]
pub fn wrap_errs(r: Result<BigWigIntervalIter, BBIReadError>) -> (w: Result<Stream, MergingValuesError>)
    ensures
        r matches Ok(it) ==> (w matches Ok(s) && s.src() == Src::File(it.q())),
        r is Err ==> w is Err,
{ unimplemented!() }
impl BigWigRead {
//@extract method bigtools/src/bbi/bigwigread.rs with_info "^impl<R> BigWigRead<R> where R: BBIFileRead"
//@rule R16
//@sub /info: BBIFileInfo/ => info: Info min=1
//@sub /read: R\)/ => read: ReopenableFile) min=1
//@ret r
//@sig
        ensures
            [[L: pairs_the_cached_info_with_the_reopened_file]]
            r.info == info && r.read == read,
//@end
    /// ASSUMED (proved in unit query_glue, labels bw_get_move/..): the iterator runs on the chromosome with the
    /// requested NAME over exactly the requested range of this reader
    #[verifier::external_body]
    pub fn get_interval_move(self, chrom_name: &Str, start: u32, end: u32) -> (r: Result<BigWigIntervalIter, BBIReadError>)
        ensures r matches Ok(it) ==> it.q() == (Query { info: self.info, path: self.read.path, chrom: chrom_name@, start, end })
    { unimplemented!() }
}

/// the item sequence of the merged stream a description stands for (ASSUMED deterministic: the inputs are files
/// that do not change while the tool runs); what the values are: units value_iter, merge_into, mv_adjust
pub uninterp spec fn mv_out(d: MVDesc) -> Seq<Result<Value, MergingValuesError>>;
/// `Peekable<Box<dyn Iterator<Item = Result<Value, MergingValuesError>> + Send>>`
#[verifier::external_body]
pub struct VIter { _p: u8 }
impl VIter {
    pub uninterp spec fn desc(&self) -> MVDesc;
    pub uninterp spec fn rest(&self) -> Seq<Result<Value, MergingValuesError>>;
    #[verifier::external_body]
    pub fn next(&mut self) -> (r: Option<Result<Value, MergingValuesError>>)
        ensures
            final(self).desc() == old(self).desc(),
            old(self).rest().len() == 0 ==> r is None && final(self).rest() == old(self).rest(),
            old(self).rest().len() > 0 ==> r == Some(old(self).rest()[0]) && final(self).rest() == old(self).rest().drop_first(),
    { unimplemented!() }
    #[verifier::external_body]
    pub fn peek(&mut self) -> (r: Option<&Result<Value, MergingValuesError>>)
        ensures
            final(self).desc() == old(self).desc(), final(self).rest() == old(self).rest(),
            old(self).rest().len() == 0 ==> r is None,
            old(self).rest().len() > 0 ==> (r matches Some(x) && *x == old(self).rest()[0]),
    { unimplemented!() }
}
//@extract struct bigtools/src/utils/cli/bigwigmerge.rs MergingValues
//@rule R8
//@sub /iter: std::iter::Peekable<Box<dyn Iterator<Item = Result<Value, MergingValuesError>> \+ Send>>,/ => pub iter: VIter, min=1
//@end
impl MergingValues {
// signature cut from /repo (parameter order!), body skipped: the closures inside are unit mv_adjust, the merge
// is units value_iter / merge_into.  ASSUMED: the result stands for exactly this call.
//@extract method bigtools/src/utils/cli/bigwigmerge.rs new "impl MergingValues"
//@rule R16
//@skipbody
//@sub /new<I: 'static>/ => new min=1
//@sub /iters: Vec<I>/ => iters: Vec<Stream> min=1
//@sub /where\s+I: Iterator<Item = Result<Value, MergingValuesError>> \+ Send,/ => "" min=1
//@ret r
//@sig
        ensures
            r.iter.desc() == (MVDesc { parts: srcs(iters@), threshold, adjust, clip }),
            r.iter.rest() == mv_out(r.iter.desc()),
//@end
}

// ---- crossbeam_channel::unbounded (chunked branch: a partial merge is drained into a channel) ----
#[verifier::external_body] #[derive(Debug)]
pub struct SendErr { _p: u8 }
#[verifier::external_body] #[verifier::reject_recursive_types(T)]
pub struct Sender<T> { _p: core::marker::PhantomData<T> }
#[verifier::external_body] #[verifier::reject_recursive_types(T)]
pub struct Receiver<T> { _p: core::marker::PhantomData<T> }
impl<T> Sender<T> {
    pub uninterp spec fn chan(&self) -> int;
    pub uninterp spec fn sent(&self) -> Seq<T>;
    /// never fails while the receiver is alive (it is: same scope)
    #[verifier::external_body]
    pub fn send(&mut self, v: T) -> (r: Result<(), SendErr>)
        ensures r is Ok, final(self).chan() == old(self).chan(), final(self).sent() == old(self).sent().push(v),
    { unimplemented!() }
}
impl<T> Receiver<T> { pub uninterp spec fn chan(&self) -> int; }
#[verifier::external_body]
pub fn unbounded<T>() -> (r: (Sender<T>, Receiver<T>))
    ensures r.0.chan() == r.1.chan(), r.0.sent() == Seq::<T>::empty(),
{ unimplemented!() }
/// the Ok values of an item sequence, in order
pub open spec fn oks(s: Seq<Result<Value, MergingValuesError>>) -> Seq<Value> { Seq::new(s.len(), |i: int| s[i]->Ok_0) }
pub open spec fn all_ok(s: Seq<Result<Value, MergingValuesError>>) -> bool { forall|i: int| 0 <= i < s.len() ==> (#[trigger] s[i]) is Ok }
/// `Box::new(receiver.into_iter().map(Result::Ok))` at the end of the scope of `sender`: once the sender is
/// dropped the receiver's iterator yields exactly what was sent, each value wrapped in Ok.  The ghost argument
/// names the merge whose complete, error-free output that is (a precondition, so this is no assumption).
#[verifier::external_body]
pub fn replay(sender: Sender<Value>, receiver: Receiver<Value>, Ghost(d): Ghost<MVDesc>) -> (s: Stream)
    requires sender.chan() == receiver.chan(), all_ok(mv_out(d)), sender.sent() == oks(mv_out(d)),
    ensures s.src() == Src::Replay(d),
{ unimplemented!() }
/// `merges.into_iter().peekable()` over the streams of one level
#[verifier::external_body]
pub struct PeekStreams { _p: u8 }
impl PeekStreams {
    pub uninterp spec fn rest(&self) -> Seq<Src>;
    #[verifier::external_body]
    pub fn of(v: Vec<Stream>) -> (r: PeekStreams) ensures r.rest() == srcs(v@) { unimplemented!() }
    #[verifier::external_body]
    pub fn peek(&self) -> (r: Option<&Stream>)
        ensures r is Some <==> self.rest().len() > 0, r matches Some(s) ==> s.src() == self.rest()[0],
    { unimplemented!() }
    /// `vals.by_ref().take(n).collect::<Vec<_>>()`: the next min(n, remaining) streams, in order
    #[verifier::external_body]
    pub fn take_n(&mut self, n: usize) -> (r: Vec<Stream>)
        ensures
            r@.len() == (if n as int <= old(self).rest().len() { n as int } else { old(self).rest().len() as int }),
            srcs(r@) == old(self).rest().subrange(0, r@.len() as int),
            final(self).rest() == old(self).rest().subrange(r@.len() as int, old(self).rest().len() as int),
    { unimplemented!() }
}

// ---- the queries a chromosome must be built from (C15: "covers every base of every chromosome from position 0") ----
/// one query per file that has the chromosome, in file order, over [start, end) of that chromosome
pub open spec fn queries(bws: Seq<(Info, Path)>, chrom: Seq<char>, start: u32, end: u32) -> Seq<Query> {
    Seq::new(bws.len(), |i: int| Query { info: bws[i].0, path: bws[i].1, chrom, start, end })
}
pub open spec fn file_srcs(qs: Seq<Query>) -> Seq<Src> { Seq::new(qs.len(), |i: int| Src::File(qs[i])) }
/// the file queries a stream is ultimately made of, left to right
pub open spec fn leaves(s: Src) -> Seq<Query>
    decreases s, 0nat
{
    match s { Src::File(q) => seq![q], Src::Replay(d) => kids(d, d.parts.len()) }
}
pub open spec fn kids(d: MVDesc, n: nat) -> Seq<Query>
    decreases d, n
{
    if n == 0 || n > d.parts.len() { Seq::empty() } else { kids(d, (n - 1) as nat) + leaves(d.parts[n - 1]) }
}
pub open spec fn flat_n(ps: Seq<Src>, n: nat) -> Seq<Query>
    decreases n
{
    if n == 0 || n > ps.len() { Seq::empty() } else { flat_n(ps, (n - 1) as nat) + leaves(ps[n - 1]) }
}
pub open spec fn flat(ps: Seq<Src>) -> Seq<Query> { flat_n(ps, ps.len()) }
// ---- f32 constants (rule R12c covers f64 only; same device: getter + distinct uninterpreted spec constant) ----
pub uninterp spec fn spec_f32_neg_infinity() -> f32;
pub uninterp spec fn spec_f32_infinity() -> f32;
pub uninterp spec fn spec_f32_max() -> f32;
pub uninterp spec fn spec_f32_min() -> f32;
pub uninterp spec fn spec_f32_nan() -> f32;
#[verifier::external_body] pub fn fconst_f32_neg_infinity() -> (r: f32) ensures r == spec_f32_neg_infinity() { f32::NEG_INFINITY }
// what an edit might write instead: unrelated constants (judged, not rejected)
#[verifier::external_body] pub fn fconst_f32_infinity() -> (r: f32) ensures r == spec_f32_infinity() { f32::INFINITY }
#[verifier::external_body] pub fn fconst_f32_max() -> (r: f32) ensures r == spec_f32_max() { f32::MAX }
#[verifier::external_body] pub fn fconst_f32_min() -> (r: f32) ensures r == spec_f32_min() { f32::MIN }
#[verifier::external_body] pub fn fconst_f32_nan() -> (r: f32) ensures r == spec_f32_nan() { f32::NAN }
/// the strict `v.value > threshold` test of the `.filter(..)` closure of `MergingValues::new` (unit mv_adjust:
/// `kept_iff_strictly_above_threshold`, same uninterpreted predicate)
pub uninterp spec fn fgt32(a: f32, b: f32) -> bool;
/// x is a value the k-way merge can emit (a per-base sum of the inputs' values)
pub uninterp spec fn merge_value(x: f32) -> bool;
/// a threshold that drops nothing the merge emits
pub open spec fn keeps_everything(threshold: f32) -> bool { forall|x: f32| #[trigger] merge_value(x) ==> fgt32(x, threshold) }
/// THE float assumption of this unit, on the comparison shim: every value the k-way merge emits compares
/// strictly greater than -infinity, i.e. the merge never emits -infinity or NaN (true for finite inputs whose
/// per-base sums stay finite; an input that stores -inf/NaN, or sums that overflow f32, are outside it)
#[verifier::external_body]
pub proof fn axiom_merge_values_exceed_neg_infinity()
    ensures forall|x: f32| #[trigger] merge_value(x) ==> fgt32(x, spec_f32_neg_infinity()),
{}
/// a partial merge must be a plain per-base sum: no clip, no adjustment, a threshold that drops nothing
pub open spec fn plain(s: Src) -> bool
    decreases s
{
    match s {
        Src::File(q) => true,
        Src::Replay(d) => d.adjust is None && d.clip is None && keeps_everything(d.threshold)
            && forall|i: int| 0 <= i < d.parts.len() ==> plain(#[trigger] d.parts[i]),
    }
}
pub open spec fn all_plain(ps: Seq<Src>) -> bool { forall|i: int| 0 <= i < ps.len() ==> plain(#[trigger] ps[i]) }
pub proof fn lemma_kids(d: MVDesc, n: nat)
    requires n <= d.parts.len()
    ensures kids(d, n) == flat_n(d.parts, n)
    decreases n
{
    if n > 0 { lemma_kids(d, (n - 1) as nat); }
}
pub proof fn lemma_flat_prefix(ps: Seq<Src>, qs: Seq<Src>, n: nat)
    requires n <= ps.len(), n <= qs.len(), ps.subrange(0, n as int) == qs.subrange(0, n as int)
    ensures flat_n(ps, n) == flat_n(qs, n)
    decreases n
{
    if n > 0 {
        assert(ps.subrange(0, n - 1) =~= ps.subrange(0, n as int).subrange(0, n - 1));
        assert(qs.subrange(0, n - 1) =~= qs.subrange(0, n as int).subrange(0, n - 1));
        lemma_flat_prefix(ps, qs, (n - 1) as nat);
        assert(ps[n - 1] == ps.subrange(0, n as int)[n - 1]);
        assert(qs[n - 1] == qs.subrange(0, n as int)[n - 1]);
    }
}
pub proof fn lemma_flat_push(ps: Seq<Src>, s: Src)
    ensures flat(ps.push(s)) == flat(ps) + leaves(s)
{
    assert(ps.push(s).subrange(0, ps.len() as int) =~= ps.subrange(0, ps.len() as int));
    lemma_flat_prefix(ps.push(s), ps, ps.len());
}
pub proof fn lemma_flat_concat(a: Seq<Src>, b: Seq<Src>)
    ensures flat(a + b) == flat(a) + flat(b)
    decreases b.len()
{
    if b.len() == 0 {
        assert(a + b =~= a);
        assert(flat(a) + flat(b) =~= flat(a));
    } else {
        lemma_flat_concat(a, b.drop_last());
        assert((a + b.drop_last()).push(b.last()) =~= a + b);
        lemma_flat_push(a + b.drop_last(), b.last());
        assert(b.drop_last().push(b.last()) =~= b);
        lemma_flat_push(b.drop_last(), b.last());
        assert((flat(a) + flat(b.drop_last())) + leaves(b.last()) =~= flat(a) + (flat(b.drop_last()) + leaves(b.last())));
    }
}
pub proof fn lemma_flat_files(qs: Seq<Query>)
    ensures flat(file_srcs(qs)) == qs
    decreases qs.len()
{
    if qs.len() == 0 {
        assert(flat(file_srcs(qs)) =~= qs);
    } else {
        lemma_flat_files(qs.drop_last());
        assert(file_srcs(qs.drop_last()).push(Src::File(qs.last())) =~= file_srcs(qs));
        lemma_flat_push(file_srcs(qs.drop_last()), Src::File(qs.last()));
        assert(qs.drop_last() + seq![qs.last()] =~= qs);
    }
}
pub proof fn lemma_leaves_replay(d: MVDesc)
    ensures leaves(Src::Replay(d)) == flat(d.parts)
{
    lemma_kids(d, d.parts.len());
}

// (2b-i) the two per-file closures `|b| { .. }` (chunked branch first, few-files branch second), carved into
// ONE function: `many` selects the body.  Frame (signature, `if many { .. } else { .. }`) is the template's.
//@extract fn bigtools/src/utils/cli/bigwigmerge.rs get_merged_vals
//@rule R16
//@presub /\A.*?\.map\(\|b\| \{(.*?)\n[ \t]*\}\)\s*\.collect::<Result<Vec<_>, BBIReadError>>\(\)\?;.*?\.map\(\|b\| \{(.*?)\n[ \t]*\}\)\s*\.collect::<Result<Vec<_>, _>>\(\)\?;.*\Z/ => fn open_stream(b: (Info, Path), chrom: &Str, size: u32, many: bool) -> Result<Stream, MergingValuesError> {\n    if many {\1\n    } else {\2\n    }\n} min=1 count=1
//@sub /(\w+\.get_interval_move\([^()]*\))\.map\(\|i\| i\.map\(\|r\| r\.map_err\(\|e\| MergingValuesError::BBIReadError\(e\)\)\)\)/ => wrap_errs(\1) min=0
//@sub /Box::new\((\w+)\) as Box<_>/ => \1 min=0
//@ret r
//@sig
    ensures
        [[L: queries_start_at_base_0]]
        r matches Ok(s) ==> s.src() is File && s.src()->File_0.start == 0,
        [[L: each_file_is_queried_on_this_chromosome_up_to_its_size]]
        r matches Ok(s) ==> s.src() == Src::File(Query { info: b.0, path: b.1, chrom: chrom@, start: s.src()->File_0.start, end: size }),
//@end

/// `bws.into_iter().map(|b| BODY).collect::<Result<Vec<_>, _>>()?` with BODY = `open_stream(b, .., many)`:
/// the closure is applied to the files in order, the first Err ends the collection and is the result
pub fn collect_streams(bws: &Vec<(Info, Path)>, chrom: &Str, size: u32, many: bool) -> (r: Result<Vec<Stream>, MergingValuesError>)
    ensures
        r matches Ok(v) ==> v@.len() == bws@.len() && forall|i: int| 0 <= i < v@.len() ==>
            (#[trigger] v@[i]).src() == Src::File(Query { info: bws@[i].0, path: bws@[i].1, chrom: chrom@, start: 0, end: size }),
{
    let mut out: Vec<Stream> = Vec::new();
    let mut k: usize = 0;
    while k < bws.len()
        invariant
            k <= bws.len(), out@.len() == k,
            forall|i: int| 0 <= i < k ==> (#[trigger] out@[i]).src() == Src::File(Query { info: bws@[i].0, path: bws@[i].1, chrom: chrom@, start: 0, end: size }),
        decreases bws.len() - k,
    {
        match open_stream(bws[k], chrom, size, many) {
            Ok(s) => { out.push(s); }
            Err(e) => { return Err(e); }
        }
        k = k + 1;
    }
    Ok(out)
}

// (2b-ii) the per-chromosome closure `move |(chrom, (size, bws))| { .. }` handed to `chrom_sizes.into_iter().map(..)`.
// STRUCTURAL (R11): each `bws.into_iter().map(|b| {..}).collect::<Result<Vec<_>, _>>()?` becomes
// `collect_streams(&bws, &chrom, size, many)?` (verified above; the closure bodies are (2b-i)).
//@extract fn bigtools/src/utils/cli/bigwigmerge.rs get_merged_vals
//@rule R16
//@presub /\A.*?let iter = chrom_sizes\.into_iter\(\)\.map\(move \|\(chrom, \(size, bws\)\)\| \{\n(.*)\n    \}\);\s*Ok\(\(iter, chrom_map\)\)\s*\}\s*\Z/ => fn per_chrom(chrom: Str, size: u32, bws: Vec<(Info, Path)>, max_bw_fds: usize, threshold: f32, adjust: Option<f32>, clip: Option<f32>) -> Result<(Str, u32, MergingValues), MergingValuesError> {\n\1\n} min=1 count=1
//@sub /bws\s*\.into_iter\(\)\s*\.map\(\|b\| \{.*?\n[ \t]*\}\)\s*\.collect::<Result<Vec<_>, \w+>>\(\)\?;/ => collect_streams(&bws, &chrom, size, true)?; min=1 count=1
//@sub /bws\s*\.into_iter\(\)\s*\.map\(\|b\| \{.*?\n[ \t]*\}\)\s*\.collect::<Result<Vec<_>, \w+>>\(\)\?;/ => collect_streams(&bws, &chrom, size, false)?; min=1 count=1
//@sub /Vec<Box<dyn Iterator<Item = Result<Value, MergingValuesError>> \+ Send>>/ => Vec<Stream> min=0
//@sub /: Vec<_> = collect_streams/ => : Vec<Stream> = collect_streams min=0
//@sub /merges\.into_iter\(\)\.peekable\(\)/ => PeekStreams::of(merges) min=0
//@sub /vals\.by_ref\(\)\.take\(([^()]*)\)\.collect::<Vec<_>>\(\)/ => vals.take_n(\1) min=0
//@sub /\bf32::NEG_INFINITY\b/ => fconst_f32_neg_infinity() min=0
//@sub /\bf32::INFINITY\b/ => fconst_f32_infinity() min=0
//@sub /\bf32::MAX\b/ => fconst_f32_max() min=0
//@sub /\bf32::MIN\b/ => fconst_f32_min() min=0
//@sub /\bf32::NAN\b/ => fconst_f32_nan() min=0
//@sub /let \(sender, receiver\)/ => let (mut sender, receiver) min=0
//@sub /Box::new\(receiver\.into_iter\(\)\.map\(Result::Ok\)\)/ => replay(sender, receiver, Ghost(mergingvalues.iter.desc())) min=0
//@ret r
//@sig
    requires
        // the chunked branch divides by it, and regrouping only shrinks the list for groups of >= 2
        // (established for the tool's constants by `fd_budget` below)
        max_bw_fds >= 2,
    ensures
        [[L: name_and_size_are_passed_on]]
        r matches Ok(t) ==> t.0@ == chrom@ && t.1 == size,
        [[L: every_file_contributes_its_whole_chromosome_query_exactly_once_in_order]]
        r matches Ok(t) ==> flat(t.2.iter.desc().parts) == queries(bws@, chrom@, 0, size),
        [[L: final_merge_gets_threshold_adjust_clip_in_that_order]]
        r matches Ok(t) ==> t.2.iter.desc().threshold == threshold && t.2.iter.desc().adjust == adjust && t.2.iter.desc().clip == clip,
        [[L: few_files/one_merge_over_the_file_streams]]
        r matches Ok(t) ==> (bws@.len() <= max_bw_fds ==> t.2.iter.desc().parts == file_srcs(queries(bws@, chrom@, 0, size))),
        [[L: merged_stream_is_fresh]]
        r matches Ok(t) ==> t.2.iter.rest() == mv_out(t.2.iter.desc()),
        [[L: chunked/partial_merges_are_plain_sums]]
        r matches Ok(t) ==> all_plain(t.2.iter.desc().parts),
//@open
    let ghost qs = queries(bws@, chrom@, 0, size);
    proof { lemma_flat_files(qs); }
//@at /let mut merges: Vec<Stream> = collect_streams/ after
            proof { assert(srcs(merges@) =~= file_srcs(qs)); }
//@at /let iters: Vec<Stream> = collect_streams/ after
            proof { assert(srcs(iters@) =~= file_srcs(qs)); }
//@loop 1
                invariant
                    [[L: chunked/loop/every_level_is_made_of_all_queries_in_order]]
                    flat(srcs(merges@)) == qs,
                    max_bw_fds >= 2,
                    [[L: chunked/loop/no_regrouping_when_the_files_fit_in_one_group]]
                    bws@.len() <= max_bw_fds ==> srcs(merges@) == file_srcs(qs),
                    qs.len() == bws@.len(),
                    [[L: chunked/loop/partial_merges_are_plain_sums]]
                    all_plain(srcs(merges@)),
                decreases
                    [[L: chunked/loop/termination_each_level_is_shorter]]
                    merges@.len(),
//@at /let len = merges\.len\(\);/ after
                    let ghost level = srcs(merges@);
                    proof { if bws@.len() <= max_bw_fds { assert(srcs(merges@).len() == file_srcs(qs).len()); } assert(bws@.len() > max_bw_fds); }
                    proof { assert(len as int / max_bw_fds as int <= len as int / 2) by (nonlinear_arith) requires max_bw_fds >= 2, len >= 0; }
//@loop 2
                        invariant
                            [[L: chunked/regroup/done_plus_pending_is_the_level]]
                            flat(srcs(merges@)) + flat(vals.rest()) == qs,
                            max_bw_fds >= 2, len >= 3, len == level.len(),
                            vals.rest().len() <= len,
                            [[L: chunked/regroup/groups_of_at_least_two_except_the_last]]
                            2 * merges@.len() + vals.rest().len() <= len || (vals.rest().len() == 0 && 2 * merges@.len() <= len + 1),
                            [[L: chunked/regroup/partial_merges_are_plain_sums]]
                            all_plain(srcs(merges@)), all_plain(vals.rest()),
                        decreases
                            [[L: chunked/regroup/termination_each_group_consumes_a_stream]]
                            vals.rest().len(),
//@at /let chunk = vals\.take_n/ before
                        let ghost pending = vals.rest();
                        let ghost done = srcs(merges@);
//@at /let chunk = vals\.take_n/ after
                        proof {
                            [[L: chunked/regroup/a_group_is_the_next_streams_and_nothing_is_skipped]]
                            assert(pending =~= srcs(chunk@) + vals.rest());
                            lemma_flat_concat(srcs(chunk@), vals.rest());
                        }
//@at /let \(mut sender, receiver\)/ after
                        let ghost d0 = mergingvalues.iter.desc();
                        proof {
                            let whole = mv_out(mergingvalues.iter.desc());
                            assert(whole.subrange(0, whole.len() as int) =~= whole);
                            assert(oks(whole.subrange(0, 0)) =~= Seq::<Value>::empty());
                        }
//@loop 3
                            invariant
                                [[L: chunked/drain/everything_read_so_far_was_sent_in_order]]
                                mergingvalues.iter.desc() == d0,
                                exists|j: int| 0 <= j <= mv_out(mergingvalues.iter.desc()).len()
                                    && #[trigger] mv_out(mergingvalues.iter.desc()).subrange(j, mv_out(mergingvalues.iter.desc()).len() as int) == mergingvalues.iter.rest()
                                    && all_ok(mv_out(mergingvalues.iter.desc()).subrange(0, j))
                                    && sender.sent() == oks(mv_out(mergingvalues.iter.desc()).subrange(0, j)),
                                sender.chan() == receiver.chan(),
                            ensures
                                [[L: chunked/drain/the_partial_merge_is_read_to_its_end]]
                                mergingvalues.iter.rest().len() == 0,
                            decreases
                                [[L: chunked/drain/termination]]
                                mergingvalues.iter.rest().len(),
//@at /let val = match mergingvalues\.iter\.next\(\) \{/ before
                            let ghost whole = mv_out(mergingvalues.iter.desc());
                            let ghost j0 = choose|j: int| 0 <= j <= whole.len() && #[trigger] whole.subrange(j, whole.len() as int) == mergingvalues.iter.rest()
                                && all_ok(whole.subrange(0, j)) && sender.sent() == oks(whole.subrange(0, j));
                            let ghost sent0 = sender.sent();
//@at /sender\.send\(val\)/ after
                            proof {
                                assert(whole.subrange(j0, whole.len() as int)[0] == whole[j0]);
                                assert(whole.subrange(j0, whole.len() as int).drop_first() =~= whole.subrange(j0 + 1, whole.len() as int));
                                assert(whole.subrange(0, j0 + 1) =~= whole.subrange(0, j0).push(whole[j0]));
                                assert(oks(whole.subrange(0, j0 + 1)) =~= oks(whole.subrange(0, j0)).push(val));
                            }
//@at /merges\.push\(replay\(/ before
                        proof {
                            let whole = mv_out(mergingvalues.iter.desc());
                            let j = choose|j: int| 0 <= j <= whole.len() && #[trigger] whole.subrange(j, whole.len() as int) == mergingvalues.iter.rest()
                                && all_ok(whole.subrange(0, j)) && sender.sent() == oks(whole.subrange(0, j));
                            assert(whole.subrange(j, whole.len() as int).len() == 0);
                            assert(whole.subrange(0, j) =~= whole);
                        }
//@at /merges\.push\(replay\(/ after
                        proof {
                            let d = d0;
                            assert(d.parts == srcs(chunk@));
                            axiom_merge_values_exceed_neg_infinity();
                            assert(srcs(merges@) =~= done.push(Src::Replay(d)));
                            lemma_flat_push(done, Src::Replay(d));
                            lemma_leaves_replay(d);
                            assert forall|i: int| 0 <= i < d.parts.len() implies plain(#[trigger] d.parts[i]) by { assert(d.parts[i] == pending[i]); }
                            assert forall|i: int| 0 <= i < vals.rest().len() implies plain(#[trigger] vals.rest()[i]) by { assert(vals.rest()[i] == pending[i + chunk@.len()]); }
                            assert((flat(done) + flat(srcs(chunk@))) + flat(vals.rest()) =~= flat(done) + (flat(srcs(chunk@)) + flat(vals.rest())));
                        }
//@at /let mergingvalues = MergingValues::new\(merges, / before
            proof { assert(flat(Seq::<Src>::empty()) =~= Seq::<Query>::empty()); }
//@end

// (2c) the file-descriptor budget: the three statements `const MAX_FDS ..; const PARALLEL_CHROMS ..; let max_bw_fds ..;`
//@extract fn bigtools/src/utils/cli/bigwigmerge.rs get_merged_vals
//@rule R16
//@presub /\A.*?\n([ \t]*const MAX_FDS: usize = .*?let max_bw_fds: usize = .*?;)\n.*\Z/ => fn fd_budget(max_zooms: usize) -> usize {\n\1\n    max_bw_fds\n} min=1 count=1
//@ret r
//@sig
    requires
        // the tool passes the literal 10 (checked at the call, (6) below)
        max_zooms <= 10,
    ensures
        [[L: fd_budget/groups_of_at_least_two_streams]]
        r >= 2,
        [[L: fd_budget/chunking_starts_above_976_files_for_10_zoom_levels]]
        max_zooms == 10 ==> r == 976,
//@end

// =====================================================================================================
// (2a) get_merged_vals: the chromosome table (which chromosomes, which size, which files)
// =====================================================================================================
//@extract struct bigtools/src/bbi/bbiread.rs ChromInfo
//@rule R8
//@sub /name: String/ => name: Str min=1
//@sub /#\[derive\(Clone(?:, Debug)?\)\]\n/ => "" min=0
//@end
/// the cached chromosome table inside a `BBIFileInfo`
pub uninterp spec fn chroms_of(info: Info) -> Seq<ChromInfo>;
impl BigWigRead {
    /// `BigWigRead::chroms`: `&self.info.chrom_info`
    #[verifier::external_body]
    pub fn chroms(&self) -> (r: &Vec<ChromInfo>) ensures r@ == chroms_of(self.info) { unimplemented!() }
    /// `BigWigRead::info`: `&self.info`
    pub fn info(&self) -> (r: &Info) ensures *r == self.info { &self.info }
    /// `BigWigRead::inner_read`: `&self.read`
    pub fn inner_read(&self) -> (r: &ReopenableFile) ensures *r == self.read { &self.read }
}
/// the FIRST entry of a chromosome table, from position i on, with that name (what `.iter().find(..)` returns)
pub open spec fn lookup_from(v: Seq<ChromInfo>, n: Seq<char>, i: int) -> Option<ChromInfo>
    decreases v.len() - i
{
    if i < 0 || i >= v.len() { None } else if v[i].name@ == n { Some(v[i]) } else { lookup_from(v, n, i + 1) }
}
/// `V.iter().find(|v| v.name == chrom)` (closures over iterators are outside Verus: same result by a verified loop)
pub fn find_chrom<'a>(v: &'a Vec<ChromInfo>, chrom: &Str) -> (r: Option<&'a ChromInfo>)
    ensures
        r matches Some(c) ==> lookup_from(v@, chrom@, 0) == Some(*c),
        r is None ==> lookup_from(v@, chrom@, 0) is None,
{
    let mut i: usize = 0;
    while i < v.len()
        invariant i <= v.len(), lookup_from(v@, chrom@, 0) == lookup_from(v@, chrom@, i as int),
        decreases v.len() - i,
    {
        if str_eq(&v[i].name, chrom) { return Some(&v[i]); }
        i = i + 1;
    }
    None
}
/// `V.iter().find(|v| v.name != chrom)`: the FIRST entry whose name DIFFERS (what `find` with that predicate returns)
pub fn find_chrom_ne<'a>(v: &'a Vec<ChromInfo>, chrom: &Str) -> (r: Option<&'a ChromInfo>)
    ensures
        r matches Some(c) ==> exists|k: int| 0 <= k < v@.len() && v@[k] == *c && v@[k].name@ != chrom@
            && forall|j: int| 0 <= j < k ==> (#[trigger] v@[j]).name@ == chrom@,
        r is None ==> forall|j: int| 0 <= j < v@.len() ==> (#[trigger] v@[j]).name@ == chrom@,
{
    let mut i: usize = 0;
    while i < v.len()
        invariant i <= v.len(), forall|j: int| 0 <= j < i ==> (#[trigger] v@[j]).name@ == chrom@,
        decreases v.len() - i,
    {
        if !str_eq(&v[i].name, chrom) { return Some(&v[i]); }
        i = i + 1;
    }
    None
}
/// file j has a chromosome of that name / the length it records for it
pub open spec fn has(files: Seq<BigWigRead>, j: int, name: Seq<char>) -> bool { lookup_from(chroms_of(files[j].info), name, 0) is Some }
pub open spec fn size_in(files: Seq<BigWigRead>, j: int, name: Seq<char>) -> u32 { lookup_from(chroms_of(files[j].info), name, 0)->Some_0.length }
/// (cached info, path) of the files among the first n that have the chromosome, in file order
pub open spec fn files_with(files: Seq<BigWigRead>, name: Seq<char>, n: int) -> Seq<(Info, Path)>
    decreases n
{
    if n <= 0 { Seq::empty() } else if has(files, n - 1, name) { files_with(files, name, n - 1).push((files[n - 1].info, files[n - 1].read.path)) } else { files_with(files, name, n - 1) }
}
pub open spec fn some_has(files: Seq<BigWigRead>, name: Seq<char>) -> bool { exists|j: int| 0 <= j < files.len() && #[trigger] has(files, j, name) }
pub open spec fn listed(names: Seq<Str>, name: Seq<char>) -> bool { exists|i: int| 0 <= i < names.len() && (#[trigger] names[i])@ == name }
/// `bigwigs.iter().flat_map(BigWigRead::chroms).map(|c| c.name.clone())`, collected: ASSUMED only that it
/// yields names of chromosomes of the inputs, and every chromosome name of every input (order, repetitions: free)
#[verifier::external_body]
pub fn all_names(files: &Vec<BigWigRead>) -> (r: Vec<Str>)
    ensures
        forall|i: int| 0 <= i < r@.len() ==> some_has(files@, (#[trigger] r@[i])@),
        forall|j: int, name: Seq<char>| 0 <= j < files@.len() && #[trigger] has(files@, j, name) ==> listed(r@, name),
{ unimplemented!() }
/// `BTreeMap<String, (u32, Vec<(BBIFileInfo, PathBuf)>)>` (iteration order = name order: not used here)
#[verifier::external_body]
pub struct BTreeMap { _p: u8 }
impl BTreeMap {
    pub uninterp spec fn view(&self) -> Map<Seq<char>, (u32, Seq<(Info, Path)>)>;
    #[verifier::external_body]
    pub fn new() -> (r: BTreeMap) ensures r@ == Map::<Seq<char>, (u32, Seq<(Info, Path)>)>::empty() { unimplemented!() }
    #[verifier::external_body]
    pub fn get(&self, k: &Str) -> (r: Option<&(u32, Vec<(Info, Path)>)>)
        ensures r is Some <==> self@.dom().contains(k@), r matches Some(v) ==> (v.0, v.1@) == self@[k@],
    { unimplemented!() }
    #[verifier::external_body]
    pub fn contains_key(&self, k: &Str) -> (r: bool) ensures r == self@.dom().contains(k@) { unimplemented!() }
    #[verifier::external_body]
    pub fn insert(&mut self, k: Str, v: (u32, Vec<(Info, Path)>)) -> (r: Option<(u32, Vec<(Info, Path)>)>)
        ensures final(self)@ == old(self)@.insert(k@, (v.0, v.1@)),
    { unimplemented!() }
}
/// `HashMap<String, u32>` handed to the bigWig writer as the chromosome sizes
#[verifier::external_body]
pub struct HashMap { _p: u8 }
impl HashMap {
    pub uninterp spec fn view(&self) -> Map<Seq<char>, u32>;
    #[verifier::external_body]
    pub fn new() -> (r: HashMap) ensures r@ == Map::<Seq<char>, u32>::empty() { unimplemented!() }
    #[verifier::external_body]
    pub fn insert(&mut self, k: Str, v: u32) -> (r: Option<u32>) ensures final(self)@ == old(self)@.insert(k@, v) { unimplemented!() }
}
/// what the table must be for one chromosome name (C15: "chromosomes missing from some inputs")
pub open spec fn entry_ok(files: Seq<BigWigRead>, name: Seq<char>, e: (u32, Seq<(Info, Path)>)) -> bool {
    &&& some_has(files, name)
    &&& forall|j: int| 0 <= j < files.len() && #[trigger] has(files, j, name) ==> size_in(files, j, name) == e.0
    &&& e.1 == files_with(files, name, files.len() as int)
}
pub open spec fn table_ok(files: Seq<BigWigRead>, cs: Map<Seq<char>, (u32, Seq<(Info, Path)>)>, cm: Map<Seq<char>, u32>) -> bool {
    &&& forall|name: Seq<char>| #[trigger] cs.dom().contains(name) ==> entry_ok(files, name, cs[name])
    &&& cm.dom() == cs.dom()
    &&& forall|name: Seq<char>| #[trigger] cs.dom().contains(name) ==> cm[name] == cs[name].0
}
pub open spec fn mismatch(files: Seq<BigWigRead>) -> bool {
    exists|i: int, j: int, name: Seq<char>| 0 <= i < files.len() && 0 <= j < files.len() && #[trigger] has(files, i, name) && #[trigger] has(files, j, name)
        && size_in(files, i, name) != size_in(files, j, name)
}

// Carved: the two `let mut` and the `for chrom in ..` loop nest of the first block.  Frame (signature,
// `Ok((chrom_sizes, chrom_map))`) is the template's.  STRUCTURAL (R11): the two `for` loops with `continue`
// become index `while` loops (the index is advanced at the loop head, so `continue` keeps its meaning); the
// adaptor chain of the outer loop becomes `all_names(&bigwigs)`.
//@extract fn bigtools/src/utils/cli/bigwigmerge.rs get_merged_vals
//@rule R16
//@presub /\A.*?\n([ \t]*let mut chrom_sizes = BTreeMap::new\(\);.*?)\n\s*\(chrom_sizes, chrom_map\)\s*\};.*\Z/ => fn chrom_table(bigwigs: &Vec<BigWigRead>) -> Result<(BTreeMap, HashMap), MergingValuesError> {\n\1\n    Ok((chrom_sizes, chrom_map))\n} min=1 count=1
//@sub /for chrom in bigwigs\s*\.iter\(\)\s*\.flat_map\(BigWigRead::chroms\)\s*\.map\(\|c\| c\.name\.clone\(\)\)\s*\{/ => let names__ = all_names(bigwigs); let mut ni__: usize = 0; while ni__ < names__.len() { let chrom = names__[ni__].clone(); ni__ = ni__ + 1; min=1 count=1
//@sub /for w in bigwigs\.iter\(\) \{/ => let mut wi__: usize = 0; while wi__ < bigwigs.len() { let w = &bigwigs[wi__]; wi__ = wi__ + 1; min=1 count=1
//@sub /(\w+)\.iter\(\)\.find\(\|v\| v\.name == chrom\)/ => find_chrom(\1, &chrom) min=0
//@sub /(\w+)\.iter\(\)\.find\(\|v\| v\.name != chrom\)/ => find_chrom_ne(\1, &chrom) min=0
//@sub /("[^"\n]*")\.to_owned\(\)/ => Str::lit(\1) min=0
//@ret r
//@sig
    ensures
        [[L: table/every_chromosome_of_every_input_is_listed]]
        r matches Ok(t) ==> forall|j: int, name: Seq<char>| 0 <= j < bigwigs@.len() && #[trigger] has(bigwigs@, j, name) ==> t.0@.dom().contains(name),
        [[L: table/size_agreed_by_all_files_that_have_it_and_exactly_those_files_in_order]]
        r matches Ok(t) ==> table_ok(bigwigs@, t.0@, t.1@),
        [[L: table/size_mismatch_is_refused]]
        mismatch(bigwigs@) ==> r is Err,
        [[L: table/refused_only_for_a_size_mismatch]]
        r is Err ==> mismatch(bigwigs@),
//@open
    let ghost files = bigwigs@;
//@loop 1
        invariant
            [[L: table/loop/names_seen_so_far_are_listed_correctly]]
            files == bigwigs@, ni__ <= names__@.len(),
            forall|i: int| 0 <= i < names__@.len() ==> some_has(files, (#[trigger] names__@[i])@),
            forall|j: int, name: Seq<char>| 0 <= j < files.len() && #[trigger] has(files, j, name) ==> listed(names__@, name),
            forall|i: int| 0 <= i < ni__ ==> chrom_sizes@.dom().contains((#[trigger] names__@[i])@),
            table_ok(files, chrom_sizes@, chrom_map@),
        decreases
            [[L: table/loop/termination]]
            names__@.len() - ni__,
//@loop 2
                invariant
                    [[L: table/files/size_and_file_list_so_far]]
                    files == bigwigs@, wi__ <= files.len(),
                    size is None ==> forall|j: int| 0 <= j < wi__ ==> !#[trigger] has(files, j, chrom@),
                    size matches Some(sz) ==> (exists|j: int| 0 <= j < wi__ && #[trigger] has(files, j, chrom@))
                        && forall|j: int| 0 <= j < wi__ && #[trigger] has(files, j, chrom@) ==> size_in(files, j, chrom@) == sz,
                    bws@ == files_with(files, chrom@, wi__ as int),
                decreases
                    [[L: table/files/termination]]
                    files.len() - wi__,
//@at /let size = size\.unwrap\(\);/ before
            proof {
                let i0 = ni__ - 1;
                assert(some_has(files, names__@[i0]@));
            }
            assert(size is Some); [[L: table/unwrap_cannot_panic_some_file_has_the_chromosome]]
//@at /chrom_map\.insert\(/ after
            proof {
                assert(chrom_sizes@.dom() =~= chrom_map@.dom());
            }
//@end

// =====================================================================================================
// (3) <ChromGroupReadImpl as BBIDataSource>::process_to_bbi: the feeding protocol (twin of unit feed)
// =====================================================================================================
//@extract enum bigtools/src/bbi/bbiwrite.rs ProcessDataError
//@rule R8
//@sub /[ \t]*#\[error\([^\n]*\)\]\n/ => "" min=3
//@sub /#\[from\] io::Error/ => IoErr
//@sub /\(String\)/ => (Str) min=2
//@end
// R11: the generic parameter `SourceError: Error` is instantiated with this source's `type Error = MergingValuesError`
//@extract enum bigtools/src/bbi/bbiwrite.rs BBIProcessError
//@rule R8
//@sub /[ \t]*#\[error\([^\n]*\)\]\n/ => "" min=4
//@sub /#\[from\] io::Error/ => IoErr
//@sub /\(String\)/ => (Str) min=2
//@sub /<SourceError: Error>/ => "" min=1
//@sub /SourceError\(SourceError\)/ => SourceError(MergingValuesError) min=1
//@end
// the conversion behind the `?` on start_processing / block_on, extracted as a free function
//@extract method bigtools/src/bbi/bbiwrite.rs from "From<ProcessDataError> for BBIProcessError"
//@rule R16
//@sub /fn from\(value: ProcessDataError\) -> Self/ => fn pde_into(value: ProcessDataError) -> BBIProcessError min=1
//@end

pub type Group = Result<(Str, u32, MergingValues), MergingValuesError>;
/// `Box<dyn Iterator<Item = Result<(String, u32, MergingValues), MergingValuesError>> + Send>`: the
/// per-chromosome groups `get_merged_vals` hands out (the `impl Iterator` of (2)), a finite queue
#[verifier::external_body]
pub struct GroupIter { _p: u8 }
impl GroupIter {
    // what an edit of a loop header might insert (`for v in iter.skip(1)`): NO postcondition (judged, not rejected)
    #[verifier::external_body] pub fn skip(self, n: usize) -> GroupIter { unimplemented!() }
    #[verifier::external_body] pub fn take(self, n: usize) -> GroupIter { unimplemented!() }
    #[verifier::external_body] pub fn step_by(self, n: usize) -> GroupIter { unimplemented!() }
    pub uninterp spec fn rest(&self) -> Seq<Group>;
    #[verifier::external_body]
    pub fn next(&mut self) -> (r: Option<Group>)
        ensures
            old(self).rest().len() == 0 ==> r is None && final(self).rest() == old(self).rest(),
            old(self).rest().len() > 0 ==> r == Some(old(self).rest()[0]) && final(self).rest() == old(self).rest().drop_first(),
    { unimplemented!() }
}
//@extract struct bigtools/src/utils/cli/bigwigmerge.rs ChromGroupReadImpl
//@rule R8
//@sub /pub iter:\s*Box<dyn Iterator<Item = Result<\(String, u32, MergingValues\), MergingValuesError>> \+ Send>,/ => pub iter: GroupIter, min=1
//@end

/// what the writer side observes (same device as unit feed)
pub ghost enum Event {
    Start(Seq<char>),
    Value(Seq<char>, Value, Option<Value>),
    Advance(Seq<char>),
}
pub open spec fn opt_val(o: Option<&Value>) -> Option<Value> { match o { Some(v) => Some(*v), None => None } }
/// `start_processing: FnMut(String) -> Result<P, ProcessDataError>`, `advance: FnMut(P)`, the processor `P` and
/// the runtime are replaced by one environment that logs every SUCCESSFUL call; `reliable()` = it never fails
#[verifier::external_body]
pub struct Env { _p: u8 }
#[verifier::external_body]
pub struct Proc { _p: u8 }
/// the future `p.do_process(current, next)` returns: nothing happens until it is driven
#[verifier::external_body]
pub struct Fut { _p: u8 }
impl Fut {
    pub uninterp spec fn name(&self) -> Seq<char>;
    pub uninterp spec fn val(&self) -> Value;
    pub uninterp spec fn next(&self) -> Option<Value>;
}
impl Proc {
    pub uninterp spec fn name(&self) -> Seq<char>;
    #[verifier::external_body]
    pub fn do_process(&mut self, val: Value, next: Option<&Value>) -> (f: Fut)
        ensures final(self).name() == old(self).name(), f.name() == old(self).name(), f.val() == val, f.next() == opt_val(next),
    { unimplemented!() }
}
impl Env {
    pub uninterp spec fn log(&self) -> Seq<Event>;
    pub uninterp spec fn reliable(&self) -> bool;
    #[verifier::external_body]
    pub fn start_processing(&mut self, chrom: Str) -> (r: Result<Proc, ProcessDataError>)
        ensures
            final(self).reliable() == old(self).reliable(),
            old(self).reliable() ==> r is Ok,
            r matches Ok(p) ==> p.name() == chrom@ && final(self).log() == old(self).log().push(Event::Start(chrom@)),
            r is Err ==> final(self).log() == old(self).log(),
    { unimplemented!() }
    #[verifier::external_body]
    pub fn advance(&mut self, p: Proc)
        ensures final(self).reliable() == old(self).reliable(), final(self).log() == old(self).log().push(Event::Advance(p.name())),
    { unimplemented!() }
    /// `runtime.block_on(fut)`: the future is driven to completion on the spot
    #[verifier::external_body]
    pub fn block_on(&mut self, f: Fut) -> (r: Result<(), ProcessDataError>)
        ensures
            final(self).reliable() == old(self).reliable(),
            old(self).reliable() ==> r is Ok,
            r is Ok ==> final(self).log() == old(self).log().push(Event::Value(f.name(), f.val(), f.next())),
            r is Err ==> final(self).log() == old(self).log(),
    { unimplemented!() }
}
pub type Items = Seq<Result<Value, MergingValuesError>>;
pub open spec fn items_ok(it: Items, n: int) -> bool { forall|k: int| 0 <= k < n ==> (#[trigger] it[k]) is Ok }
/// THE FEEDING PROTOCOL: the `next` handed over with value k is the following value of the same chromosome,
/// None at the end of the chromosome (or when the following item is an error)
pub open spec fn nxt(it: Items, k: int) -> Option<Value> {
    if k + 1 < it.len() && it[k + 1] is Ok { Some(it[k + 1]->Ok_0) } else { None }
}
/// the log after the chromosome was started and its first n values were handed over
pub open spec fn glog(base: Seq<Event>, name: Seq<char>, it: Items, n: int) -> Seq<Event>
    decreases n
{
    if n <= 0 { base.push(Event::Start(name)) } else { glog(base, name, it, n - 1).push(Event::Value(name, it[n - 1]->Ok_0, nxt(it, n - 1))) }
}
pub open spec fn gname(q: Seq<Group>, m: int) -> Seq<char> { q[m]->Ok_0.0@ }
pub open spec fn gitems(q: Seq<Group>, m: int) -> Items { q[m]->Ok_0.2.iter.rest() }
/// the log after the first m chromosome groups were processed completely: Start, every value, Advance
pub open spec fn flog(base: Seq<Event>, q: Seq<Group>, m: int) -> Seq<Event>
    decreases m
{
    if m <= 0 { base } else {
        glog(flog(base, q, m - 1), gname(q, m - 1), gitems(q, m - 1), gitems(q, m - 1).len() as int).push(Event::Advance(gname(q, m - 1)))
    }
}
/// groups 0..m are all there and error free
pub open spec fn groups_ok(q: Seq<Group>, m: int) -> bool {
    forall|g: int| 0 <= g < m ==> (#[trigger] q[g]) is Ok && items_ok(gitems(q, g), gitems(q, g).len() as int)
}
/// the log at an error return: m complete groups, then nothing, or the Start of group m and its first k values
pub open spec fn err_shape(base: Seq<Event>, q: Seq<Group>, m: int, k: int, lg: Seq<Event>) -> bool {
    &&& 0 <= m < q.len()
    &&& groups_ok(q, m)
    &&& {
        ||| lg == flog(base, q, m)
        ||| (q[m] is Ok && 0 <= k <= gitems(q, m).len() && items_ok(gitems(q, m), k) && lg == glog(flog(base, q, m), gname(q, m), gitems(q, m), k))
    }
}

// What is done to the cut text (all R11): signature normalisation (generics, runtime and the two closures ->
// `env: &mut Env`); the callables; `runtime.block_on(` -> `env.block_on(`; `CALL(..)?;` with
// From<ProcessDataError> -> match + pde_into (the repository's From impl, extracted above).
impl ChromGroupReadImpl {
//@extract method bigtools/src/utils/cli/bigwigmerge.rs process_to_bbi "BBIDataSource for ChromGroupReadImpl"
//@rule R16
//@presub /fn process_to_bbi<.*?>\(\s*&mut self,.*?\) -> Result<\(\), BBIProcessError<Self::Error>> \{/ => fn process_to_bbi(&mut self, env: &mut Env) -> Result<(), BBIProcessError> { min=1 count=1
//@sub /Option<Result<\(String, u32, MergingValues\), MergingValuesError>>/ => Option<Group> min=0
//@sub /(?<![\w\.])start_processing\(/ => env.start_processing( min=0
//@sub /(?<![\w\.])advance\(/ => env.advance( min=0
//@sub /\bruntime\.block_on\(/ => env.block_on( min=0
//@sub /([\w\.]+\([^;\n]*\))\?;/ => (match \1 { Ok(v__) => v__, Err(e__) => return Err(pde_into(e__)) }); min=0
//@ret r
//@sig
    ensures
        [[L: ok_means_every_group_was_fed_completely_in_order]]
        r is Ok ==> groups_ok(old(self).iter.rest(), old(self).iter.rest().len() as int)
            && final(env).log() == flog(old(env).log(), old(self).iter.rest(), old(self).iter.rest().len() as int),
        [[L: ok_means_source_exhausted]]
        r is Ok ==> final(self).iter.rest().len() == 0,
        [[L: succeeds_when_nothing_fails]]
        groups_ok(old(self).iter.rest(), old(self).iter.rest().len() as int) && old(env).reliable() ==> r is Ok,
        [[L: first_error_is_returned_nothing_logged_after]]
        r is Err ==> exists|m: int, k: int| #[trigger] err_shape(old(env).log(), old(self).iter.rest(), m, k, final(env).log()),
        [[L: source_errors_are_reported_as_source_errors]]
        r is Err && old(env).reliable() ==> r->Err_0 is SourceError,
        [[L: frame]]
        final(env).reliable() == old(env).reliable(),
//@open
    let ghost q = self.iter.rest();
    let ghost log0 = env.log();
    let ghost m: int = 0;
    let ghost k: int = 0;
//@loop 1
            invariant
                [[L: loop/groups_done_so_far]]
                0 <= m <= q.len(), q == old(self).iter.rest(), log0 == old(env).log(),
                self.iter.rest() == q.subrange(m, q.len() as int),
                groups_ok(q, m),
                env.reliable() == old(env).reliable(),
                [[L: loop/log_is_the_protocol_of_the_groups_done]]
                env.log() == flog(log0, q, m),
            ensures
                m == q.len(), self.iter.rest().len() == 0,
            decreases
                [[L: loop/termination_one_group_per_iteration]]
                q.len() - m,
//@at /let next: Option<Group> =/ before
            proof {
                if m < q.len() {
                    assert(q.subrange(m, q.len() as int)[0] == q[m]);
                    assert(q.subrange(m, q.len() as int).drop_first() =~= q.subrange(m + 1, q.len() as int));
                    assert(err_shape(log0, q, m, 0, env.log()));
                }
            }
//@at /let mut p = / before
                    let ghost items = group.iter.rest();
                    let ghost name = chrom@;
                    proof { k = 0; assert(items.subrange(0, items.len() as int) =~= items); }
//@loop 2
                        invariant
                            [[L: group/values_done_so_far]]
                            0 <= k <= items.len(), 0 <= m < q.len(), q[m] is Ok, items == gitems(q, m), name == gname(q, m),
                            group.iter.rest() == items.subrange(k, items.len() as int),
                            items_ok(items, k), groups_ok(q, m),
                            p.name() == name,
                            env.reliable() == old(env).reliable(), log0 == old(env).log(), q == old(self).iter.rest(),
                            [[L: group/log_is_start_then_each_value_with_its_successor]]
                            env.log() == glog(flog(log0, q, m), name, items, k),
                        ensures
                            k == items.len(),
                        decreases
                            [[L: group/termination_one_value_per_iteration]]
                            items.len() - k,
//@at /let current_val = match group\.iter\.next\(\)/ before
                        proof {
                            if k < items.len() {
                                assert(items.subrange(k, items.len() as int)[0] == items[k]);
                                assert(items.subrange(k, items.len() as int).drop_first() =~= items.subrange(k + 1, items.len() as int));
                                if k + 1 < items.len() { assert(items.subrange(k + 1, items.len() as int)[0] == items[k + 1]); }
                            }
                            assert(err_shape(log0, q, m, k, env.log()));
                        }
//@loopend 2
                        proof { k = k + 1; }
//@loopend 1
            proof { m = m + 1; }
//@end
}

// =====================================================================================================
// (4) the bedGraph branch of `bigwigmerge`
// =====================================================================================================
/// `fmt::Arguments` made by the (shadowed) `format_args!`: an uninterpreted function of the format literal and
/// of the argument tuple (arity and order are part of the tuple; what `{}` does to a value is not modelled)
#[verifier::external_body]
pub struct FmtArgs { _p: u8 }
#[verifier::external_body]
pub struct Line { _p: u8 }
pub uninterp spec fn line_spec<T>(fmt: Seq<char>, args: T) -> Line;
impl FmtArgs { pub uninterp spec fn text(&self) -> Line; }
#[verifier::external_body]
pub fn fmt_args<T>(fmt: &'static str, args: T) -> (r: FmtArgs)
    ensures r.text() == line_spec(fmt@, args)
{ unimplemented!() }
/// `io::BufWriter<File>` on the output: on Ok exactly that text was appended (the io::Error -> Box<dyn Error>
/// conversion of the `?` is folded in)
#[verifier::external_body]
pub struct TextOut { _p: u8 }
impl TextOut {
    pub uninterp spec fn lines(&self) -> Seq<Line>;
    #[verifier::external_body]
    pub fn write_fmt(&mut self, a: FmtArgs) -> (r: Result<(), AnyErr>)
        ensures r is Ok ==> final(self).lines() == old(self).lines().push(a.text())
    { unimplemented!() }
}
/// `MergingValuesError -> Box<dyn Error>` behind the two `?`
#[verifier::external_body]
pub fn any_err(e: MergingValuesError) -> AnyErr { unimplemented!() }

/// one bedGraph line: chromosome, start, end, value, tab separated, in that order
pub open spec fn bg_line(name: Str, v: Value) -> Line { line_spec("{}\t{}\t{}\t{}\n"@, (&name, &v.start, &v.end, &v.value)) }
/// the text after the first n values of a group / after the first m groups (left-associated, as it is written)
pub open spec fn bg_group(base: Seq<Line>, name: Str, it: Items, n: int) -> Seq<Line>
    decreases n
{
    if n <= 0 { base } else { bg_group(base, name, it, n - 1).push(bg_line(name, it[n - 1]->Ok_0)) }
}
pub open spec fn bg_all(base: Seq<Line>, q: Seq<Group>, m: int) -> Seq<Line>
    decreases m
{
    if m <= 0 { base } else { bg_group(bg_all(base, q, m - 1), q[m - 1]->Ok_0.0, gitems(q, m - 1), gitems(q, m - 1).len() as int) }
}

// ---- "its bedGraph and bigWig outputs agree": both are images of the SAME sequence of merged values ----
/// the merged values of the first m groups, each with its chromosome, in order
pub open spec fn cells_group(base: Seq<(Str, Value)>, name: Str, it: Items, n: int) -> Seq<(Str, Value)>
    decreases n
{
    if n <= 0 { base } else { cells_group(base, name, it, n - 1).push((name, it[n - 1]->Ok_0)) }
}
pub open spec fn cells(q: Seq<Group>, m: int) -> Seq<(Str, Value)>
    decreases m
{
    if m <= 0 { Seq::empty() } else { cells_group(cells(q, m - 1), q[m - 1]->Ok_0.0, gitems(q, m - 1), gitems(q, m - 1).len() as int) }
}
pub open spec fn as_lines(cs: Seq<(Str, Value)>) -> Seq<Line> { Seq::new(cs.len(), |i: int| bg_line(cs[i].0, cs[i].1)) }
pub open spec fn as_rows(cs: Seq<(Str, Value)>) -> Seq<(Seq<char>, Value)> { Seq::new(cs.len(), |i: int| (cs[i].0@, cs[i].1)) }
/// (chromosome, value) of the values handed to the bigWig writer, in log order
pub open spec fn value_rows(lg: Seq<Event>) -> Seq<(Seq<char>, Value)>
    decreases lg.len()
{
    if lg.len() == 0 { Seq::empty() } else {
        let p = value_rows(lg.drop_last());
        match lg.last() { Event::Value(c, v, _) => p.push((c, v)), _ => p }
    }
}
proof fn lemma_rows_push(lg: Seq<Event>, e: Event)
    ensures value_rows(lg.push(e)) == (match e { Event::Value(c, v, _) => value_rows(lg).push((c, v)), _ => value_rows(lg) })
{
    assert(lg.push(e).drop_last() =~= lg);
}
proof fn lemma_group_outputs(lb: Seq<Line>, eb: Seq<Event>, cb: Seq<(Str, Value)>, rb: Seq<(Seq<char>, Value)>, name: Str, it: Items, n: int)
    requires 0 <= n <= it.len(), value_rows(eb) == rb + as_rows(cb),
    ensures
        bg_group(lb + as_lines(cb), name, it, n) == lb + as_lines(cells_group(cb, name, it, n)),
        value_rows(glog(eb, name@, it, n)) == rb + as_rows(cells_group(cb, name, it, n)),
    decreases n
{
    if n <= 0 {
        lemma_rows_push(eb, Event::Start(name@));
    } else {
        lemma_group_outputs(lb, eb, cb, rb, name, it, n - 1);
        let c = cells_group(cb, name, it, n - 1);
        let v = it[n - 1]->Ok_0;
        assert(as_lines(c.push((name, v))) =~= as_lines(c).push(bg_line(name, v)));
        assert((lb + as_lines(c)).push(bg_line(name, v)) =~= lb + as_lines(c).push(bg_line(name, v)));
        lemma_rows_push(glog(eb, name@, it, n - 1), Event::Value(name@, v, nxt(it, n - 1)));
        assert(as_rows(c.push((name, v))) =~= as_rows(c).push((name@, v)));
        assert((rb + as_rows(c)).push((name@, v)) =~= rb + as_rows(c).push((name@, v)));
    }
}
/// bedGraph text and bigWig feed of the same groups: line i is the text of cell i, fed value i is cell i
proof fn lemma_bedgraph_and_bigwig_outputs_agree(lb: Seq<Line>, eb: Seq<Event>, q: Seq<Group>, m: int)
    requires 0 <= m <= q.len(),
    ensures
        [[L: lemma/bedgraph_lines_are_the_merged_values_in_order]]
        bg_all(lb, q, m) == lb + as_lines(cells(q, m)),
        [[L: lemma/bigwig_feed_is_the_same_merged_values_in_order]]
        value_rows(flog(eb, q, m)) == value_rows(eb) + as_rows(cells(q, m)),
    decreases m
{
    if m <= 0 {
        assert(lb + as_lines(cells(q, 0)) =~= lb);
        assert(value_rows(eb) + as_rows(cells(q, 0)) =~= value_rows(eb));
    } else {
        lemma_bedgraph_and_bigwig_outputs_agree(lb, eb, q, m - 1);
        let it = gitems(q, m - 1);
        lemma_group_outputs(lb, flog(eb, q, m - 1), cells(q, m - 1), value_rows(eb), q[m - 1]->Ok_0.0, it, it.len() as int);
        lemma_rows_push(glog(flog(eb, q, m - 1), gname(q, m - 1), it, it.len() as int), Event::Advance(gname(q, m - 1)));
    }
}

// Carved: the `for v in iter { .. }` loop of the BedGraph arm.  Frame (signature, `Ok(())`) is the template's.
// STRUCTURAL (R11): `for v in ITER {` -> `let mut it__ = ITER; loop { let v = match it__.next() { Some(v__) => v__, None => break };`
// (what `for` does with an iterator); `v?` / `Err(e)?` -> explicit match / return with the Box<dyn Error> conversion.
//@extract fn bigtools/src/utils/cli/bigwigmerge.rs bigwigmerge
//@rule R16
//@presub /\A.*?let mut writer = io::BufWriter::new\(bedgraph\);\s*\n(.*)\n        \}\n    \}\s*(?:\/\/[^\n]*\s*)*Ok\(\(\)\)\s*\}\s*\Z/ => fn write_bedgraph(iter0: GroupIter, writer: &mut TextOut) -> Result<(), AnyErr> {\n    let mut iter = iter0;\n\1\n    Ok(())\n} min=1 count=1
//@sub /for v in (iter[^{\n]*?) \{/ => let mut it__ = \1; loop { let v = match it__.next() { Some(v__) => v__, None => break }; min=1 count=1
//@sub /= v\?;/ => = (match v { Ok(v__) => v__, Err(e__) => return Err(any_err(e__)) }); min=0
//@sub /Err\(e\)\?,/ => return Err(any_err(e)), min=0
//@ret r
//@sig
    ensures
        [[L: bedgraph/one_line_per_merged_value_in_order_chrom_start_end_value]]
        r is Ok ==> groups_ok(iter0.rest(), iter0.rest().len() as int)
            && final(writer).lines() == bg_all(old(writer).lines(), iter0.rest(), iter0.rest().len() as int),
        [[L: bedgraph/errors_of_the_merge_are_not_swallowed]]
        !groups_ok(iter0.rest(), iter0.rest().len() as int) ==> r is Err,
//@open
    let ghost q = iter0.rest();
    let ghost lines0 = writer.lines();
    let ghost m: int = 0;
    let ghost k: int = 0;
//@loop 1
        invariant
            [[L: bedgraph/loop/groups_done_so_far]]
            0 <= m <= q.len(), q == iter0.rest(), lines0 == old(writer).lines(),
            it__.rest() == q.subrange(m, q.len() as int),
            groups_ok(q, m),
            [[L: bedgraph/loop/text_is_the_lines_of_the_groups_done]]
            writer.lines() == bg_all(lines0, q, m),
        ensures
            m == q.len(),
        decreases
            [[L: bedgraph/loop/termination_one_group_per_iteration]]
            q.len() - m,
//@at /loop \{ let v = match it__\.next\(\)/ before
    proof { assert(q.subrange(0, q.len() as int) =~= q); }
//@at /let \(chrom, _, mut values\) =/ before
                proof {
                    if m < q.len() {
                        assert(q.subrange(m, q.len() as int)[0] == q[m]);
                        assert(q.subrange(m, q.len() as int).drop_first() =~= q.subrange(m + 1, q.len() as int));
                    }
                }
//@at /let \(chrom, _, mut values\) =/ after
                let ghost items = values.iter.rest();
                proof { k = 0; assert(items.subrange(0, items.len() as int) =~= items); }
//@loop 2
                    invariant
                        [[L: bedgraph/group/values_done_so_far]]
                        0 <= k <= items.len(), 0 <= m < q.len(), q[m] is Ok, items == gitems(q, m), chrom == q[m]->Ok_0.0,
                        values.iter.rest() == items.subrange(k, items.len() as int),
                        items_ok(items, k),
                        [[L: bedgraph/group/text_is_one_line_per_value_so_far]]
                        writer.lines() == bg_group(bg_all(lines0, q, m), chrom, items, k),
                    ensures
                        k == items.len(),
                    decreases
                        [[L: bedgraph/group/termination_one_value_per_iteration]]
                        items.len() - k,
//@at /let val = match values\.iter\.next\(\)/ before
                    proof {
                        if k < items.len() {
                            assert(items.subrange(k, items.len() as int)[0] == items[k]);
                            assert(items.subrange(k, items.len() as int).drop_first() =~= items.subrange(k + 1, items.len() as int));
                        }
                    }
//@loopend 2
                    proof { k = k + 1; }
//@loopend 1
                proof { m = m + 1; }
//@end

// =====================================================================================================
// (5) bigwigmerge: the input opening loops (descriptive)
// =====================================================================================================
/// BigWigReadOpenError
#[verifier::external_body] #[derive(Debug)]
pub struct OpenErr { _p: u8 }
/// the reader `BigWigRead::open_file(name)` yields when it succeeds (deterministic file system: assumption)
pub uninterp spec fn reader_of(name: Seq<char>) -> BigWigRead;
/// the lines of the list file of that name, as `BufReader::lines()` yields them
pub uninterp spec fn list_lines(name: Seq<char>) -> Seq<Result<Str, IoErr>>;
/// an opened list file
#[verifier::external_body]
pub struct ListFile { _p: u8 }
impl ListFile {
    pub uninterp spec fn name(&self) -> Seq<char>;
    /// `BufReader::new(list_file).lines()`, collected (the loop below reads them in order, one per iteration)
    #[verifier::external_body]
    pub fn read_lines(self) -> (r: Vec<Result<Str, IoErr>>) ensures r@ == list_lines(self.name()) { unimplemented!() }
}
#[verifier::external_body]
pub fn io_any_err(e: &IoErr) -> AnyErr { unimplemented!() }
/// file system + stderr as this code sees them
#[verifier::external_body]
pub struct World { _p: u8 }
impl World {
    /// names passed to BigWigRead::open_file, in order
    pub uninterp spec fn opened(&self) -> Seq<Seq<char>>;
    /// names passed to File::open (list files), in order
    pub uninterp spec fn lists(&self) -> Seq<Seq<char>>;
    pub uninterp spec fn said(&self) -> Seq<Seq<char>>;
    #[verifier::external_body]
    pub fn open_bigwig(&mut self, name: &Str) -> (r: Result<BigWigRead, OpenErr>)
        ensures
            final(self).opened() == old(self).opened().push(name@), final(self).lists() == old(self).lists(), final(self).said() == old(self).said(),
            r matches Ok(bw) ==> bw == reader_of(name@),
    { unimplemented!() }
    #[verifier::external_body]
    pub fn open_list(&mut self, name: &Str) -> (r: Result<ListFile, IoErr>)
        ensures
            final(self).lists() == old(self).lists().push(name@), final(self).opened() == old(self).opened(), final(self).said() == old(self).said(),
            r matches Ok(f) ==> f.name() == name@,
    { unimplemented!() }
    #[verifier::external_body]
    pub fn eprint<T>(&mut self, fmt: &'static str, args: T)
        ensures final(self).said() == old(self).said().push(fmt@), final(self).opened() == old(self).opened(), final(self).lists() == old(self).lists(),
    { unimplemented!() }
}
pub open spec fn names_of(v: Seq<Str>, n: int) -> Seq<Seq<char>> { Seq::new(n as nat, |i: int| v[i]@) }
pub open spec fn line_names(ls: Seq<Result<Str, IoErr>>, n: int) -> Seq<Seq<char>> { Seq::new(n as nat, |i: int| ls[i]->Ok_0@) }
/// the names on the first n list files, list by list, line by line
pub open spec fn listed_names(lists: Seq<Str>, n: int) -> Seq<Seq<char>>
    decreases n
{
    if n <= 0 { Seq::empty() } else { listed_names(lists, n - 1) + line_names(list_lines(lists[n - 1]@), list_lines(lists[n - 1]@).len() as int) }
}
pub open spec fn readers_of(names: Seq<Seq<char>>) -> Seq<BigWigRead> { Seq::new(names.len(), |i: int| reader_of(names[i])) }
/// the two arguments the loops read (clap attributes dropped)
pub struct InArgs { pub bigwig: Vec<Str>, pub list: Vec<Str> }

// Carved: from `let mut bigwigs ..` up to (not including) `let nthreads ..` / `let (iter, chrom_map) ..` (whichever is first).  Frame: signature, `Ok(Some(bigwigs))`;
// `return Ok(());` (the tool ends successfully after printing) becomes `return Ok(None);`.
//@extract fn bigtools/src/utils/cli/bigwigmerge.rs bigwigmerge
//@rule R16
//@presub /\A.*?\n([ \t]*let mut bigwigs: Vec<BigWigRead<ReopenableFile>> = .*?)\n\s*(?:let nthreads = |let \(iter, chrom_map\) = ).*\Z/ => fn open_inputs(args: InArgs, env: &mut World) -> Result<Option<Vec<BigWigRead>>, AnyErr> {\n\1\n    Ok(Some(bigwigs))\n} min=1 count=1
//@presub /Vec<BigWigRead<ReopenableFile>> = vec!\[\]/ => Vec<BigWigRead> = Vec::new() min=0
//@presub /BufReader::new\(list_file\)\.lines\(\)/ => list_file.read_lines() min=0
//@rule R7
//@sub /BigWigRead::open_file\(/ => env.open_bigwig( min=0
//@sub /File::open\(/ => env.open_list( min=0
//@sub /eprintln!\(/ => elog!(env,  min=0
//@sub /return Ok\(\(\)\);/ => return Ok(None); min=0
//@sub /let name = line\?;/ => let name = match line { Ok(n__) => n__, Err(e__) => return Err(io_any_err(e__)) }; min=0
//@ret r
//@sig
    ensures
        [[L: doc/inputs/every_named_file_is_opened_in_order_b_options_first_then_the_lists_line_by_line]]
        r matches Ok(Some(v)) ==> final(env).opened() == old(env).opened() + (names_of(args.bigwig@, args.bigwig@.len() as int) + listed_names(args.list@, args.list@.len() as int)),
        [[L: doc/inputs/the_readers_are_those_files_in_that_order]]
        r matches Ok(Some(v)) ==> v@ == readers_of(names_of(args.bigwig@, args.bigwig@.len() as int) + listed_names(args.list@, args.list@.len() as int)),
        [[L: doc/inputs/every_list_file_is_opened_in_order]]
        r matches Ok(Some(v)) ==> final(env).lists() == old(env).lists() + names_of(args.list@, args.list@.len() as int),
        [[L: doc/inputs/success_prints_nothing_a_failed_open_prints_and_ends_the_tool_successfully]]
        r matches Ok(Some(v)) ==> final(env).said() == old(env).said(),
        r matches Ok(None) ==> final(env).said().len() == old(env).said().len() + 1,
//@open
    let ghost o0 = env.opened();
    let ghost exp: Seq<Seq<char>> = Seq::empty();
//@loop 1
        invariant
            [[L: doc/inputs/loop_b/opened_so_far]]
            o0 == old(env).opened(), env.lists() == old(env).lists(), env.said() == old(env).said(),
            exp == names_of(args.bigwig@, i__1 as int),
            env.opened() == o0 + exp, bigwigs@ == readers_of(exp),
//@loopend 1
        proof {
            let e2 = exp.push(name@);
            assert(e2 =~= names_of(args.bigwig@, i__1 + 1));
            assert(o0 + e2 =~= (o0 + exp).push(name@));
            assert(readers_of(e2) =~= readers_of(exp).push(reader_of(name@)));
            exp = e2;
        }
//@at /for i__2 in / before
    let ghost nb = names_of(args.bigwig@, args.bigwig@.len() as int);
    proof { assert(old(env).lists() + names_of(args.list@, 0) =~= old(env).lists()); assert(nb + listed_names(args.list@, 0) =~= nb); }
//@loop 2
        invariant
            [[L: doc/inputs/loop_l/lists_done_so_far]]
            o0 == old(env).opened(), env.said() == old(env).said(), nb == names_of(args.bigwig@, args.bigwig@.len() as int),
            env.lists() == old(env).lists() + names_of(args.list@, i__2 as int),
            exp == nb + listed_names(args.list@, i__2 as int),
            env.opened() == o0 + exp, bigwigs@ == readers_of(exp),
//@at /for i__3 in / before
        let ghost ll = list_lines(list@);
        let ghost exp0 = exp;
        proof {
            assert(env.lists() =~= old(env).lists() + names_of(args.list@, i__2 + 1));
            assert(exp0 + line_names(ll, 0) =~= exp0);
        }
//@loop 3
            invariant
                [[L: doc/inputs/loop_l/lines_done_so_far]]
                o0 == old(env).opened(), env.said() == old(env).said(), ll == list_lines(list@), lines@ == ll,
                env.lists() == old(env).lists() + names_of(args.list@, i__2 + 1),
                forall|k: int| 0 <= k < i__3 ==> (#[trigger] ll[k]) is Ok,
                exp == exp0 + line_names(ll, i__3 as int),
                env.opened() == o0 + exp, bigwigs@ == readers_of(exp),
//@loopend 3
            proof {
                let e2 = exp.push(name@);
                assert(e2 =~= exp0 + line_names(ll, i__3 + 1));
                assert(o0 + e2 =~= (o0 + exp).push(name@));
                assert(readers_of(e2) =~= readers_of(exp).push(reader_of(name@)));
                exp = e2;
            }
//@loopend 2
        proof {
            assert(exp =~= nb + listed_names(args.list@, i__2 + 1));
        }
//@end

// =====================================================================================================
// (6) bigwigmerge: the call of get_merged_vals (which option goes where)
// =====================================================================================================
impl GroupIter {
    /// the (threshold, adjust, clip) every group of this iterator is merged with (captured by the closure of (2b-ii))
    pub uninterp spec fn opts(&self) -> (f32, Option<f32>, Option<f32>);
    /// the `max_zooms` the file-descriptor budget of (2c) was computed for
    pub uninterp spec fn zooms(&self) -> usize;
}
// signature cut from /repo (parameter order!), body skipped: its parts are (2a), (2b), (2c); ASSUMED here only
// that the options of the groups are the ones passed in (the `move` closure captures them)
//@extract fn bigtools/src/utils/cli/bigwigmerge.rs get_merged_vals
//@rule R16
//@skipbody
//@sub /Vec<BigWigRead<ReopenableFile>>/ => Vec<BigWigRead> min=1
//@sub /impl Iterator<Item = Result<\(String, u32, MergingValues\), MergingValuesError>>/ => GroupIter min=1
//@sub /HashMap<String, u32>/ => HashMap min=1
//@ret r
//@sig
    ensures r matches Ok(t) ==> t.0.opts() == (threshold, adjust, clip) && t.0.zooms() == max_zooms,
//@end
/// the arguments the statement reads (clap attributes dropped)
pub struct MergeOpts { pub threshold: f32, pub adjust: Option<f32>, pub clip: Option<f32> }
//@extract fn bigtools/src/utils/cli/bigwigmerge.rs bigwigmerge
//@rule R16
//@presub /\A.*?\n([ \t]*let \(iter, chrom_map\) = get_merged_vals\([^;]*;)\n.*\Z/ => fn call_merge(args: MergeOpts, bigwigs: Vec<BigWigRead>) -> Result<(GroupIter, HashMap), AnyErr> {\n\1\n    Ok((iter, chrom_map))\n} min=1 count=1
//@sub /(get_merged_vals\([^;]*\))\?;/ => (match \1 { Ok(v__) => v__, Err(e__) => return Err(any_err(e__)) }); min=0
//@ret r
//@sig
    ensures
        [[L: call/threshold_adjust_clip_reach_the_merge_each_in_its_place]]
        r matches Ok(t) ==> t.0.opts() == (args.threshold, args.adjust, args.clip),
        [[L: call/at_most_10_zoom_levels_are_budgeted_for]]
        r matches Ok(t) ==> t.0.zooms() <= 10,
//@end

} // verus!
fn main() {}
