pub struct Rng(u64);
impl Rng {
    pub fn new(seed: u64) -> Self { Rng(seed | 1) }
    pub fn next(&mut self) -> u64 {
        // xorshift64*
        let mut x = self.0;
        x ^= x >> 12; x ^= x << 25; x ^= x >> 27;
        self.0 = x;
        x.wrapping_mul(0x2545F4914F6CDD1D)
    }
    pub fn below(&mut self, n: u64) -> u64 { if n == 0 { 0 } else { self.next() % n } }
    pub fn range(&mut self, lo: u64, hi: u64) -> u64 { lo + self.below(hi - lo + 1) }
    pub fn pick<T: Copy>(&mut self, xs: &[T]) -> T { xs[self.below(xs.len() as u64) as usize] }
}
