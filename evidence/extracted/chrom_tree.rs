// bbiwrite::write_chrom_tree: the chromosome B+ tree (one 32-byte tree header followed by ONE leaf node
// holding every chromosome).  C01/C02: "the chromosome table lists exactly the chromosomes that had data
// ... with the sizes that were supplied"; C09: "the chromosome tree [is] structurally valid".
// Proved: the bytes appended are the published B+-tree layout of the (id-sorted) chromosome list, every
// key is exactly keySize bytes (name, zero padded), the count fields are the real count.
use vstd::prelude::*;
verus! {
// ---- shared byte-level prelude ---------------------------------------------
// Format vocabulary written from the published BBI layout (Kent et al. 2010),
// as arithmetic on byte values - not as calls to from_le_bytes/to_le_bytes.
/// k-th base-256 digit of x (opaque: the div/mod arithmetic is only unfolded inside the codec lemmas)
#[verifier::opaque]
pub open spec fn byte_of(x: int, k: int) -> u8 {
    if k == 0 { (x % 256) as u8 } else if k == 1 { (x / 256 % 256) as u8 } else if k == 2 { (x / 65536 % 256) as u8 }
    else if k == 3 { (x / 16777216 % 256) as u8 } else if k == 4 { (x / 4294967296 % 256) as u8 }
    else if k == 5 { (x / 1099511627776 % 256) as u8 } else if k == 6 { (x / 281474976710656 % 256) as u8 }
    else { (x / 72057594037927936 % 256) as u8 }
}
pub open spec fn le16(x: u16) -> Seq<u8> { seq![byte_of(x as int, 0), byte_of(x as int, 1)] }
pub open spec fn le32(x: u32) -> Seq<u8> { seq![byte_of(x as int, 0), byte_of(x as int, 1), byte_of(x as int, 2), byte_of(x as int, 3)] }
pub open spec fn le64(x: u64) -> Seq<u8> {
    seq![byte_of(x as int, 0), byte_of(x as int, 1), byte_of(x as int, 2), byte_of(x as int, 3),
         byte_of(x as int, 4), byte_of(x as int, 5), byte_of(x as int, 6), byte_of(x as int, 7)]
}
pub open spec fn be16(x: u16) -> Seq<u8> { seq![byte_of(x as int, 1), byte_of(x as int, 0)] }
pub open spec fn be32(x: u32) -> Seq<u8> { seq![byte_of(x as int, 3), byte_of(x as int, 2), byte_of(x as int, 1), byte_of(x as int, 0)] }
pub open spec fn be64(x: u64) -> Seq<u8> {
    seq![byte_of(x as int, 7), byte_of(x as int, 6), byte_of(x as int, 5), byte_of(x as int, 4),
         byte_of(x as int, 3), byte_of(x as int, 2), byte_of(x as int, 1), byte_of(x as int, 0)]
}
// decode: value of the little-/big-endian integer stored at s[i..]
pub open spec fn dle16(s: Seq<u8>, i: int) -> int { s[i] as int + 256 * (s[i + 1] as int) }
pub open spec fn dle32(s: Seq<u8>, i: int) -> int {
    s[i] as int + 256 * (s[i + 1] as int) + 65536 * (s[i + 2] as int) + 16777216 * (s[i + 3] as int)
}
pub open spec fn dle64(s: Seq<u8>, i: int) -> int { dle32(s, i) + 4294967296 * dle32(s, i + 4) }
pub open spec fn dbe16(s: Seq<u8>, i: int) -> int { 256 * (s[i] as int) + s[i + 1] as int }
pub open spec fn dbe32(s: Seq<u8>, i: int) -> int {
    16777216 * (s[i] as int) + 65536 * (s[i + 1] as int) + 256 * (s[i + 2] as int) + s[i + 3] as int
}
pub open spec fn dbe64(s: Seq<u8>, i: int) -> int { 4294967296 * dbe32(s, i) + dbe32(s, i + 4) }
/// integer at s[i..] in byte order `big`
pub open spec fn d16(big: bool, s: Seq<u8>, i: int) -> int { if big { dbe16(s, i) } else { dle16(s, i) } }
pub open spec fn d32(big: bool, s: Seq<u8>, i: int) -> int { if big { dbe32(s, i) } else { dle32(s, i) } }
pub open spec fn d64(big: bool, s: Seq<u8>, i: int) -> int { if big { dbe64(s, i) } else { dle64(s, i) } }
pub open spec fn e16(big: bool, x: u16) -> Seq<u8> { if big { be16(x) } else { le16(x) } }
pub open spec fn e32(big: bool, x: u32) -> Seq<u8> { if big { be32(x) } else { le32(x) } }
pub open spec fn e64(big: bool, x: u64) -> Seq<u8> { if big { be64(x) } else { le64(x) } }

// Floats on disk: IEEE bit patterns.  `to_bits`/`from_bits` are uninterpreted; the only
// assumed fact is that they are inverse (true of Rust's f32::to_bits/from_bits bit-for-bit).
pub uninterp spec fn f32_bits(x: f32) -> u32;
pub uninterp spec fn f32_of_bits(b: u32) -> f32;
pub uninterp spec fn f64_bits(x: f64) -> u64;
pub uninterp spec fn f64_of_bits(b: u64) -> f64;
pub broadcast axiom fn ax_f32_bits_inv(x: f32) ensures #[trigger] f32_of_bits(f32_bits(x)) == x;
pub broadcast axiom fn ax_f64_bits_inv(x: f64) ensures #[trigger] f64_of_bits(f64_bits(x)) == x;

#[verifier::external_body]
#[derive(Debug)]
pub struct IoError { _p: u8 }

#[verifier::external_body]
pub fn vpanic() -> !
    requires false
{ panic!() }

// ---- Sink: append-only in-memory writer (`Vec<u8>` used through byteorder::WriteBytesExt / io::Write).
// Assumed contracts: NativeEndian == LittleEndian (x86-64 / aarch64 targets); writes to a Vec never
// fail, the io::Result plumbing is kept so that `?` in the code typechecks.
pub struct Sink { pub bytes: Vec<u8> }
impl Sink {
    pub open spec fn view(&self) -> Seq<u8> { self.bytes@ }
    #[verifier::external_body]
    pub fn with_capacity(n: usize) -> (r: Sink) ensures r@.len() == 0 { Sink { bytes: Vec::with_capacity(n) } }
    pub fn len(&self) -> (r: usize) ensures r == self@.len() { self.bytes.len() }
    #[verifier::external_body]
    pub fn put_u8(&mut self, v: u8) -> (r: Result<(), IoError>)
        ensures r.is_ok(), final(self)@ == old(self)@.push(v) { unimplemented!() }
    #[verifier::external_body]
    pub fn put_u16(&mut self, v: u16) -> (r: Result<(), IoError>)
        ensures r.is_ok(), final(self)@ == old(self)@ + le16(v) { unimplemented!() }
    #[verifier::external_body]
    pub fn put_u32(&mut self, v: u32) -> (r: Result<(), IoError>)
        ensures r.is_ok(), final(self)@ == old(self)@ + le32(v) { unimplemented!() }
    #[verifier::external_body]
    pub fn put_u64(&mut self, v: u64) -> (r: Result<(), IoError>)
        ensures r.is_ok(), final(self)@ == old(self)@ + le64(v) { unimplemented!() }
    #[verifier::external_body]
    pub fn put_f32(&mut self, v: f32) -> (r: Result<(), IoError>)
        ensures r.is_ok(), final(self)@ == old(self)@ + le32(f32_bits(v)) { unimplemented!() }
    #[verifier::external_body]
    pub fn put_f64(&mut self, v: f64) -> (r: Result<(), IoError>)
        ensures r.is_ok(), final(self)@ == old(self)@ + le64(f64_bits(v)) { unimplemented!() }
    #[verifier::external_body]
    pub fn put_bytes(&mut self, b: &[u8]) -> (r: Result<(), IoError>)
        ensures r.is_ok(), final(self)@ == old(self)@ + b@ { unimplemented!() }
}

// ---- FSink: seekable destination (`BufWriter<W: Write + Seek>`).  Ghost image `data()` and
// position `pos()`.  A put at `pos` overwrites/extends the image; any operation may fail, in
// which case nothing is promised about the image (callers must propagate the error).
#[verifier::external_body]
pub struct FSink { _p: u8 }
pub open spec fn splice(d: Seq<u8>, at: int, b: Seq<u8>) -> Seq<u8>
    recommends 0 <= at <= d.len()
{
    if at + b.len() >= d.len() { d.subrange(0, at) + b } else { d.subrange(0, at) + b + d.subrange(at + b.len(), d.len() as int) }
}
impl FSink {
    pub uninterp spec fn data(&self) -> Seq<u8>;
    pub uninterp spec fn pos(&self) -> int;
    pub open spec fn wf(&self) -> bool { 0 <= self.pos() <= self.data().len() }
    #[verifier::external_body]
    pub fn tell(&mut self) -> (r: Result<u64, IoError>)
        requires old(self).wf(), old(self).pos() <= u64::MAX
        ensures final(self).data() == old(self).data(), final(self).pos() == old(self).pos(), r.is_ok() ==> r.unwrap() == old(self).pos()
    { unimplemented!() }
    #[verifier::external_body]
    pub fn seek_start(&mut self, p: u64) -> (r: Result<u64, IoError>)
        requires old(self).wf(), p <= old(self).data().len()
        ensures final(self).data() == old(self).data(), r.is_ok() ==> (final(self).pos() == p && r.unwrap() == p), final(self).wf()
    { unimplemented!() }
    #[verifier::external_body]
    pub fn seek_end0(&mut self) -> (r: Result<u64, IoError>)
        requires old(self).wf()
        ensures final(self).data() == old(self).data(), r.is_ok() ==> (final(self).pos() == old(self).data().len() && r.unwrap() == old(self).data().len()), final(self).wf()
    { unimplemented!() }
    #[verifier::external_body]
    pub fn put(&mut self, b: &[u8]) -> (r: Result<(), IoError>)
        requires old(self).wf()
        ensures r.is_ok() ==> (final(self).data() == splice(old(self).data(), old(self).pos(), b@) && final(self).pos() == old(self).pos() + b@.len()), final(self).wf()
    { unimplemented!() }
    #[verifier::external_body]
    pub fn put_u8(&mut self, v: u8) -> (r: Result<(), IoError>)
        requires old(self).wf()
        ensures r.is_ok() ==> (final(self).data() == splice(old(self).data(), old(self).pos(), seq![v]) && final(self).pos() == old(self).pos() + 1), final(self).wf()
    { unimplemented!() }
    #[verifier::external_body]
    pub fn put_u16(&mut self, v: u16) -> (r: Result<(), IoError>)
        requires old(self).wf()
        ensures r.is_ok() ==> (final(self).data() == splice(old(self).data(), old(self).pos(), le16(v)) && final(self).pos() == old(self).pos() + 2), final(self).wf()
    { unimplemented!() }
    #[verifier::external_body]
    pub fn put_u32(&mut self, v: u32) -> (r: Result<(), IoError>)
        requires old(self).wf()
        ensures r.is_ok() ==> (final(self).data() == splice(old(self).data(), old(self).pos(), le32(v)) && final(self).pos() == old(self).pos() + 4), final(self).wf()
    { unimplemented!() }
    #[verifier::external_body]
    pub fn put_u64(&mut self, v: u64) -> (r: Result<(), IoError>)
        requires old(self).wf()
        ensures r.is_ok() ==> (final(self).data() == splice(old(self).data(), old(self).pos(), le64(v)) && final(self).pos() == old(self).pos() + 8), final(self).wf()
    { unimplemented!() }
    #[verifier::external_body]
    pub fn put_f64(&mut self, v: f64) -> (r: Result<(), IoError>)
        requires old(self).wf()
        ensures r.is_ok() ==> (final(self).data() == splice(old(self).data(), old(self).pos(), le64(f64_bits(v))) && final(self).pos() == old(self).pos() + 8), final(self).wf()
    { unimplemented!() }
}

// ---- Cur: consuming reader over a byte buffer (`bytes::BytesMut` used through `bytes::Buf`).
// `rem()` = bytes not yet consumed.  The `requires` are the real panics of the `bytes` crate
// (reading past the end / split_to past the end).
#[verifier::external_body]
pub struct Cur { _p: u8 }
impl Cur {
    pub uninterp spec fn rem(&self) -> Seq<u8>;
    #[verifier::external_body]
    pub fn from_vec(v: &Vec<u8>) -> (r: Cur) ensures r.rem() == v@ { unimplemented!() }
    #[verifier::external_body]
    pub fn len(&self) -> (r: usize) ensures r == self.rem().len() { unimplemented!() }
    #[verifier::external_body]
    pub fn split_to(&mut self, n: usize) -> (r: Cur)
        requires n <= old(self).rem().len()
        ensures r.rem() == old(self).rem().subrange(0, n as int), final(self).rem() == old(self).rem().subrange(n as int, old(self).rem().len() as int)
    { unimplemented!() }
    #[verifier::external_body]
    pub fn advance(&mut self, n: usize)
        requires n <= old(self).rem().len()
        ensures final(self).rem() == old(self).rem().subrange(n as int, old(self).rem().len() as int)
    { unimplemented!() }
    #[verifier::external_body]
    pub fn get_u8(&mut self) -> (r: u8)
        requires old(self).rem().len() >= 1
        ensures r == old(self).rem()[0], final(self).rem() == old(self).rem().subrange(1, old(self).rem().len() as int)
    { unimplemented!() }
    #[verifier::external_body]
    pub fn get_u16(&mut self) -> (r: u16)
        requires old(self).rem().len() >= 2
        ensures r == dbe16(old(self).rem(), 0), final(self).rem() == old(self).rem().subrange(2, old(self).rem().len() as int)
    { unimplemented!() }
    #[verifier::external_body]
    pub fn get_u16_le(&mut self) -> (r: u16)
        requires old(self).rem().len() >= 2
        ensures r == dle16(old(self).rem(), 0), final(self).rem() == old(self).rem().subrange(2, old(self).rem().len() as int)
    { unimplemented!() }
    #[verifier::external_body]
    pub fn get_u32(&mut self) -> (r: u32)
        requires old(self).rem().len() >= 4
        ensures r == dbe32(old(self).rem(), 0), final(self).rem() == old(self).rem().subrange(4, old(self).rem().len() as int)
    { unimplemented!() }
    #[verifier::external_body]
    pub fn get_u32_le(&mut self) -> (r: u32)
        requires old(self).rem().len() >= 4
        ensures r == dle32(old(self).rem(), 0), final(self).rem() == old(self).rem().subrange(4, old(self).rem().len() as int)
    { unimplemented!() }
    #[verifier::external_body]
    pub fn get_u64(&mut self) -> (r: u64)
        requires old(self).rem().len() >= 8
        ensures r == dbe64(old(self).rem(), 0), final(self).rem() == old(self).rem().subrange(8, old(self).rem().len() as int)
    { unimplemented!() }
    #[verifier::external_body]
    pub fn get_u64_le(&mut self) -> (r: u64)
        requires old(self).rem().len() >= 8
        ensures r == dle64(old(self).rem(), 0), final(self).rem() == old(self).rem().subrange(8, old(self).rem().len() as int)
    { unimplemented!() }
    #[verifier::external_body]
    pub fn get_f32(&mut self) -> (r: f32)
        requires old(self).rem().len() >= 4
        ensures r == f32_of_bits(dbe32(old(self).rem(), 0) as u32), final(self).rem() == old(self).rem().subrange(4, old(self).rem().len() as int)
    { unimplemented!() }
    #[verifier::external_body]
    pub fn get_f32_le(&mut self) -> (r: f32)
        requires old(self).rem().len() >= 4
        ensures r == f32_of_bits(dle32(old(self).rem(), 0) as u32), final(self).rem() == old(self).rem().subrange(4, old(self).rem().len() as int)
    { unimplemented!() }
}
// `uN::from_{le,be}_bytes([..])` (rule R4) with arithmetic contracts
#[verifier::external_body]
pub fn u32_from_le(b: [u8; 4]) -> (r: u32) ensures r == dle32(b@, 0) { u32::from_le_bytes(b) }
#[verifier::external_body]
pub fn u32_from_be(b: [u8; 4]) -> (r: u32) ensures r == dbe32(b@, 0) { u32::from_be_bytes(b) }
#[verifier::external_body]
pub fn u64_from_le(b: [u8; 8]) -> (r: u64) ensures r == dle64(b@, 0) { u64::from_le_bytes(b) }
#[verifier::external_body]
pub fn u64_from_be(b: [u8; 8]) -> (r: u64) ensures r == dbe64(b@, 0) { u64::from_be_bytes(b) }
#[verifier::external_body]
pub fn f32_from_le(b: [u8; 4]) -> (r: f32) ensures r == f32_of_bits(dle32(b@, 0) as u32) { f32::from_le_bytes(b) }
#[verifier::external_body]
pub fn f32_from_be(b: [u8; 4]) -> (r: f32) ensures r == f32_of_bits(dbe32(b@, 0) as u32) { f32::from_be_bytes(b) }

pub const CHROM_TREE_MAGIC: u32 = 0x78CA_8C91;
// the writer's defaults: not used by the pinned write_chrom_tree (its block size is max(256, count)); in scope so that
// an edit that starts using them is judged by the layout obligations instead of being refused (unknown name)
pub const DEFAULT_BLOCK_SIZE: u32 = 256;
pub const DEFAULT_ITEMS_PER_SLOT: u32 = 1024;

/// one chromosome as the replaced prologue hands it to the writing code: (name bytes, id, length)
pub type Chrom = (Vec<u8>, u32, u32);

// ---- format spec (published bigWig/bigBed layout, Kent et al. 2010, "B+ tree header / node / leaf item";
// ---- shares no code with the reader; left-associated in file order)
pub open spec fn imax(a: int, b: int) -> int { if a >= b { a } else { b } }
pub open spec fn zeros(n: int) -> Seq<u8> { Seq::new(n as nat, |i: int| 0u8) }
/// key field: the name followed by NULs up to keySize bytes
pub open spec fn pad(name: Seq<u8>, n: int) -> Seq<u8> { name + zeros(n - name.len()) }
/// keySize = the longest name
pub open spec fn max_key(c: Seq<Chrom>) -> int
    decreases c.len()
{
    if c.len() == 0 { 0 } else { imax(max_key(c.drop_last()), c.last().0@.len() as int) }
}
/// tree header, 32 bytes: magic 0x78CA8C91, blockSize u32, keySize u32, valSize u32 (= 8), itemCount u64, reserved u64 (= 0)
pub open spec fn put_tree_header(b: Seq<u8>, n: int, key: int) -> Seq<u8> {
    b + le32(0x78CA8C91u32) + le32(imax(256, n) as u32) + le32(key as u32) + le32(8u32) + le64(n as u64) + le64(0u64)
}
/// node header, 4 bytes: isLeaf u8 (= 1), reserved u8 (= 0), count u16
pub open spec fn put_node_header(b: Seq<u8>, n: int) -> Seq<u8> {
    b.push(1u8).push(0u8) + le16(n as u16)
}
/// leaf item: key (keySize bytes), chromId u32, chromSize u32
pub open spec fn put_item(b: Seq<u8>, c: Chrom, key: int) -> Seq<u8> {
    b + pad(c.0@, key) + le32(c.1) + le32(c.2)
}
pub open spec fn items_from(b: Seq<u8>, c: Seq<Chrom>, key: int) -> Seq<u8>
    decreases c.len()
{
    if c.len() == 0 { b } else { put_item(items_from(b, c.drop_last(), key), c.last(), key) }
}
/// `b` followed by the whole chromosome tree of `c`
pub open spec fn fmt_chrom_tree_from(b: Seq<u8>, c: Seq<Chrom>) -> Seq<u8> {
    items_from(put_node_header(put_tree_header(b, c.len() as int, max_key(c)), c.len() as int), c, max_key(c))
}
/// any ordering of the table other than the exact `sort_by_key(|v| *v.1)` (which the precondition stands for):
/// unknown result, so an edit of the sort key is judged by the layout obligations
#[verifier::external_body]
pub fn havoc_order(c: &mut Vec<Chrom>)
    ensures final(c)@.len() == old(c)@.len(),
{ unimplemented!() }
/// ids strictly ascending (what `chroms.sort_by_key(|v| *v.1)` leaves, ids being distinct): ASSUMED of the input
pub open spec fn sorted_by_id(c: Seq<Chrom>) -> bool {
    forall|a: int, b: int| 0 <= a < b < c.len() ==> (#[trigger] c[a]).1 < (#[trigger] c[b]).1
}

// ---- lemmas ----
pub proof fn lemma_max_key_bounds(c: Seq<Chrom>, i: int)
    requires 0 <= i < c.len(),
    ensures c[i].0@.len() <= max_key(c), 0 <= max_key(c),
    decreases c.len(),
{
    if i < c.len() - 1 { lemma_max_key_bounds(c.drop_last(), i); }
    else if c.len() > 1 { lemma_max_key_bounds(c.drop_last(), 0); }
}
pub proof fn lemma_items_len(b: Seq<u8>, c: Seq<Chrom>, key: int)
    requires forall|i: int| 0 <= i < c.len() ==> (#[trigger] c[i]).0@.len() <= key,
    ensures items_from(b, c, key).len() == b.len() + c.len() * (key + 8),
    decreases c.len(),
{
    if c.len() > 0 {
        let d = c.drop_last();
        assert forall|i: int| 0 <= i < d.len() implies (#[trigger] d[i]).0@.len() <= key by { assert(d[i] == c[i]); }
        lemma_items_len(b, d, key);
        assert(c.len() * (key + 8) == d.len() * (key + 8) + (key + 8)) by (nonlinear_arith) requires c.len() == d.len() + 1;
    }
}

/// leaf item i as an independent decoder finds it: key, chromId, chromSize
pub open spec fn item_bytes(c: Chrom, key: int) -> Seq<u8> { pad(c.0@, key) + le32(c.1) + le32(c.2) }
/// byte offset of item i behind the node header (items are key + 8 bytes each)
pub open spec fn item_off(i: int, key: int) -> int { i * (key + 8) }
pub proof fn lemma_item_off(i: int, key: int)
    ensures item_off(i + 1, key) == item_off(i, key) + key + 8, item_off(0, key) == 0,
{
    assert((i + 1) * (key + 8) == i * (key + 8) + (key + 8)) by (nonlinear_arith);
}
pub proof fn lemma_item_off_mono(i: int, j: int, key: int)
    requires 0 <= i <= j, 0 <= key,
    ensures item_off(i, key) <= item_off(j, key),
{
    assert(i * (key + 8) <= j * (key + 8)) by (nonlinear_arith) requires 0 <= i <= j, 0 <= key;
}
/// the fixed-size items sit one after the other: item i occupies [item_off(i), item_off(i + 1)) behind `b`
pub proof fn lemma_item_at(b: Seq<u8>, c: Seq<Chrom>, key: int, i: int)
    requires 0 <= i < c.len(), 0 <= key, forall|j: int| 0 <= j < c.len() ==> (#[trigger] c[j]).0@.len() <= key,
    ensures items_from(b, c, key).subrange(b.len() + item_off(i, key), b.len() + item_off(i + 1, key)) == item_bytes(c[i], key),
    decreases c.len(),
{
    let d = c.drop_last();
    assert forall|j: int| 0 <= j < d.len() implies (#[trigger] d[j]).0@.len() <= key by { assert(d[j] == c[j]); }
    lemma_items_len(b, d, key);
    lemma_item_off(i, key);
    let g = items_from(b, d, key);
    let f = items_from(b, c, key);
    let o = b.len() + item_off(i, key);
    assert(g.len() == b.len() + item_off(d.len() as int, key));
    if i == c.len() - 1 {
        assert(f.subrange(o, o + key + 8) =~= item_bytes(c.last(), key));
    } else {
        lemma_item_at(b, d, key, i);
        lemma_item_off_mono(i + 1, d.len() as int, key);
        assert(f.subrange(o, o + key + 8) =~= g.subrange(o, o + key + 8));
    }
}

// ---- verified helpers standing in for non-Verus std calls ----
/// R12u64: std::cmp::min on u64 (not used by the pinned code; present so that an edit to `min` is judged, not rejected)
pub fn min_u64(a: u64, b: u64) -> (r: u64) ensures r == if a <= b { a } else { b } { if a <= b { a } else { b } }
/// R12u64: std::cmp::max on u64
pub fn max_u64(a: u64, b: u64) -> (r: u64)
    ensures r == imax(a as int, b as int),
{ if a >= b { a } else { b } }

/// `chroms.iter().map(|a| a.0.as_bytes().len() as u32).fold(0, u32::max)`
pub fn max_name_len(chroms: &Vec<Chrom>) -> (r: u32)
    requires forall|i: int| 0 <= i < chroms@.len() ==> (#[trigger] chroms@[i]).0@.len() <= u32::MAX,
    ensures r == max_key(chroms@),
{
    let mut m: u32 = 0;
    for i in 0..chroms.len()
        invariant
            m == max_key(chroms@.subrange(0, i as int)),
            forall|i: int| 0 <= i < chroms@.len() ==> (#[trigger] chroms@[i]).0@.len() <= u32::MAX,
    {
        proof { assert(chroms@.subrange(0, i + 1).drop_last() =~= chroms@.subrange(0, i as int)); }
        let l = chroms[i].0.len() as u32;
        if l > m { m = l; }
    }
    proof { assert(chroms@.subrange(0, chroms@.len() as int) =~= chroms@); }
    m
}

/// `vec![0u8; n]`
pub fn zero_vec(n: usize) -> (r: Vec<u8>)
    ensures r@ == zeros(n as int),
{
    let mut v: Vec<u8> = Vec::new();
    let mut i: usize = 0;
    while i < n
        invariant i <= n, v@.len() == i, forall|j: int| 0 <= j < i ==> (#[trigger] v@[j]) == 0u8,
        decreases n - i,
    {
        v.push(0u8);
        i = i + 1;
    }
    proof { assert(v@ =~= zeros(n as int)); }
    v
}

/// `buf[..src.len()].copy_from_slice(src)`: requires = the real panic condition of the slice index;
/// only the first `src.len()` bytes change, whatever the buffer held beyond them stays
pub fn copy_prefix(buf: &mut Vec<u8>, src: &Vec<u8>)
    requires src@.len() <= old(buf)@.len(),
    ensures final(buf)@ == src@ + old(buf)@.subrange(src@.len() as int, old(buf)@.len() as int),
{
    let mut i: usize = 0;
    while i < src.len()
        invariant
            i <= src@.len(), src@.len() <= buf@.len(), buf@.len() == old(buf)@.len(),
            forall|j: int| 0 <= j < i ==> (#[trigger] buf@[j]) == src@[j],
            forall|j: int| i <= j < buf@.len() ==> (#[trigger] buf@[j]) == old(buf)@[j],
        decreases src@.len() - i,
    {
        buf.set(i, src[i]);
        i = i + 1;
    }
    proof { assert(buf@ =~= src@ + old(buf)@.subrange(src@.len() as int, old(buf)@.len() as int)); }
}

pub fn write_chrom_tree(file: &mut Sink, chroms: Vec<Chrom>,
) -> (r: Result<(), IoError>)
    requires
        
        sorted_by_id(chroms@),
        
        chroms@.len() <= 65535,
        
        forall|i: int| 0 <= i < chroms@.len() ==> (#[trigger] chroms@[i]).0@.len() <= u32::MAX,
    ensures
        
        r is Ok,
        
        final(file)@ == fmt_chrom_tree_from(old(file)@, chroms@),
        
        final(file)@.len() == old(file)@.len() + 36 + chroms@.len() * (max_key(chroms@) + 8),
        
        forall|i: int| 0 <= i < chroms@.len() ==> pad((#[trigger] chroms@[i]).0@, max_key(chroms@)).len() == max_key(chroms@),
        
        forall|i: int| 0 <= i < chroms@.len() ==> final(file)@.subrange(old(file)@.len() + 36 + item_off(i, max_key(chroms@)), old(file)@.len() + 36 + item_off(i + 1, max_key(chroms@)))
            == item_bytes(#[trigger] chroms@[i], max_key(chroms@)),
        
        imax(256, chroms@.len() as int) >= chroms@.len() && imax(256, chroms@.len() as int) <= u32::MAX,
{
    let ghost b0 = file@;
    let ghost n = chroms@.len() as int;
    let ghost key = max_key(chroms@);
    proof {
        assert forall|i: int| 0 <= i < chroms@.len() implies (#[trigger] chroms@[i]).0@.len() <= key && 0 <= key by { lemma_max_key_bounds(chroms@, i); }
    }

    let mut chroms = chroms;
    
    //println!("Used chroms {:?}", chroms);

    let item_count = chroms.len() as u64;
    // TODO: for now, always just use the length of chroms (if less than 256). This means we don't have to implement writing non-leaf nodes for now...
    // TODO: make this configurable
    let block_size = max_u64(256, item_count) as u32;
    let max_bytes = max_name_len(&chroms);

    file.put_u32(CHROM_TREE_MAGIC)?;
    file.put_u32(block_size)?;
    file.put_u32(max_bytes)?;
    file.put_u32(8)?; // size of Id (u32) + Size (u32)
    file.put_u64(item_count)?;
    file.put_u64(0)?; // Reserved

    // Assuming this is all one block right now
    // TODO: add non-leaf nodes and split blocks

    assert(file@ == put_tree_header(b0, n, key)); 
    file.put_u8(1)?;
    file.put_u8(0)?;

    assert(item_count as u16 == item_count); 
    file.put_u16(item_count as u16)?;

    let ghost h = put_node_header(put_tree_header(b0, n, key), n);
    assert(file@ == h); 
    assert(file@ == items_from(h, chroms@.subrange(0, 0), key));
    for i__1 in 0..chroms.len() 
        invariant
            
            n == chroms@.len(), key == max_key(chroms@), max_bytes == key, 0 <= key,
            forall|i: int| 0 <= i < chroms@.len() ==> (#[trigger] chroms@[i]).0@.len() <= key,
            
            file@ == items_from(h, chroms@.subrange(0, i__1 as int), key),
{ let chrom = &chroms[i__1].0; let id = &chroms[i__1].1;

        proof {
            assert(chroms@.subrange(0, i__1 + 1).drop_last() =~= chroms@.subrange(0, i__1 as int));
            assert(chroms@.subrange(0, i__1 + 1).last() == chroms@[i__1 as int]);
            assert(chroms@[i__1 as int].0@.len() <= key);
        }
        let ghost prev = file@;
        let mut key_bytes__v = zero_vec(max_bytes as usize);
        let chrom_bytes = chrom;
        copy_prefix(&mut key_bytes__v, chrom_bytes);
        file.put_bytes(key_bytes__v.as_slice())?;
        file.put_u32(*id)?;
        let length = &chroms[i__1].2;
        file.put_u32(*length)?;

        assert(file@ == put_item(prev, chroms@[i__1 as int], key)); 
    }

    proof {
        assert(chroms@.subrange(0, n) =~= chroms@);
        lemma_items_len(h, chroms@, key);
        assert forall|i: int| 0 <= i < chroms@.len() implies pad((#[trigger] chroms@[i]).0@, key).len() == key by {}
        assert(h.len() == b0.len() + 36);
        assert forall|i: int| 0 <= i < chroms@.len() implies file@.subrange(b0.len() + 36 + item_off(i, key), b0.len() + 36 + item_off(i + 1, key))
            == item_bytes(#[trigger] chroms@[i], key) by { lemma_item_at(h, chroms@, key, i); }
    }
    Ok(())
}

} // verus!
fn main() {}

