// ================= lemmas over the ghost tree (unit rt_layout) =================
proof fn lemma_mul_step(n: int, f: int)
    ensures (n - 1) * f + f == n * f, 0 * f == 0,
{
    assert((n - 1) * f + f == n * f) by (nonlinear_arith);
}
proof fn lemma_mul_mono(a: int, b: int, f: int)
    requires 0 <= a <= b, 0 <= f,
    ensures 0 <= a * f <= b * f,
{
    assert(0 <= a * f <= b * f) by (nonlinear_arith) requires 0 <= a <= b, 0 <= f;
}
/// a tree that is well-formed as a non-last subtree is well-formed as a last one
proof fn lemma_wf_mono(t: RTreeChildren, lvl: int, b: int)
    requires wf(t, lvl, b, false),
    ensures wf(t, lvl, b, true),
    decreases lvl,
{
    match t {
        RTreeChildren::DataSections(v) => {}
        RTreeChildren::Nodes(v) => {
            let s = v@;
            assert forall|i: int| 0 <= i < s.len() implies wf((#[trigger] s[i]).children, lvl - 1, b, true && i == s.len() - 1) by {
                assert(wf(s[i].children, lvl - 1, b, false && i == s.len() - 1));
                if i == s.len() - 1 { lemma_wf_mono(s[i].children, lvl - 1, b); }
            }
        }
    }
}
proof fn lemma_wf_depth(t: RTreeChildren, lvl: int, b: int, last: bool)
    requires wf(t, lvl, b, last),
    ensures depth_ok(t, lvl),
    decreases lvl,
{
    match t {
        RTreeChildren::DataSections(v) => {}
        RTreeChildren::Nodes(v) => {
            let s = v@;
            assert forall|i: int| 0 <= i < s.len() implies depth_ok((#[trigger] s[i]).children, lvl - 1) by {
                lemma_wf_depth(s[i].children, lvl - 1, b, last && i == s.len() - 1);
            }
        }
    }
}
/// child i of a well-formed non-leaf node, seen as a possibly-last subtree
proof fn lemma_kid_wf(s: Seq<RTreeNode>, kl: int, b: int, plast: bool, i: int)
    requires kids_wf(s, kl, b, plast), 0 <= i < s.len(),
    ensures
        wf(s[i].children, kl, b, true),
        (i < s.len() - 1 || !plast) ==> wf(s[i].children, kl, b, false),
{
    assert(wf(s[i].children, kl, b, plast && i == s.len() - 1));
    if !(plast && i == s.len() - 1) { lemma_wf_mono(s[i].children, kl, b); }
}
// ---- sizes are non-negative and monotone in the number of children ----
proof fn lemma_sz_nonneg(t: RTreeChildren, cur: int, dest: int)
    ensures sz(t, cur, dest) >= 0,
    decreases cur, 0int,
{
    if cur != dest && cur > dest && cur > 0 {
        match t {
            RTreeChildren::Nodes(v) => { lemma_szk_nonneg(v@, cur - 1, dest, v@.len() as int); }
            RTreeChildren::DataSections(_) => {}
        }
    }
}
proof fn lemma_szk_nonneg(s: Seq<RTreeNode>, kl: int, dest: int, n: int)
    ensures sz_kids(s, kl, dest, n) >= 0,
    decreases kl, n + 1,
{
    if !(n <= 0 || kl < 0 || n > s.len()) {
        lemma_szk_nonneg(s, kl, dest, n - 1);
        lemma_sz_nonneg(s[n - 1].children, kl, dest);
    }
}
proof fn lemma_szk_mono(s: Seq<RTreeNode>, kl: int, dest: int, n: int, m: int)
    requires 0 <= n <= m <= s.len(),
    ensures 0 <= sz_kids(s, kl, dest, n) <= sz_kids(s, kl, dest, m),
    decreases m - n,
{
    lemma_szk_nonneg(s, kl, dest, n);
    if n < m {
        lemma_szk_mono(s, kl, dest, n, m - 1);
        if kl >= 0 { lemma_sz_nonneg(s[m - 1].children, kl, dest); }
    }
}
/// there are no nodes below level 0
proof fn lemma_sz_neg(t: RTreeChildren, cur: int, dest: int)
    requires dest < 0 <= cur,
    ensures sz(t, cur, dest) == 0,
    decreases cur, 0int,
{
    if cur > 0 {
        match t {
            RTreeChildren::Nodes(v) => { lemma_szk_neg(v@, cur - 1, dest, v@.len() as int); }
            RTreeChildren::DataSections(_) => {}
        }
    }
}
proof fn lemma_szk_neg(s: Seq<RTreeNode>, kl: int, dest: int, n: int)
    requires dest < 0,
    ensures sz_kids(s, kl, dest, n) == 0,
    decreases kl, n + 1,
{
    if !(n <= 0 || kl < 0 || n > s.len()) {
        lemma_szk_neg(s, kl, dest, n - 1);
        lemma_sz_neg(s[n - 1].children, kl, dest);
    }
}
/// there are no nodes of a level above the root of the subtree
proof fn lemma_szk_above(s: Seq<RTreeNode>, kl: int, dest: int, n: int)
    requires dest > kl,
    ensures sz_kids(s, kl, dest, n) == 0,
    decreases n,
{
    if !(n <= 0 || kl < 0 || n > s.len()) {
        lemma_szk_above(s, kl, dest, n - 1);
        assert(sz(s[n - 1].children, kl, dest) == 0);
    }
}
// ---- fullness => sizes ----
/// a well-formed node is at most a full node, and exactly a full node unless it is the last of its level
proof fn lemma_node_size(t: RTreeChildren, lvl: int, b: int, last: bool)
    requires wf(t, lvl, b, last), b >= 0,
    ensures
        4 <= node_size(t) <= full(lvl, b),
        !last ==> node_size(t) == full(lvl, b),
        sz(t, lvl, lvl) == node_size(t),
{
}
/// children 0..n of a well-formed node: all but possibly the last one are full nodes
proof fn lemma_kids_size(s: Seq<RTreeNode>, kl: int, b: int, plast: bool, n: int)
    requires kids_wf(s, kl, b, plast), 0 <= n <= s.len(), b >= 0,
    ensures
        sz_kids(s, kl, kl, n) <= n * full(kl, b),
        n * full(kl, b) <= sz_kids(s, kl, kl, n) + full(kl, b),
        (n < s.len() || !plast) ==> sz_kids(s, kl, kl, n) == n * full(kl, b),
    decreases n,
{
    lemma_mul_step(n, full(kl, b));
    if n > 0 {
        lemma_kids_size(s, kl, b, plast, n - 1);
        assert(wf(s[n - 1].children, kl, b, plast && n - 1 == s.len() - 1));
        lemma_node_size(s[n - 1].children, kl, b, plast && n - 1 == s.len() - 1);
    }
}
/// Lemma A: the value write_tree returns for a subtree (children * full node size, summed) is the real byte
/// size of the subtree's nodes one level below `dest` -- exactly for a non-last subtree, up to one full node
/// of slack for a last one; at dest == 0 it is the real size of the leaves.
proof fn lemma_rv(t: RTreeChildren, cur: int, dest: int, b: int, last: bool)
    requires wf(t, cur, b, last), 0 <= dest <= cur, b >= 0,
    ensures
        dest == 0 ==> rv(t, cur, dest, b) == sz(t, cur, 0),
        dest >= 1 ==> sz(t, cur, dest - 1) <= rv(t, cur, dest, b) <= sz(t, cur, dest - 1) + full(dest - 1, b),
        dest >= 1 && !last ==> rv(t, cur, dest, b) == sz(t, cur, dest - 1),
        rv(t, cur, dest, b) >= 0,
    decreases cur, 0int,
{
    lemma_sz_nonneg(t, cur, dest - 1);
    lemma_sz_nonneg(t, cur, 0);
    match t {
        RTreeChildren::DataSections(v) => {}
        RTreeChildren::Nodes(v) => {
            if cur == dest {
                lemma_kids_size(v@, cur - 1, b, last, v@.len() as int);
            } else {
                lemma_rv_kids(v@, cur - 1, dest, b, last, v@.len() as int);
            }
        }
    }
}
proof fn lemma_rv_kids(s: Seq<RTreeNode>, kl: int, dest: int, b: int, plast: bool, n: int)
    requires kids_wf(s, kl, b, plast), 0 <= n <= s.len(), 0 <= dest <= kl, b >= 0,
    ensures
        dest == 0 ==> rv_kids(s, kl, dest, b, n) == sz_kids(s, kl, 0, n),
        dest >= 1 ==> sz_kids(s, kl, dest - 1, n) <= rv_kids(s, kl, dest, b, n) <= sz_kids(s, kl, dest - 1, n) + full(dest - 1, b),
        dest >= 1 && (n < s.len() || !plast) ==> rv_kids(s, kl, dest, b, n) == sz_kids(s, kl, dest - 1, n),
        rv_kids(s, kl, dest, b, n) >= 0,
    decreases kl, n + 1,
{
    if n > 0 {
        lemma_rv_kids(s, kl, dest, b, plast, n - 1);
        assert(wf(s[n - 1].children, kl, b, plast && n - 1 == s.len() - 1));
        lemma_rv(s[n - 1].children, kl, dest, b, plast && n - 1 == s.len() - 1);
    }
}
proof fn lemma_rvk_mono(s: Seq<RTreeNode>, kl: int, dest: int, b: int, plast: bool, n: int, m: int)
    requires kids_wf(s, kl, b, plast), 0 <= n <= m <= s.len(), 0 <= dest <= kl, b >= 0,
    ensures 0 <= rv_kids(s, kl, dest, b, n) <= rv_kids(s, kl, dest, b, m),
    decreases m - n,
{
    lemma_rv_kids(s, kl, dest, b, plast, n);
    if n < m {
        lemma_rvk_mono(s, kl, dest, b, plast, n, m - 1);
        assert(wf(s[m - 1].children, kl, b, plast && m - 1 == s.len() - 1));
        lemma_rv(s[m - 1].children, kl, dest, b, plast && m - 1 == s.len() - 1);
    }
}
/// what write_tree needs when it descends into child i (loop 1): the child offset it passes is where the
/// child subtree's nodes of level dest-1 really start, and nothing overflows
proof fn lemma_descend(s: Seq<RTreeNode>, kl: int, dest: int, b: int, plast: bool, i: int, childoff: int)
    requires kids_wf(s, kl, b, plast), 0 <= i < s.len(), 0 <= dest <= kl, b >= 0,
    ensures
        wf(s[i].children, kl, b, true),
        kp(dest, childoff + rv_kids(s, kl, dest, b, i)) == kp(dest, childoff) + sz_kids(s, kl, dest - 1, i),
        rv_kids(s, kl, dest, b, i) >= 0,
        rv(s[i].children, kl, dest, b) >= 0,
        rv_kids(s, kl, dest, b, i) + rv(s[i].children, kl, dest, b) == rv_kids(s, kl, dest, b, i + 1),
        rv_kids(s, kl, dest, b, i + 1) <= rv_kids(s, kl, dest, b, s.len() as int),
{
    lemma_kid_wf(s, kl, b, plast, i);
    lemma_rv_kids(s, kl, dest, b, plast, i);
    lemma_rv(s[i].children, kl, dest, b, true);
    lemma_rvk_mono(s, kl, dest, b, plast, i + 1, s.len() as int);
    if dest <= 0 { lemma_szk_neg(s, kl, dest - 1, i); }
}
/// what write_tree needs when it writes the pointer of child idx (loop 3)
proof fn lemma_pointer(s: Seq<RTreeNode>, kl: int, b: int, plast: bool, idx: int)
    requires kids_wf(s, kl, b, plast), 0 <= idx < s.len(), 0 <= b <= 65535, s.len() <= b,
    ensures
        sz_kids(s, kl, kl, idx) == idx * full(kl, b),
        0 <= idx * full(kl, b) <= s.len() * full(kl, b),
        s.len() * full(kl, b) <= 65535 * 2097124,
        full(kl, b) * idx == idx * full(kl, b),
        full(kl, b) * s.len() == s.len() * full(kl, b),
{
    assert(full(kl, b) * idx == idx * full(kl, b)) by (nonlinear_arith);
    assert(full(kl, b) * s.len() == s.len() * full(kl, b)) by (nonlinear_arith);
    lemma_kids_size(s, kl, b, plast, idx);
    lemma_mul_mono(idx, s.len() as int, full(kl, b));
    lemma_mul_mono(s.len() as int, 65535, full(kl, b));
    assert(full(kl, b) <= 2097124);
    assert(65535 * full(kl, b) <= 65535 * 2097124);
}
// ---- lengths of the format spec ----
proof fn lemma_leaf_items_len(b: Seq<u8>, v: Seq<Section>, n: int)
    requires 0 <= n,
    ensures put_leaf_items(b, v, n).len() == b.len() + 32 * n,
    decreases n,
{
    if n > 0 { lemma_leaf_items_len(b, v, n - 1); }
}
proof fn lemma_nl_items_len(b: Seq<u8>, s: Seq<RTreeNode>, kl: int, kidpos: int, n: int)
    requires 0 <= n,
    ensures put_nl_items(b, s, kl, kidpos, n).len() == b.len() + 24 * n,
    decreases n,
{
    if n > 0 { lemma_nl_items_len(b, s, kl, kidpos, n - 1); }
}
proof fn lemma_node_len(b: Seq<u8>, t: RTreeChildren, lvl: int, kidpos: int)
    ensures put_node(b, t, lvl, kidpos).len() == b.len() + node_size(t),
{
    match t {
        RTreeChildren::DataSections(v) => { lemma_leaf_items_len(put_hdr(b, true, v@.len() as int), v@, v@.len() as int); }
        RTreeChildren::Nodes(v) => { lemma_nl_items_len(put_hdr(b, false, v@.len() as int), v@, lvl - 1, kidpos, v@.len() as int); }
    }
}
/// level `dest` of a subtree occupies exactly sz(t, cur, dest) bytes
proof fn lemma_level_len(b: Seq<u8>, t: RTreeChildren, cur: int, dest: int, kidpos: int)
    ensures fmt_level(b, t, cur, dest, kidpos).len() == b.len() + sz(t, cur, dest),
    decreases cur, 0int,
{
    if cur == dest { lemma_node_len(b, t, dest, kidpos); }
    else if cur > dest && cur > 0 {
        match t {
            RTreeChildren::Nodes(v) => { lemma_kids_len(b, v@, cur - 1, dest, kidpos, v@.len() as int); }
            RTreeChildren::DataSections(_) => {}
        }
    }
}
proof fn lemma_kids_len(b: Seq<u8>, s: Seq<RTreeNode>, kl: int, dest: int, kidpos: int, n: int)
    ensures fmt_kids(b, s, kl, dest, kidpos, n).len() == b.len() + sz_kids(s, kl, dest, n),
    decreases kl, n + 1,
{
    if !(n <= 0 || kl < 0 || n > s.len()) {
        lemma_kids_len(b, s, kl, dest, kidpos, n - 1);
        lemma_level_len(fmt_kids(b, s, kl, dest, kidpos, n - 1), s[n - 1].children, kl, dest, kidpos + sz_kids(s, kl, dest - 1, n - 1));
    }
}
/// the size clauses of write_tree's contract follow from its return value being rv
proof fn lemma_post(b0: Seq<u8>, t: RTreeChildren, cur: int, dest: int, b: int, kidpos: int)
    requires wf(t, cur, b, true), 0 <= dest <= cur, b >= 0,
    ensures
        fmt_level(b0, t, cur, dest, kidpos).len() == b0.len() + sz(t, cur, dest),
        dest == 0 ==> rv(t, cur, dest, b) == sz(t, cur, 0),
        dest >= 1 && wf(t, cur, b, false) ==> rv(t, cur, dest, b) == sz(t, cur, dest - 1),
{
    lemma_level_len(b0, t, cur, dest, kidpos);
    lemma_rv(t, cur, dest, b, true);
    if wf(t, cur, b, false) { lemma_rv(t, cur, dest, b, false); }
}
// ---- the level-order image ----
/// sizes of levels: every level is part of the total; the total of the upper levels grows downwards
proof fn lemma_above_bounds(t: RTreeChildren, levels: int, l: int)
    requires 0 <= l,
    ensures
        0 <= above(t, levels, l) <= above(t, levels, 0),
        l <= levels ==> 0 <= sz(t, levels, l) && above(t, levels, l) == above(t, levels, l + 1) + sz(t, levels, l),
        l > levels ==> above(t, levels, l) == 0,
        l <= levels ==> sz(t, levels, l) <= above(t, levels, 0),
    decreases l,
{
    lemma_sz_nonneg(t, levels, l);
    lemma_above_nonneg(t, levels, l);
    lemma_above_nonneg(t, levels, l + 1);
    if l > 0 {
        lemma_above_bounds(t, levels, l - 1);
    }
}
proof fn lemma_above_nonneg(t: RTreeChildren, levels: int, l: int)
    ensures 0 <= above(t, levels, l),
    decreases levels + 1 - l,
{
    if l <= levels { lemma_above_nonneg(t, levels, l + 1); lemma_sz_nonneg(t, levels, l); }
}
/// Levels are contiguous: after levels `levels`..=l have been appended to an image of length p0, the image
/// ends at p0 + above(l) -- exactly the `kidpos` that level l was formatted with, i.e. level l-1 starts
/// where the pointers of level l say it does.
proof fn lemma_down_len(b: Seq<u8>, t: RTreeChildren, levels: int, l: int, p0: int)
    ensures fmt_down(b, t, levels, l, p0).len() == b.len() + above(t, levels, l),
    decreases levels + 1 - l,
{
    if l <= levels {
        lemma_down_len(b, t, levels, l + 1, p0);
        lemma_level_len(fmt_down(b, t, levels, l + 1, p0), t, levels, l, kp(l, p0 + above(t, levels, l)));
    }
}
// ---- the advertised end bound is the lexicographic maximum ----
proof fn lemma_max_end_secs(v: Seq<Section>, n: int)
    requires 0 <= n <= v.len(),
    ensures
        [[L: lemma/header_end_is_an_upper_bound_of_every_root_item_end]]
        forall|i: int| 0 <= i < n ==> pos_le(sec_end(#[trigger] v[i]), max_end_secs(v, n)),
        [[L: lemma/header_end_is_attained_or_zero_when_empty]]
        n == 0 ==> max_end_secs(v, n) == (0u32, 0u32),
        n > 0 ==> exists|i: int| 0 <= i < n && sec_end(#[trigger] v[i]) == max_end_secs(v, n),
    decreases n,
{
    if n > 0 {
        lemma_max_end_secs(v, n - 1);
        let m = max_end_secs(v, n - 1);
        let e = sec_end(v[n - 1]);
        assert forall|i: int| 0 <= i < n implies pos_le(sec_end(#[trigger] v[i]), max_end_secs(v, n)) by {
            if i < n - 1 { assert(pos_le(sec_end(v[i]), m)); }
        }
        if pos_le(m, e) {
            assert(sec_end(v[n - 1]) == max_end_secs(v, n));
        } else if n - 1 > 0 {
            let j = choose|j: int| 0 <= j < n - 1 && sec_end(#[trigger] v[j]) == m;
            assert(sec_end(v[j]) == max_end_secs(v, n));
        }
    }
}
proof fn lemma_max_end_nodes(v: Seq<RTreeNode>, n: int)
    requires 0 <= n <= v.len(),
    ensures
        [[L: lemma/header_end_is_an_upper_bound_of_every_root_child_end]]
        forall|i: int| 0 <= i < n ==> pos_le(node_end(#[trigger] v[i]), max_end_nodes(v, n)),
        [[L: lemma/header_end_is_attained_by_a_root_child]]
        n > 0 ==> exists|i: int| 0 <= i < n && node_end(#[trigger] v[i]) == max_end_nodes(v, n),
    decreases n,
{
    if n > 0 {
        lemma_max_end_nodes(v, n - 1);
        let m = max_end_nodes(v, n - 1);
        let e = node_end(v[n - 1]);
        assert forall|i: int| 0 <= i < n implies pos_le(node_end(#[trigger] v[i]), max_end_nodes(v, n)) by {
            if i < n - 1 { assert(pos_le(node_end(v[i]), m)); }
        }
        if pos_le(m, e) {
            assert(node_end(v[n - 1]) == max_end_nodes(v, n));
        } else if n - 1 > 0 {
            let j = choose|j: int| 0 <= j < n - 1 && node_end(#[trigger] v[j]) == m;
            assert(node_end(v[j]) == max_end_nodes(v, n));
        }
    }
}
