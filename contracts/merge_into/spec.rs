// Plain-Rust statement of merge_into's precondition and of the walk over its result.
// Shared verbatim by the Kani harnesses (kani_harness.rs) and by the replay tests that run on
// the real code with the ordinary toolchain (kani.toml: replay_template) — no Kani items here.
// Expects `Value` (bigtools::bbi::Value) in scope.

/// PRE: both intervals non-empty, they overlap (share at least one base), values finite.
/// `one.end > two.start` is what merge_into itself checks (it panics otherwise);
/// `two.end > one.start` and the two non-emptiness facts are what the call site in
/// insert_into_queue adds.  All four are needed (NOTES.md gives a witness for each).
fn pre(one: &Value, two: &Value) -> bool {
    one.start < one.end
        && two.start < two.end
        && one.end > two.start
        && two.end > one.start
        && one.value.is_finite()
        && two.value.is_finite()
}

fn umin(a: u32, b: u32) -> u32 {
    if a < b { a } else { b }
}
fn umax(a: u32, b: u32) -> u32 {
    if a > b { a } else { b }
}

/// Walk the up-to-4 pieces in tuple order, skipping None.  Returns
/// (all non-empty, contiguous, first start, last end, value of the piece containing p,
///  p was found in exactly one piece).
struct Walk {
    nonempty: bool,
    contiguous: bool,
    first_start: u32,
    last_end: u32,
    hits: u8,
    v_at_p: f32,
}

fn walk(r: &(Value, Option<Value>, Option<Value>, Option<Value>), p: u32) -> Walk {
    let mut w = Walk {
        nonempty: r.0.start < r.0.end,
        contiguous: true,
        first_start: r.0.start,
        last_end: r.0.end,
        hits: 0,
        v_at_p: 0.0,
    };
    if r.0.start <= p && p < r.0.end {
        w.hits += 1;
        w.v_at_p = r.0.value;
    }
    if let Some(x) = r.1 {
        w.nonempty = w.nonempty && x.start < x.end;
        w.contiguous = w.contiguous && x.start == w.last_end;
        w.last_end = x.end;
        if x.start <= p && p < x.end {
            w.hits += 1;
            w.v_at_p = x.value;
        }
    }
    if let Some(x) = r.2 {
        w.nonempty = w.nonempty && x.start < x.end;
        w.contiguous = w.contiguous && x.start == w.last_end;
        w.last_end = x.end;
        if x.start <= p && p < x.end {
            w.hits += 1;
            w.v_at_p = x.value;
        }
    }
    if let Some(x) = r.3 {
        w.nonempty = w.nonempty && x.start < x.end;
        w.contiguous = w.contiguous && x.start == w.last_end;
        w.last_end = x.end;
        if x.start <= p && p < x.end {
            w.hits += 1;
            w.v_at_p = x.value;
        }
    }
    w
}


fn covers(v: &Value, p: u32) -> bool {
    v.start <= p && p < v.end
}

/// 0: one starts first, 1: same start, 2: two starts first (exhaustive on u32).
fn start_relation(one: &Value, two: &Value) -> u8 {
    if one.start < two.start {
        0
    } else if one.start == two.start {
        1
    } else {
        2
    }
}

/// Quick form of "value at p == sum of the inputs' values at p" (numeric ==), by cases:
/// both cover p: v == one.value + two.value, where for an addend that is (+/-)0.0 the sum is
/// replaced by the other addend (x + (+/-0.0) == x for finite x, lemma f32_add_zero_identity);
/// only one covers p: v == that input's value.
fn value_ok_by_cases(one: &Value, two: &Value, p: u32, v: f32) -> bool {
    let in1 = covers(one, p);
    let in2 = covers(two, p);
    if in1 && in2 {
        if two.value == 0.0 {
            v == one.value
        } else if one.value == 0.0 {
            v == two.value
        } else {
            v == one.value + two.value
        }
    } else if in1 {
        v == one.value
    } else if in2 {
        v == two.value
    } else {
        false
    }
}

/// Thorough form: plain arithmetic, an input contributes 0.0 where it does not cover p.
fn arithmetic_sum_at(one: &Value, two: &Value, p: u32) -> f32 {
    let a: f32 = if covers(one, p) { one.value } else { 0.0 };
    let b: f32 = if covers(two, p) { two.value } else { 0.0 };
    a + b
}
