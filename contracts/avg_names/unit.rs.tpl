//@unit avg_names
//@serves C17
//@backend verus
// utils::misc::name_for_bed_item -- the name column of bigwigaverageoverbed rows (library and tool).
//   C17: "There is one output row per input row in input order with the requested name column": name modes
//   {column n, interval, none}.  Column numbers here are 0-based (the tool subtracts 1 from its one-based option):
//   0 = chromosome, 1 = start, 2 = end, c >= 3 = the (c-3)-th tab-separated piece of the rest of the BED line; a column
//   the line does not have is an error (never a panic, never a neighbouring column).
// `format!` is kept verbatim by shadowing the macro (same device as unit avg_rows): the text is an uninterpreted
// function of the literal and of the argument tuple.
use vstd::prelude::*;
#[allow(unused_macros)]
macro_rules! format {
    ($f:literal $(, $a:expr)* $(,)?) => { fmt_text($f, ($(&$a,)*)) };
}
verus! {

/// `String` / `&str` as opaque text with a ghost value (R11)
#[verifier::external_body]
pub struct Text { _p: u8 }
impl Text {
    pub uninterp spec fn view(&self) -> Seq<char>;
    /// `&str::to_string` / `String::clone`
    #[verifier::external_body]
    pub fn to_string(&self) -> (r: Text) ensures r@ == self@ { unimplemented!() }
    /// `rest.split('\t')`: the tab-separated pieces (ASSUMED std contract: at least one piece; joining them with tabs
    /// gives the text back -- only the indexing below is used)
    #[verifier::external_body]
    pub fn split(&self, sep: char) -> (r: Pieces) ensures sep == '\t' ==> r.rest() == tab_pieces(self@) { unimplemented!() }
    /// `str::split_whitespace` / `split_ascii_whitespace` (not used by the code today; present so that an edit using it is judged)
    #[verifier::external_body]
    pub fn split_whitespace(&self) -> (r: Pieces) ensures r.rest() == ws_pieces(self@) { unimplemented!() }
    #[verifier::external_body]
    pub fn split_ascii_whitespace(&self) -> (r: Pieces) ensures r.rest() == ws_pieces(self@) { unimplemented!() }
}
pub uninterp spec fn tab_pieces(t: Seq<char>) -> Seq<Seq<char>>;
/// pieces cut at white space (what `split_whitespace` yields): unrelated to the tab-separated columns
pub uninterp spec fn ws_pieces(t: Seq<char>) -> Seq<Seq<char>>;
/// the iterator `Split<'_, char>`
#[verifier::external_body]
pub struct Pieces { _p: u8 }
impl Pieces {
    pub uninterp spec fn rest(&self) -> Seq<Seq<char>>;
    /// `Iterator::nth(k)`: skips k pieces and yields the next one
    #[verifier::external_body]
    pub fn nth(&mut self, k: usize) -> (r: Option<Text>)
        ensures
            k < old(self).rest().len() ==> r is Some && r->Some_0@ == old(self).rest()[k as int] && final(self).rest() == old(self).rest().subrange(k + 1, old(self).rest().len() as int),
            k >= old(self).rest().len() ==> r is None && final(self).rest().len() == 0,
    { unimplemented!() }
    /// `Iterator::next`, `last`, `count`, `collect::<Vec<_>>().len()` -- spellings an edit (or the error message) may use
    #[verifier::external_body]
    pub fn next(&mut self) -> (r: Option<Text>)
        ensures old(self).rest().len() > 0 ==> r is Some && r->Some_0@ == old(self).rest()[0] && final(self).rest() == old(self).rest().drop_first(),
            old(self).rest().len() == 0 ==> r is None,
    { unimplemented!() }
    #[verifier::external_body]
    pub fn last(self) -> (r: Option<Text>) { unimplemented!() }
    #[verifier::external_body]
    pub fn count(self) -> (r: usize) ensures r == self.rest().len() { unimplemented!() }
    #[verifier::external_body]
    pub fn collect_len(self) -> (r: usize) ensures r == self.rest().len(), r <= usize::MAX / 2 { unimplemented!() }
}
/// decimal text of a number (`u32::to_string`): uninterpreted, deterministic
pub uninterp spec fn dec(n: u32) -> Seq<char>;
#[verifier::external_body]
pub fn u32_to_string(n: u32) -> (r: Text) ensures r@ == dec(n) { unimplemented!() }
/// the text `format!(fmt, args..)` produces (uninterpreted function of literal and argument tuple)
pub uninterp spec fn text_spec<T>(fmt: &str, args: T) -> Seq<char>;
#[verifier::external_body]
pub fn fmt_text<T>(fmt: &'static str, args: T) -> (r: Text) ensures r@ == text_spec(fmt, args) { unimplemented!() }

pub struct BedEntry { pub start: u32, pub end: u32, pub rest: Text }
//@extract enum bigtools/src/utils/misc.rs Name
//@rule R8
//@sub /#\[derive\([^\)]*\)\]\n/ => "" min=0
//@end
pub struct InvalidNameColError(pub Text);

// ---------------- the documented name column (C17) ----------------
pub open spec fn name_spec(name: Name, chrom: &Text, entry: &BedEntry) -> Option<Seq<char>> {
    match name {
        Name::Column(col) =>
            if col == 0 { Some(chrom@) }
            else if col == 1 { Some(dec(entry.start)) }
            else if col == 2 { Some(dec(entry.end)) }
            else if col - 3 < tab_pieces(entry.rest@).len() { Some(tab_pieces(entry.rest@)[col - 3]) }
            else { None },
        Name::Interval => Some(text_spec("{}:{}-{}", (&chrom, &entry.start, &entry.end))),
        Name::None => Some(text_spec("{}\t{}\t{}\t{}", (&chrom, &entry.start, &entry.end, &entry.rest))),
    }
}

//@extract fn bigtools/src/utils/misc.rs name_for_bed_item
//@rule R16
//@rule R8
//@sub /chrom: &str,/ => chrom: &Text, min=1
//@sub /Result<String, InvalidNameColError>/ => Result<Text, InvalidNameColError> min=1
//@sub /\b(start|end)\.to_string\(\)/ => u32_to_string(\1) min=0
//@sub /\.collect::<Vec<_>>\(\)\s*\.len\(\)/ => .collect_len() min=0
//@ret r
//@sig
    requires
        // the error message computes `col + 1`: Name::Column(usize::MAX) (library API only; the tool passes option - 1)
        // would overflow there -- outside C17's name modes, stated instead of hidden
        [[L: pre_column_number_below_usize_max]]
        name matches Name::Column(c) ==> c < usize::MAX,
    ensures
        [[L: name_is_the_requested_column_interval_or_whole_line]]
        r matches Ok(t) ==> name_spec(name, chrom, entry) == Some(t@),
        [[L: a_column_the_line_does_not_have_is_an_error]]
        r is Err <==> name_spec(name, chrom, entry) is None,
//@end

} // verus!
fn main() {}
