// autoSql schema parser (bed::autosql::parse): the FUNCTIONAL result of the grammar-level functions on the language the
// schema generator `bed_autosql` emits, at token level.
// Property clause (C19): "... the schema it generates from the first BED line declares exactly three plus the number of
// extra columns fields and the bigBed header's field count equals that; ... The schema parser ... parses every schema the
// generator emits."  The header's field count is obtained by PARSING the generated text (unit write_pre takes it from the
// last declaration `parse_autosql` returns), so the clause needs
//      parse_autosql(text generated for n extra columns) == Ok([one declaration with exactly 3 + n fields]).
// Unit asql_loops proves that parsing terminates, stays in bounds and never panics -- not what it returns.  This unit cuts
// the same functions and proves, over a token model of the tokenizer (assumption A1', NOTES.md):
//   (a) parse_field_list on `F_1 .. F_m )`, F_i = `TYPE NAME ; "comment"` or `TYPE [ SIZE ] NAME ; "comment"` (TYPE one of
//       the 12 simple types), returns Ok(fields), fields.len() == m, field i = (TYPE_i, SIZE_i, NAME_i, comment_i), and
//       stops in front of the `)`;
//   (b) parse_declaration on `table|simple|object NAME "comment" ( F_1 .. F_m )` returns Ok(Some(that declaration)) and
//       stops behind the `)`; at end of input it returns Ok(None);
//   (c) parse_autosql on a text whose tokens are `gen_stream(n)` -- the tokens of what bed_autosql emits for n extra
//       columns -- returns Ok(vec![d]) with d.fields.len() == 3 + n, field j having the generated type and name.
// The totality contracts of asql_loops (termination with measure len - pos, cursor monotone, results bounded by the input)
// are kept on every function: they carry the `decreases` clauses and the branches the generator never takes
// (enum/set values, index/primary/unique/auto, nested simple/object/table field types).
use vstd::prelude::*;
verus! {

/// R6 target: panic!/unreachable!/unimplemented!/todo! become a call that must be proved unreachable.
/// (No such macro occurs in the extracted functions today: R6 reports 0 hits.)
#[verifier::external_body]
pub fn vpanic() -> !
    requires false
{ panic!() }

// ---------------------------------------------------------------------------------------------
// Tok: stand-in for ONE `&'a str` slice handed out by the tokenizer -- an OCCURRENCE in the text (`id`), so two `uint`
// at different places are different Toks.  String *content* is outside Verus; the facts kept are "is it empty",
// "which literal of the grammar is it", "does it start with a double quote", its characters (for the name rule) and
// whether the character that follows the occurrence is glued to it (neither white space nor a delimiter nor the end).
// ---------------------------------------------------------------------------------------------
#[allow(non_camel_case_types)]
#[derive(Clone, Copy, PartialEq, Eq)]
pub enum Lit {
    Empty, LParen, RParen, LBracket, RBracket, Semi, Comma,
    W_primary, W_index, W_unique, W_auto,
    W_int, W_uint, W_short, W_ushort, W_byte, W_ubyte, W_float, W_double, W_char, W_string,
    W_lstring, W_bigint, W_enum, W_set, W_simple, W_object, W_table,
    Other,
}

#[derive(Clone, Copy)]
pub struct Tok { pub id: usize }

impl Tok {
    /// text == ""
    pub uninterp spec fn empty(&self) -> bool;
    /// the literal of the grammar the text is equal to (Other if none)
    pub uninterp spec fn lit(&self) -> Lit;
    /// str::to_lowercase
    pub uninterp spec fn lower(&self) -> Tok;
    /// the first character is a double quote
    pub uninterp spec fn quoted(&self) -> bool;
    /// the character right after this occurrence is neither white space, nor one of `;()[],`, nor the end of the text
    pub uninterp spec fn glued(&self) -> bool;
    /// one of the six delimiter characters
    pub open spec fn punct(&self) -> bool {
        self.lit() == Lit::LParen || self.lit() == Lit::RParen || self.lit() == Lit::LBracket
            || self.lit() == Lit::RBracket || self.lit() == Lit::Semi || self.lit() == Lit::Comma
    }
    /// a maximal run of characters that are neither white space nor delimiters, not starting with a quote
    pub open spec fn word(&self) -> bool { !self.empty() && !self.quoted() && !self.punct() }
    /// a `;` followed by white space, a delimiter or the end
    pub open spec fn semi(&self) -> bool { self.lit() == Lit::Semi && !self.glued() }

    /// `s.is_empty()`
    #[verifier::external_body]
    fn is_empty(&self) -> (b: bool)
        ensures b == self.empty(),
    { unimplemented!() }
    /// `s == "<literal>"`; the literal "" is the only empty one
    #[verifier::external_body]
    fn eq_lit(&self, l: Lit) -> (b: bool)
        ensures b == (self.lit() == l), (self.lit() == Lit::Empty) == self.empty(),
    { unimplemented!() }
    /// comparison with a string literal the grammar units do not name: unknown result (so that an edit that
    /// introduces one is judged by the contracts instead of being rejected by the front end)
    #[verifier::external_body]
    fn eq_other(&self) -> (b: bool) { unimplemented!() }
    /// `s != "<literal>"`
    #[verifier::external_body]
    fn ne_lit(&self, l: Lit) -> (b: bool)
        ensures b == (self.lit() != l), (self.lit() == Lit::Empty) == self.empty(),
    { unimplemented!() }
    /// scrutinee of `match s { "<literal>" => .., _ => .. }`
    #[verifier::external_body]
    fn kind(&self) -> (k: Lit)
        ensures k == self.lit(), (k == Lit::Empty) == self.empty(),
    { unimplemented!() }
    /// `s.to_string()`: the owned copy is the same text
    #[verifier::external_body]
    fn to_string(&self) -> (r: Tok)
        ensures r == *self,
    { unimplemented!() }
    /// `s.to_lowercase()`: "" is the only string whose lower-casing is ""; every literal of the grammar (lower-case ASCII
    /// keywords, delimiters, "") is its own lower-casing
    #[verifier::external_body]
    fn to_lowercase(&self) -> (r: Tok)
        ensures r == self.lower(), r.empty() == self.empty(),
            self.lit() != Lit::Other ==> r.lit() == self.lit(),
    { unimplemented!() }
    /// `s.as_bytes()[i]` (not used by the code today; present so that an edit validating names byte-wise is judged):
    /// indexing PANICS past the end -- in particular `[0]` on the empty token the parser returns at end of input
    #[verifier::external_body]
    fn byte_at(&self, i: usize) -> (r: u8)
        requires !self.empty(), i == 0,
    { unimplemented!() }
    /// `s.bytes().any(..)` / `s.bytes().all(..)` with some predicate: nothing known about the answer
    #[verifier::external_body]
    fn any_char_unknown(&self) -> (b: bool) { unimplemented!() }
    /// the characters of the text, in order (`s.chars()`)
    pub uninterp spec fn text(&self) -> Seq<char>;
    /// `s.chars().collect::<Vec<char>>()`: the characters; "" is the text without characters
    #[verifier::external_body]
    fn char_vec(&self) -> (v: Vec<char>)
        ensures v@ == self.text(), self.empty() == (self.text().len() == 0),
    { unimplemented!() }
}

// ---------------------------------------------------------------------------------------------
// `s.chars()` idioms (real contracts, VERIFIED over `char_vec`) and the `char` classification methods
// (uninterpreted predicates + the facts of Unicode that matter here, see `char_facts`).  As in asql_loops.
// ---------------------------------------------------------------------------------------------
/// `s.chars().next()`: the first character, None for ""
fn chars_first(t: &Tok) -> (r: Option<char>)
    ensures
        t.empty() == (t.text().len() == 0),
        t.text().len() == 0 ==> r is None,
        t.text().len() > 0 ==> r == Some(t.text()[0]),
{
    let v = t.char_vec();
    if v.len() > 0 { Some(v[0]) } else { None }
}
/// `s.chars().any(f)`: true iff f answers true for some character
fn chars_any<F: Fn(char) -> bool>(t: &Tok, f: F) -> (r: bool)
    requires forall|c: char| f.requires((c,)),
    ensures
        t.empty() == (t.text().len() == 0),
        r ==> exists|i: int| 0 <= i < t.text().len() && f.ensures((#[trigger] t.text()[i],), true),
        !r ==> forall|i: int| 0 <= i < t.text().len() ==> f.ensures((#[trigger] t.text()[i],), false),
{
    let v = t.char_vec();
    let mut k: usize = 0;
    while k < v.len()
        invariant k <= v.len(), v@ == t.text(), t.empty() == (t.text().len() == 0),
            forall|i: int| 0 <= i < k ==> f.ensures((#[trigger] t.text()[i],), false),
            forall|c: char| f.requires((c,)),
        decreases v.len() - k,
    {
        if f(v[k]) { return true; }
        k = k + 1;
    }
    false
}
/// `s.chars().all(f)`: true iff f answers true for every character (true for "")
fn chars_all<F: Fn(char) -> bool>(t: &Tok, f: F) -> (r: bool)
    requires forall|c: char| f.requires((c,)),
    ensures
        t.empty() == (t.text().len() == 0),
        r ==> forall|i: int| 0 <= i < t.text().len() ==> f.ensures((#[trigger] t.text()[i],), true),
        !r ==> exists|i: int| 0 <= i < t.text().len() && f.ensures((#[trigger] t.text()[i],), false),
{
    let v = t.char_vec();
    let mut k: usize = 0;
    while k < v.len()
        invariant k <= v.len(), v@ == t.text(), t.empty() == (t.text().len() == 0),
            forall|i: int| 0 <= i < k ==> f.ensures((#[trigger] t.text()[i],), true),
            forall|c: char| f.requires((c,)),
        decreases v.len() - k,
    {
        if !f(v[k]) { return false; }
        k = k + 1;
    }
    true
}
/// Unicode `Alphabetic` / numeric (Nd, Nl, No) properties: uninterpreted
pub uninterp spec fn is_alpha(c: char) -> bool;
pub uninterp spec fn is_numeric(c: char) -> bool;
pub open spec fn is_alnum(c: char) -> bool { is_alpha(c) || is_numeric(c) }
pub open spec fn ascii_letter(c: char) -> bool { ('a' <= c && c <= 'z') || ('A' <= c && c <= 'Z') }
pub open spec fn ascii_digit(c: char) -> bool { '0' <= c && c <= '9' }
pub open spec fn ascii_letter_r(c: &char) -> bool { ascii_letter(*c) }
pub open spec fn ascii_digit_r(c: &char) -> bool { ascii_digit(*c) }
pub open spec fn ascii_alnum_r(c: &char) -> bool { ascii_letter(*c) || ascii_digit(*c) }
#[verifier::when_used_as_spec(is_alpha)]
pub assume_specification [char::is_alphabetic] (c: char) -> (b: bool) ensures b == is_alpha(c);
#[verifier::when_used_as_spec(is_numeric)]
pub assume_specification [char::is_numeric] (c: char) -> (b: bool) ensures b == is_numeric(c);
/// std: `self.is_alphabetic() || self.is_numeric()`
#[verifier::when_used_as_spec(is_alnum)]
pub assume_specification [char::is_alphanumeric] (c: char) -> (b: bool) ensures b == is_alnum(c);
#[verifier::when_used_as_spec(ascii_digit_r)]
pub assume_specification [char::is_ascii_digit] (c: &char) -> (b: bool) ensures b == ascii_digit(*c);
#[verifier::when_used_as_spec(ascii_letter_r)]
pub assume_specification [char::is_ascii_alphabetic] (c: &char) -> (b: bool) ensures b == ascii_letter(*c);
#[verifier::when_used_as_spec(ascii_alnum_r)]
pub assume_specification [char::is_ascii_alphanumeric] (c: &char) -> (b: bool) ensures b == (ascii_letter(*c) || ascii_digit(*c));
/// the facts about the uninterpreted classes that matter (all true of Unicode): an ASCII letter is alphabetic (hence
/// alphanumeric) and not numeric; an ASCII digit is numeric (hence alphanumeric) and NOT alphabetic; the blank and the
/// underscore are neither
pub open spec fn char_facts() -> bool {
    &&& forall|c: char| ascii_letter(c) ==> #[trigger] is_alpha(c)
    &&& forall|c: char| ascii_letter(c) ==> !#[trigger] is_numeric(c)
    &&& forall|c: char| ascii_digit(c) ==> #[trigger] is_numeric(c)
    &&& forall|c: char| ascii_digit(c) ==> !#[trigger] is_alpha(c)
    &&& !is_alpha(' ') && !is_numeric(' ') && !is_alpha('_') && !is_numeric('_')
}
#[verifier::external_body]
pub proof fn char_class_facts() ensures char_facts() { }

/// the names the schema generator emits (unit asql_gen `extra_columns_named_standard_then_numbered`: `table bed`, the
/// standard BED names `name`, `thickStart`, .. then `field16`, `field17`, ..): an ASCII letter, then ASCII letters and digits
pub open spec fn generator_style_name(s: Seq<char>) -> bool {
    &&& s.len() > 0 && ascii_letter(s[0])
    &&& forall|i: int| 0 <= i < s.len() ==> ascii_letter(#[trigger] s[i]) || ascii_digit(s[i])
}

// ---------------------------------------------------------------------------------------------
// VParser: stand-in for parse::parser::Parser<'a> {data, start_cursor, end_cursor}.
//
// BYTE MODEL (assumption A1, as in asql_loops; checked within a bound by Kani unit asql_tok):
//   pos() = start_cursor, end() = end_cursor, len() = data.len(); wf: 0 <= pos <= end <= len.  It carries termination.
//
// TOKEN MODEL (assumption A1', argued from the real tokenizer in NOTES.md, cross-checked by tokmodel_check.py):
//   toks()    = lex(data): the lexemes of the WHOLE text, in order, where lex repeats { skip white space; stop at the end;
//               c = next character; c == '"': the lexeme runs up to and including the next '"' (or to the end of the text);
//               c one of `;()[],`: the lexeme is that character; otherwise: the maximal run of characters that are
//               neither white space nor one of `;()[],` }.  Never changes.
//   at()      = number of lexemes that end at or before start_cursor
//   aligned() = start_cursor is not strictly inside a lexeme (it is at the start of lexeme number at(), or in the white
//               space in front of it, or -- at() == toks().len() -- in the trailing white space)
//   peeked()  = start_cursor is at the first byte of lexeme number at() and end_cursor right behind its last byte
//               (`take()` then hands out exactly that lexeme)
// The contracts say WHICH lexeme a call returns/consumes only where the call kind fits the lexeme:
//   peek_word/eat_word  at a word, or at a delimiter that is not glued to what follows      -> that lexeme
//   peek_word           at a quoted string  -> some non-empty text that is no literal of the grammar (it starts with '"')
//   peek_one/eat_one    at a delimiter      -> that lexeme;   at a word / quoted string -> its first character, which
//                                              is no literal of the grammar (eat_one: the cursor is then unknown)
//   peek/eat_quoted_string at a quoted string -> that lexeme;  elsewhere (also at the end) -> "" and nothing moves
//   every call at the end of the lexemes    -> "" and nothing moves
// Everything else (a word call at a glued delimiter, take() after a partial peek, any call while not aligned) is left
// unspecified: an edit that gets there cannot establish the functional postconditions.
// ---------------------------------------------------------------------------------------------
pub uninterp spec fn str_len(s: &str) -> int;
/// the lexemes of a text (see above)
pub uninterp spec fn lex(s: &str) -> Seq<Tok>;

#[verifier::external_body]
pub struct VParser { _p: u8 }

impl VParser {
    pub uninterp spec fn pos(&self) -> int;
    pub uninterp spec fn end(&self) -> int;
    pub uninterp spec fn len(&self) -> int;
    pub open spec fn wf(&self) -> bool { 0 <= self.pos() <= self.end() <= self.len() }

    pub uninterp spec fn toks(&self) -> Seq<Tok>;
    pub uninterp spec fn at(&self) -> int;
    pub uninterp spec fn aligned(&self) -> bool;
    pub uninterp spec fn peeked(&self) -> bool;
    /// on a lexeme boundary
    pub open spec fn ready(&self) -> bool { self.aligned() && 0 <= self.at() <= self.toks().len() }
    /// on a lexeme boundary with a lexeme ahead
    pub open spec fn more(&self) -> bool { self.ready() && self.at() < self.toks().len() }
    /// on a lexeme boundary with nothing but white space ahead
    pub open spec fn done(&self) -> bool { self.ready() && self.at() == self.toks().len() }
    /// the lexeme ahead
    pub open spec fn head(&self) -> Tok { self.toks()[self.at()] }
    /// same text, same place
    pub open spec fn stays(&self, o: &VParser) -> bool {
        self.toks() == o.toks() && self.at() == o.at() && self.aligned() == o.aligned()
    }
    /// same text, one lexeme further, on a boundary
    pub open spec fn stepped(&self, o: &VParser) -> bool {
        self.toks() == o.toks() && self.at() == o.at() + 1 && self.aligned()
    }
    /// a word call returns the lexeme ahead: a word, or a delimiter not glued to its successor
    pub open spec fn wordlike(t: Tok) -> bool { t.word() || (t.punct() && !t.glued()) }

    #[verifier::external_body]
    fn of(data: &str) -> (p: VParser)
        ensures p.wf(), p.pos() == 0, p.len() == str_len(data), str_len(data) >= 0,
            p.toks() == lex(data), p.at() == 0, p.aligned(),
    { unimplemented!() }

    #[verifier::external_body]
    fn take(&mut self) -> (t: Tok)
        requires old(self).wf(),
        ensures final(self).wf(), final(self).len() == old(self).len(),
            final(self).pos() == old(self).end(), final(self).end() == old(self).end(),
            t.empty() == (old(self).pos() == old(self).end()),
            final(self).toks() == old(self).toks(), !final(self).peeked(),
            old(self).more() && old(self).peeked() ==> t == old(self).head() && !t.empty() && final(self).stepped(old(self)),
            old(self).pos() == old(self).end() ==> final(self).stays(old(self)),
    { unimplemented!() }

    #[verifier::external_body]
    fn peek_word(&mut self) -> (t: Tok)
        requires old(self).wf(),
        ensures final(self).wf(), final(self).len() == old(self).len(),
            final(self).pos() >= old(self).pos(),
            t.empty() == (final(self).end() == final(self).pos()),
            t.empty() ==> final(self).pos() == final(self).len(),
            final(self).toks() == old(self).toks(), old(self).ready() ==> final(self).stays(old(self)),
            old(self).more() && Self::wordlike(old(self).head()) ==> t == old(self).head() && !t.empty() && final(self).peeked(),
            old(self).more() && old(self).head().quoted() ==> t.lit() == Lit::Other && !t.empty(),
            old(self).done() ==> t.empty(),
    { unimplemented!() }

    #[verifier::external_body]
    fn eat_word(&mut self) -> (t: Tok)
        requires old(self).wf(),
        ensures final(self).wf(), final(self).len() == old(self).len(),
            final(self).pos() >= old(self).pos(), final(self).end() == final(self).pos(),
            !t.empty() ==> final(self).pos() > old(self).pos(),
            t.empty() ==> final(self).pos() == final(self).len(),
            final(self).toks() == old(self).toks(), !final(self).peeked(),
            old(self).more() && Self::wordlike(old(self).head()) ==> t == old(self).head() && !t.empty() && final(self).stepped(old(self)),
            old(self).done() ==> t.empty() && final(self).stays(old(self)),
    { unimplemented!() }

    #[verifier::external_body]
    fn peek_one(&mut self) -> (t: Tok)
        requires old(self).wf(),
        ensures final(self).wf(), final(self).len() == old(self).len(),
            final(self).pos() >= old(self).pos(),
            t.empty() == (final(self).end() == final(self).pos()),
            t.empty() ==> final(self).pos() == final(self).len(),
            final(self).toks() == old(self).toks(), old(self).ready() ==> final(self).stays(old(self)),
            old(self).more() && old(self).head().punct() ==> t == old(self).head() && !t.empty() && final(self).peeked(),
            old(self).more() && !old(self).head().punct() ==> t.lit() == Lit::Other && !t.empty(),
            old(self).done() ==> t.empty(),
    { unimplemented!() }

    #[verifier::external_body]
    fn eat_one(&mut self) -> (t: Tok)
        requires old(self).wf(),
        ensures final(self).wf(), final(self).len() == old(self).len(),
            final(self).pos() >= old(self).pos(), final(self).end() == final(self).pos(),
            !t.empty() ==> final(self).pos() > old(self).pos(),
            t.empty() ==> final(self).pos() == final(self).len(),
            final(self).toks() == old(self).toks(), !final(self).peeked(),
            old(self).more() && old(self).head().punct() ==> t == old(self).head() && !t.empty() && final(self).stepped(old(self)),
            old(self).more() && !old(self).head().punct() ==> t.lit() == Lit::Other && !t.empty(),
            old(self).done() ==> t.empty() && final(self).stays(old(self)),
    { unimplemented!() }

    #[verifier::external_body]
    fn peek_quoted_string(&mut self) -> (t: Tok)
        requires old(self).wf(),
        ensures final(self).wf(), final(self).len() == old(self).len(),
            final(self).pos() >= old(self).pos(),
            t.empty() == (final(self).end() == final(self).pos()),
            final(self).toks() == old(self).toks(), old(self).ready() ==> final(self).stays(old(self)),
            old(self).more() && old(self).head().quoted() ==> t == old(self).head() && !t.empty() && final(self).peeked(),
            old(self).ready() && !(old(self).more() && old(self).head().quoted()) ==> t.empty(),
    { unimplemented!() }

    #[verifier::external_body]
    fn eat_quoted_string(&mut self) -> (t: Tok)
        requires old(self).wf(),
        ensures final(self).wf(), final(self).len() == old(self).len(),
            final(self).pos() >= old(self).pos(), final(self).end() == final(self).pos(),
            !t.empty() ==> final(self).pos() > old(self).pos(),
            final(self).toks() == old(self).toks(), !final(self).peeked(),
            old(self).more() && old(self).head().quoted() ==> t == old(self).head() && !t.empty() && final(self).stepped(old(self)),
            old(self).ready() && !(old(self).more() && old(self).head().quoted()) ==> t.empty() && final(self).stays(old(self)),
    { unimplemented!() }
}

// ---------------------------------------------------------------------------------------------
// Data types of bed::autosql::parse (extracted; String -> Tok; Debug derives dropped by R8).
// ---------------------------------------------------------------------------------------------
    pub enum ParseError {
        InvalidDeclareType(Tok),
        InvalidDeclareName(Tok),
        InvalidDeclareBrackets(Tok),
        InvalidFieldSizeClose(Tok),
        InvalidFieldCommentSeparater(Tok),
        InvalidFieldValuesBrackets(Tok),
        InvalidIndexSizeBrackets(Tok),
    }
    #[derive(Copy, Clone)]
    pub enum DeclarationType {
        Simple,
        Object,
        Table,
    }
    pub enum IndexType {
        Primary,
        Index(Option<Tok>),
        Unique,
    }
    pub struct DeclareName {
        pub name: Tok,
        pub index_type: Option<IndexType>,
        pub auto: bool,
    }
    pub struct Declaration {
        pub declaration_type: DeclarationType,
        pub name: DeclareName,
        pub comment: Tok,
        pub fields: Vec<Field>,
    }
    pub enum FieldType {
        Int,
        Uint,
        Short,
        Ushort,
        Byte,
        Ubyte,
        Float,
        Double,
        Char,
        String,
        Lstring,
        Bigint,
        Enum(Vec<Tok>),
        Set(Vec<Tok>),
        Declaration(DeclarationType, DeclareName),
    }
    pub struct Field {
        pub field_type: FieldType,
        pub field_size: Option<Tok>,
        pub name: Tok,
        pub index_type: Option<IndexType>,
        pub auto: bool,
        pub comment: Tok,
    }

// `#[derive(Clone)]` of the repository's types (the derive attribute itself is dropped above: Verus does not take it on
// non-Copy types).  REAL contract of a derived clone of String/Vec/Option/bool fields: an equal value.
impl Clone for IndexType { #[verifier::external_body] fn clone(&self) -> (r: Self) ensures r == *self { unimplemented!() } }
impl Clone for DeclareName { #[verifier::external_body] fn clone(&self) -> (r: Self) ensures r == *self { unimplemented!() } }
impl Clone for Declaration { #[verifier::external_body] fn clone(&self) -> (r: Self) ensures r == *self { unimplemented!() } }
impl Clone for FieldType { #[verifier::external_body] fn clone(&self) -> (r: Self) ensures r == *self { unimplemented!() } }
impl Clone for Field { #[verifier::external_body] fn clone(&self) -> (r: Self) ensures r == *self { unimplemented!() } }

/// number of symbolic values of an enum/set field type (0 for the others)
pub open spec fn n_values(ft: FieldType) -> int {
    match ft {
        FieldType::Enum(v) => v@.len() as int,
        FieldType::Set(v) => v@.len() as int,
        _ => 0,
    }
}

/// `u8::is_ascii_alphabetic` and friends: nothing known about the answer
#[verifier::external_body]
fn u8_class(b: u8) -> (r: bool) { unimplemented!() }

// ---------------------------------------------------------------------------------------------
// GRAMMAR VOCABULARY over a lexeme sequence ts (written from the autoSql grammar, kent autoSql.doc:
//   declaration := ("table"|"simple"|"object") NAME COMMENT "(" field+ ")"
//   field       := TYPE ["[" SIZE "]"] NAME ";" COMMENT          -- the part of the field grammar the generator uses)
// ---------------------------------------------------------------------------------------------
/// the twelve keyword types without arguments
pub open spec fn is_simple_type(l: Lit) -> bool {
    l == Lit::W_int || l == Lit::W_uint || l == Lit::W_short || l == Lit::W_ushort || l == Lit::W_byte || l == Lit::W_ubyte
        || l == Lit::W_float || l == Lit::W_double || l == Lit::W_char || l == Lit::W_string || l == Lit::W_lstring
        || l == Lit::W_bigint
}
/// the keyword a parsed field type stands for
pub open spec fn ft_lit(ft: FieldType) -> Lit {
    match ft {
        FieldType::Int => Lit::W_int, FieldType::Uint => Lit::W_uint, FieldType::Short => Lit::W_short,
        FieldType::Ushort => Lit::W_ushort, FieldType::Byte => Lit::W_byte, FieldType::Ubyte => Lit::W_ubyte,
        FieldType::Float => Lit::W_float, FieldType::Double => Lit::W_double, FieldType::Char => Lit::W_char,
        FieldType::String => Lit::W_string, FieldType::Lstring => Lit::W_lstring, FieldType::Bigint => Lit::W_bigint,
        FieldType::Enum(_) => Lit::W_enum, FieldType::Set(_) => Lit::W_set,
        FieldType::Declaration(_, _) => Lit::Other,
    }
}
pub open spec fn is_decl_type(l: Lit) -> bool { l == Lit::W_simple || l == Lit::W_object || l == Lit::W_table }
pub open spec fn dt_lit(dt: DeclarationType) -> Lit {
    match dt { DeclarationType::Simple => Lit::W_simple, DeclarationType::Object => Lit::W_object, DeclarationType::Table => Lit::W_table }
}
/// the words that continue a name (`NAME primary`, `NAME index[..]`, `NAME unique`, `NAME auto`)
pub open spec fn index_word(l: Lit) -> bool { l == Lit::W_primary || l == Lit::W_index || l == Lit::W_unique || l == Lit::W_auto }
/// what stands at q does not continue a name: the end, a quoted string, a free-standing delimiter, or another word
pub open spec fn plain_follow(ts: Seq<Tok>, q: int) -> bool {
    q == ts.len() || (0 <= q < ts.len() && (ts[q].quoted() || (ts[q].punct() && !ts[q].glued()) || (ts[q].word() && !index_word(ts[q].lit()))))
}
/// a declaration name of the generator's style at p, nothing continuing it
pub open spec fn name_ok(ts: Seq<Tok>, p: int) -> bool {
    0 <= p < ts.len() && ts[p].word() && generator_style_name(ts[p].text()) && plain_follow(ts, p + 1)
}
/// the field group at p carries a size: `TYPE [ SIZE ] NAME ; "comment"` (7 lexemes) instead of `TYPE NAME ; "comment"` (4)
pub open spec fn sized_at(ts: Seq<Tok>, p: int) -> bool { 0 <= p + 1 < ts.len() && ts[p + 1].lit() == Lit::LBracket }
pub open spec fn grp_width(ts: Seq<Tok>, p: int) -> int { if sized_at(ts, p) { 7 } else { 4 } }
/// a field group stands at p and at least one more lexeme follows it
pub open spec fn grp_ok(ts: Seq<Tok>, p: int) -> bool {
    &&& 0 <= p && p + grp_width(ts, p) < ts.len()
    &&& ts[p].word() && is_simple_type(ts[p].lit())
    &&& if sized_at(ts, p) {
            ts[p + 2].word() && ts[p + 3].lit() == Lit::RBracket && ts[p + 4].word() && ts[p + 5].semi() && ts[p + 6].quoted()
        } else {
            ts[p + 1].word() && ts[p + 2].semi() && ts[p + 3].quoted()
        }
}
/// field groups stand at p, one after the other, up to a `)`
pub open spec fn list_ok(ts: Seq<Tok>, p: int) -> bool
    decreases ts.len() - p,
{
    grp_ok(ts, p) && (ts[p + grp_width(ts, p)].lit() == Lit::RParen || list_ok(ts, p + grp_width(ts, p)))
}
/// how many
pub open spec fn count(ts: Seq<Tok>, p: int) -> int
    decreases ts.len() - p,
{
    if !grp_ok(ts, p) { 0 } else if ts[p + grp_width(ts, p)].lit() == Lit::RParen { 1 } else { 1 + count(ts, p + grp_width(ts, p)) }
}
/// where group number k (0-based) of the list at p0 starts; k == count: where the `)` stands
pub open spec fn nth_start(ts: Seq<Tok>, p0: int, k: int) -> int
    decreases k,
{
    if k <= 0 { p0 } else { nth_start(ts, p0, k - 1) + grp_width(ts, nth_start(ts, p0, k - 1)) }
}
/// the parsed field f is the group at p: its type, size, name and comment, no index, not auto
pub open spec fn field_is(f: Field, ts: Seq<Tok>, p: int) -> bool {
    &&& ft_lit(f.field_type) == ts[p].lit()
    &&& f.index_type is None && !f.auto
    &&& if sized_at(ts, p) {
            f.field_size == Some(ts[p + 2]) && f.name == ts[p + 4] && f.comment == ts[p + 6]
        } else {
            f.field_size is None && f.name == ts[p + 1] && f.comment == ts[p + 3]
        }
}
/// the parsed fields fs are the first fs.len() groups of the list at p0, in order
pub open spec fn fields_are(fs: Seq<Field>, ts: Seq<Tok>, p0: int) -> bool {
    forall|j: int| 0 <= j < fs.len() ==> field_is(#[trigger] fs[j], ts, nth_start(ts, p0, j))
}
/// a declaration stands at p: `table|simple|object NAME "comment" ( field+` and then, by list_ok, `)`
pub open spec fn decl_ok(ts: Seq<Tok>, p: int) -> bool {
    &&& 0 <= p && p + 4 < ts.len()
    &&& ts[p].word() && is_decl_type(ts[p].lit())
    &&& ts[p + 1].word() && generator_style_name(ts[p + 1].text())
    &&& ts[p + 2].quoted()
    &&& ts[p + 3].lit() == Lit::LParen
    &&& list_ok(ts, p + 4)
}
/// the lexeme behind its closing `)`
pub open spec fn decl_end(ts: Seq<Tok>, p: int) -> int { nth_start(ts, p + 4, count(ts, p + 4)) + 1 }
/// the parsed declaration d is the one at p
pub open spec fn decl_is(d: Declaration, ts: Seq<Tok>, p: int) -> bool {
    &&& dt_lit(d.declaration_type) == ts[p].lit()
    &&& d.name.name == ts[p + 1] && d.name.index_type is None && !d.name.auto
    &&& d.comment == ts[p + 2]
    &&& d.fields@.len() == count(ts, p + 4)
    &&& fields_are(d.fields@, ts, p + 4)
}
/// the whole text is one declaration
pub open spec fn one_decl(ts: Seq<Tok>) -> bool { decl_ok(ts, 0) && decl_end(ts, 0) == ts.len() }

// ---------------------------------------------------------------------------------------------
// THE GENERATOR'S LANGUAGE.  gen_stream(ts, n): ts is the lexeme sequence of the text `bed_autosql` emits for n extra
// columns (read off the generator's literals, autosql.rs `bed_autosql`; unit asql_gen pins the count, the order and the
// names of the field lines on the repository text; the types/sizes below are re-checked against the real generator and
// the real tokenizer by tokmodel_check.py):
//     table bed "Browser Extensible Data" (
//        string chrom ; "..."   uint chromStart ; "..."   uint chromEnd ; "..."                                  j = 0..2
//        string name ; ".."  uint score ; ".."  char [ 1 ] strand ; ".."  uint thickStart ; ".."                 j = 3..6
//        uint thickEnd ; ".."  uint reserved ; ".."  int blockCount ; ".."                                       j = 7..9
//        int [ blockCount ] blockSizes ; ".."  int [ blockCount ] chromStarts ; ".."  int expCount ; ".."        j = 10..12
//        int [ expCount ] expIds ; ".."  float [ expCount ] expScores ; ".."                                     j = 13..14
//        lstring field16 ; ".."  lstring field17 ; ".." ...                                                      j >= 15
//     )
// Field j (0-based) is declared iff j < 3 + n.
// ---------------------------------------------------------------------------------------------
pub open spec fn gen_sized(j: int) -> bool { j == 5 || j == 10 || j == 11 || j == 13 || j == 14 }
pub open spec fn b2i(b: bool) -> int { if b { 1 } else { 0 } }
/// where field j starts: 4 lexemes of preamble, 4 per field, 3 more for every sized field before it
pub open spec fn gen_start(j: int) -> int {
    4 + 4 * j + 3 * (b2i(j > 5) + b2i(j > 10) + b2i(j > 11) + b2i(j > 13) + b2i(j > 14))
}
pub open spec fn gen_type(j: int) -> Lit {
    if j == 0 || j == 3 { Lit::W_string }
    else if j == 5 { Lit::W_char }
    else if j == 14 { Lit::W_float }
    else if 9 <= j <= 13 { Lit::W_int }
    else if j >= 15 { Lit::W_lstring }
    else { Lit::W_uint }
}
pub open spec fn gen_group(ts: Seq<Tok>, j: int) -> bool {
    let p = gen_start(j);
    &&& ts[p].word() && ts[p].lit() == gen_type(j)
    &&& if gen_sized(j) {
            &&& ts[p + 1].lit() == Lit::LBracket && ts[p + 2].word() && ts[p + 3].lit() == Lit::RBracket
            &&& ts[p + 4].word() && generator_style_name(ts[p + 4].text()) && ts[p + 5].semi() && ts[p + 6].quoted()
        } else {
            ts[p + 1].word() && generator_style_name(ts[p + 1].text()) && ts[p + 2].semi() && ts[p + 3].quoted()
        }
}
pub open spec fn gen_stream(ts: Seq<Tok>, n: int) -> bool {
    &&& n >= 0 && ts.len() == gen_start(3 + n) + 1
    &&& ts[0].word() && ts[0].lit() == Lit::W_table
    &&& ts[1].word() && generator_style_name(ts[1].text())
    &&& ts[2].quoted()
    &&& ts[3].lit() == Lit::LParen
    &&& forall|j: int| 0 <= j < 3 + n ==> #[trigger] gen_group(ts, j)
    &&& ts[gen_start(3 + n)].lit() == Lit::RParen
}
/// the parsed field list of a generated schema: field j is the generated group j
pub open spec fn gen_fields_are(fs: Seq<Field>, ts: Seq<Tok>) -> bool {
    forall|j: int| 0 <= j < fs.len() ==> field_is(#[trigger] fs[j], ts, gen_start(j))
}

/// group j of a generated stream has the width the generator gives it
proof fn lemma_gen_width(ts: Seq<Tok>, n: int, j: int)
    requires gen_stream(ts, n), 0 <= j < 3 + n,
    ensures
        
        grp_ok(ts, gen_start(j)),
        gen_start(j) + grp_width(ts, gen_start(j)) == gen_start(j + 1),
        gen_start(j + 1) <= gen_start(3 + n),
        sized_at(ts, gen_start(j)) == gen_sized(j),
{
    assert(gen_group(ts, j));
}
/// the k-th group of the list behind the `(` of a generated stream starts where the generator puts field k
proof fn lemma_gen_starts(ts: Seq<Tok>, n: int, k: int)
    requires gen_stream(ts, n), 0 <= k <= 3 + n,
    ensures
        
        nth_start(ts, 4, k) == gen_start(k),
    decreases
        
        k,
{
    if k > 0 {
        lemma_gen_starts(ts, n, k - 1);
        lemma_gen_width(ts, n, k - 1);
    }
}
/// from field j on, a generated stream is a well-formed field list with 3 + n - j groups
proof fn lemma_gen_list(ts: Seq<Tok>, n: int, j: int)
    requires gen_stream(ts, n), 0 <= j < 3 + n,
    ensures
        
        list_ok(ts, gen_start(j)),
        count(ts, gen_start(j)) == 3 + n - j,
    decreases
        
        3 + n - j,
{
    lemma_gen_width(ts, n, j);
    if j + 1 < 3 + n {
        lemma_gen_list(ts, n, j + 1);
        assert(gen_group(ts, j + 1));
    }
}
/// C19, generator side of the theorem: a generated stream is ONE well-formed declaration with 3 + n field groups
proof fn lemma_gen(ts: Seq<Tok>, n: int)
    requires gen_stream(ts, n),
    ensures
        
        one_decl(ts),
        
        count(ts, 4) == 3 + n,
        
        forall|k: int| 0 <= k <= 3 + n ==> #[trigger] nth_start(ts, 4, k) == gen_start(k),
{
    lemma_gen_list(ts, n, 0);
    lemma_gen_starts(ts, n, 3 + n);
    assert forall|k: int| 0 <= k <= 3 + n implies #[trigger] nth_start(ts, 4, k) == gen_start(k) by {
        lemma_gen_starts(ts, n, k);
    }
}

impl DeclareName {
fn parse(parser: &mut VParser) -> (r: Result<Self, ParseError>)
        requires
            
            old(parser).wf(),
        ensures
            
            final(parser).wf(), final(parser).len() == old(parser).len(),
            final(parser).pos() >= old(parser).pos(),
            final(parser).toks() == old(parser).toks(),
            
            r is Ok ==> final(parser).pos() > old(parser).pos(),
            
            r matches Err(ParseError::InvalidDeclareName(t)) ==> !generator_style_name(t.text()),
            
            old(parser).ready() && name_ok(old(parser).toks(), old(parser).at()) ==> r is Ok,
            
            old(parser).ready() && name_ok(old(parser).toks(), old(parser).at()) ==> (r matches Ok(d) ==>
                d.name == old(parser).head() && d.index_type is None && !d.auto),
            
            old(parser).ready() && name_ok(old(parser).toks(), old(parser).at()) ==> final(parser).stepped(old(parser)),
{
            proof { char_class_facts(); }

            let declare_name = parser.eat_word();
            if !chars_first(&declare_name).unwrap_or(' ').is_alphabetic()
                || chars_any(&declare_name, |c: char| -> (b__: bool) ensures b__ == (!c.is_alphanumeric()) { !c.is_alphanumeric() })
            {
                return Err(ParseError::InvalidDeclareName(declare_name.to_string()));
            }
            let declare_name = declare_name.to_string();

            let next_word = parser.peek_word();
            let index_type = match next_word.kind() {
                Lit::W_primary => {
                    parser.eat_word();
                    Some(IndexType::Primary)
                }
                Lit::W_index => {
                    parser.eat_word();

                    let next = parser.peek_one();
                    let size = if next.eq_lit(Lit::LBracket) {
                        parser.eat_one();
                        let size = parser.eat_word().to_string();
                        let close = parser.eat_one();
                        if close.ne_lit(Lit::RBracket) {
                            return Err(ParseError::InvalidIndexSizeBrackets(close.to_string()));
                        }
                        Some(size)
                    } else {
                        None
                    };
                    Some(IndexType::Index(size))
                }
                Lit::W_unique => {
                    parser.eat_word();
                    Some(IndexType::Unique)
                }
                Lit::W_auto => None,
                _ => None,
            };

            let next_word = parser.peek_word();
            let auto = if next_word.eq_lit(Lit::W_auto) {
                parser.eat_word();
                true
            } else {
                false
            };
            Ok(DeclareName {
                name: declare_name,
                index_type,
                auto,
            })
        }
}

impl FieldType {
fn try_parse(parser: &mut VParser) -> (r: Result<Option<Self>, ParseError>)
        requires
            
            old(parser).wf(),
        ensures
            
            final(parser).wf(), final(parser).len() == old(parser).len(),
            final(parser).pos() >= old(parser).pos(),
            final(parser).toks() == old(parser).toks(),
            
            (r is Ok && r->Ok_0 is Some) ==> final(parser).pos() > old(parser).pos(),
            
            (r is Ok && r->Ok_0 is Some) ==> n_values(r->Ok_0->Some_0) <= final(parser).pos() - old(parser).pos(),
            
            r matches Err(ParseError::InvalidDeclareName(t)) ==> !generator_style_name(t.text()),
            
            old(parser).more() && old(parser).head().word() && is_simple_type(old(parser).head().lit())
                ==> r is Ok && r->Ok_0 is Some && ft_lit(r->Ok_0->Some_0) == old(parser).head().lit(),
            
            old(parser).more() && old(parser).head().word() && is_simple_type(old(parser).head().lit())
                ==> final(parser).stepped(old(parser)),
{
            let field_type= parser.peek_word().to_lowercase();
            let field_type = match field_type.kind() {
                Lit::W_int => FieldType::Int,
                Lit::W_uint => FieldType::Uint,
                Lit::W_short => FieldType::Short,
                Lit::W_ushort => FieldType::Ushort,
                Lit::W_byte => FieldType::Byte,
                Lit::W_ubyte => FieldType::Ubyte,
                Lit::W_float => FieldType::Float,
                Lit::W_double => FieldType::Double,
                Lit::W_char => FieldType::Char,
                Lit::W_string => FieldType::String,
                Lit::W_lstring => FieldType::Lstring,
                Lit::W_bigint => FieldType::Bigint,
                Lit::W_enum => {
                    parser.take();
                    let open_bracket = parser.eat_one();
                    if open_bracket.ne_lit(Lit::LParen) {
                        return Err(ParseError::InvalidFieldValuesBrackets(
                            open_bracket.to_string(),
                        ));
                    }
                    let mut values = Vec::<Tok>::new();

                    let ghost p0 = parser.pos();
                    loop 
                        invariant
                            
                            parser.wf(), parser.len() == old(parser).len(),
                            old(parser).pos() < p0 <= parser.pos(),
                            parser.toks() == old(parser).toks(),
                            !(old(parser).more() && old(parser).head().word() && is_simple_type(old(parser).head().lit())),
                            
                            values@.len() <= parser.pos() - p0,
                        decreases
                            
                            parser.len() - parser.pos(),
{
                        let value = parser.eat_word();
                        if value.eq_lit(Lit::RParen) {
                            break;
                        }
                        values.push(value.to_string());
                        let close = parser.eat_one();
                        if close.eq_lit(Lit::RParen) {
                            break;
                        }
                        if close.is_empty() {
                            return Err(ParseError::InvalidFieldValuesBrackets(close.to_string()));
                        }
                    }
                    return Ok(Some(FieldType::Enum(values)));
                }
                Lit::W_set => {
                    parser.take();
                    let open_bracket = parser.eat_one();
                    if open_bracket.ne_lit(Lit::LParen) {
                        return Err(ParseError::InvalidFieldValuesBrackets(
                            open_bracket.to_string(),
                        ));
                    }
                    let mut values = Vec::<Tok>::new();

                    let ghost p0 = parser.pos();
                    loop 
                        invariant
                            
                            parser.wf(), parser.len() == old(parser).len(),
                            old(parser).pos() < p0 <= parser.pos(),
                            parser.toks() == old(parser).toks(),
                            !(old(parser).more() && old(parser).head().word() && is_simple_type(old(parser).head().lit())),
                            
                            values@.len() <= parser.pos() - p0,
                        decreases
                            
                            parser.len() - parser.pos(),
{
                        let value = parser.eat_word();
                        if value.eq_lit(Lit::RParen) {
                            break;
                        }
                        values.push(value.to_string());
                        let close = parser.eat_one();
                        if close.eq_lit(Lit::RParen) {
                            break;
                        }
                        if close.is_empty() {
                            return Err(ParseError::InvalidFieldValuesBrackets(close.to_string()));
                        }
                    }
                    return Ok(Some(FieldType::Set(values)));
                }
                Lit::W_simple => {
                    parser.take();
                    let declare_name = DeclareName::parse(parser)?;
                    return Ok(Some(FieldType::Declaration(
                        DeclarationType::Simple,
                        declare_name,
                    )));
                }
                Lit::W_object => {
                    parser.take();
                    let declare_name = DeclareName::parse(parser)?;
                    return Ok(Some(FieldType::Declaration(
                        DeclarationType::Object,
                        declare_name,
                    )));
                }
                Lit::W_table => {
                    parser.take();
                    let declare_name = DeclareName::parse(parser)?;
                    return Ok(Some(FieldType::Declaration(
                        DeclarationType::Object,
                        declare_name,
                    )));
                }
                _ => return Ok(None),
            };
            parser.take();
            return Ok(Some(field_type));
        }
}

fn parse_field_list(parser: &mut VParser) -> (r: Result<Vec<Field>, ParseError>)
    requires
        
        old(parser).wf(),
    ensures
        
        final(parser).wf(), final(parser).len() == old(parser).len(),
        final(parser).pos() >= old(parser).pos(),
        final(parser).toks() == old(parser).toks(),
        
        r is Ok ==> r->Ok_0@.len() <= final(parser).pos() - old(parser).pos(),
        
        r matches Err(ParseError::InvalidDeclareName(t)) ==> !generator_style_name(t.text()),
        
        old(parser).ready() && list_ok(old(parser).toks(), old(parser).at()) ==> r is Ok,
        
        old(parser).ready() && list_ok(old(parser).toks(), old(parser).at()) ==> (r matches Ok(fs) ==>
            fs@.len() == count(old(parser).toks(), old(parser).at())),
        
        old(parser).ready() && list_ok(old(parser).toks(), old(parser).at()) ==> (r matches Ok(fs) ==>
            fields_are(fs@, old(parser).toks(), old(parser).at())),
        
        old(parser).ready() && list_ok(old(parser).toks(), old(parser).at()) ==> (r matches Ok(fs) ==>
            final(parser).more() && final(parser).head().lit() == Lit::RParen
            && final(parser).at() == nth_start(old(parser).toks(), old(parser).at(), fs@.len() as int)),
{
        proof { char_class_facts(); }

        let mut fields = Vec::<Field>::new();
        loop 
            invariant_except_break
                
                old(parser).ready() && list_ok(old(parser).toks(), old(parser).at()) ==> (
                    parser.ready()
                    && parser.at() == nth_start(old(parser).toks(), old(parser).at(), fields@.len() as int)
                    && fields_are(fields@, old(parser).toks(), old(parser).at())),
                
                old(parser).ready() && list_ok(old(parser).toks(), old(parser).at()) ==> (
                    list_ok(parser.toks(), parser.at())
                    && fields@.len() + count(parser.toks(), parser.at()) == count(old(parser).toks(), old(parser).at())),
            invariant
                
                parser.wf(), parser.len() == old(parser).len(),
                parser.pos() >= old(parser).pos(), char_facts(),
                parser.toks() == old(parser).toks(),
                
                fields@.len() <= parser.pos() - old(parser).pos(),
            ensures
                
                old(parser).ready() && list_ok(old(parser).toks(), old(parser).at()) ==> (
                    parser.more() && parser.head().lit() == Lit::RParen
                    && parser.at() == nth_start(old(parser).toks(), old(parser).at(), fields@.len() as int)
                    && fields@.len() == count(old(parser).toks(), old(parser).at())
                    && fields_are(fields@, old(parser).toks(), old(parser).at())),
            decreases
                
                parser.len() - parser.pos(),
{
            let field_type = match FieldType::try_parse(parser)? {
                Some(field_type) => field_type,
                None => break,
            };

            let next_word = parser.peek_one();

            let (field_size, field_name) = if next_word.eq_lit(Lit::LBracket) {
                parser.eat_one();
                let size = parser.eat_word();
                let close = parser.eat_one();
                if close.ne_lit(Lit::RBracket) {
                    return Err(ParseError::InvalidFieldSizeClose(close.to_string()));
                }
                (Some(size.to_string()), parser.eat_word())
            } else {
                let next_word = parser.eat_word();
                (None, next_word)
            };
            let field_name = field_name.to_string();

            let next_word = parser.peek_word();
            let index_type = match next_word.kind() {
                Lit::W_primary => {
                    parser.eat_word();
                    Some(IndexType::Primary)
                }
                Lit::W_index => {
                    parser.eat_word();

                    let next = parser.peek_one();
                    let size = if next.eq_lit(Lit::LBracket) {
                        parser.eat_one();
                        let size = parser.eat_word().to_string();
                        let close = parser.eat_one();
                        if close.ne_lit(Lit::RBracket) {
                            return Err(ParseError::InvalidIndexSizeBrackets(close.to_string()));
                        }
                        Some(size)
                    } else {
                        None
                    };
                    Some(IndexType::Index(size))
                }
                Lit::W_unique => {
                    parser.eat_word();
                    Some(IndexType::Unique)
                }
                Lit::W_auto => None,
                _ => None,
            };

            let next_word = parser.peek_word();
            let auto = if next_word.eq_lit(Lit::W_auto) {
                parser.eat_word();
                true
            } else {
                false
            };


            let ghost p_sep = parser.pos();
            let semicolon = parser.eat_one();
            if semicolon.ne_lit(Lit::Semi) {
                return Err(ParseError::InvalidFieldCommentSeparater(
                    semicolon.to_string(),
                ));
            }


            assert(parser.pos() > p_sep); 
            let comment = parser.eat_quoted_string().to_string();

            fields.push(Field {
                field_type,
                field_size,
                name: field_name,
                index_type,
                auto,
                comment,
            });

            if parser.peek_one().eq_lit(Lit::RParen) {
                break;
            }
        }
        return Ok(fields);
    }

fn parse_declaration(
        parser: &mut VParser,
    ) -> (r: Result<Option<Declaration>, ParseError>)
    requires
        
        old(parser).wf(),
    ensures
        
        final(parser).wf(), final(parser).len() == old(parser).len(),
        final(parser).pos() >= old(parser).pos(),
        final(parser).toks() == old(parser).toks(),
        
        (r is Ok && r->Ok_0 is Some) ==> final(parser).pos() > old(parser).pos(),
        
        (r is Ok && r->Ok_0 is Some) ==> r->Ok_0->Some_0.fields@.len() <= final(parser).pos() - old(parser).pos(),
        
        (r is Ok && r->Ok_0 is None) ==> final(parser).pos() == final(parser).len(),
        
        old(parser).ready() && decl_ok(old(parser).toks(), old(parser).at()) ==> r is Ok && r->Ok_0 is Some,
        
        old(parser).ready() && decl_ok(old(parser).toks(), old(parser).at()) ==> (r matches Ok(Some(d)) ==>
            decl_is(d, old(parser).toks(), old(parser).at())),
        
        old(parser).ready() && decl_ok(old(parser).toks(), old(parser).at()) ==>
            final(parser).ready() && final(parser).at() == decl_end(old(parser).toks(), old(parser).at()),
        
        old(parser).done() ==> r is Ok && r->Ok_0 is None && final(parser).stays(old(parser)),
{
        let declare_type = parser.eat_word();
        let declaration_type = match declare_type.kind() {
            Lit::W_simple => DeclarationType::Simple,
            Lit::W_object => DeclarationType::Object,
            Lit::W_table => DeclarationType::Table,
            Lit::Empty => return Ok(None),
            _ => return Err(ParseError::InvalidDeclareType(declare_type.to_string())),
        };

        let declare_name = DeclareName::parse(parser)?;

        let comment = parser.eat_quoted_string().to_string();

        let opening_bracket = parser.eat_one();

        if opening_bracket.ne_lit(Lit::LParen) {
            return Err(ParseError::InvalidDeclareBrackets(
                opening_bracket.to_string(),
            ));
        }

        let fields = parse_field_list(parser)?;

        let closing_bracket = parser.eat_one();

        if closing_bracket.ne_lit(Lit::RParen) {
            return Err(ParseError::InvalidDeclareBrackets(
                closing_bracket.to_string(),
            ));
        }

        Ok(Some(Declaration {
            declaration_type,
            name: declare_name,
            comment,
            fields,
        }))
    }

fn parse_declaration_list(
        parser: &mut VParser,
    ) -> (r: Result<Vec<Declaration>, ParseError>)
    requires
        
        old(parser).wf(),
    ensures
        
        final(parser).wf(), final(parser).len() == old(parser).len(),
        final(parser).pos() >= old(parser).pos(),
        final(parser).toks() == old(parser).toks(),
        
        r is Ok ==> r->Ok_0@.len() <= final(parser).pos() - old(parser).pos(),
        
        r is Ok ==> (final(parser).pos() == final(parser).len() || r->Ok_0@.len() == 4),
        
        old(parser).ready() && old(parser).at() == 0 && one_decl(old(parser).toks()) ==> r is Ok,
        
        old(parser).ready() && old(parser).at() == 0 && one_decl(old(parser).toks()) ==> (r matches Ok(v) ==>
            v@.len() == 1 && decl_is(v@[0], old(parser).toks(), 0)),
{
        let mut declarations = Vec::<Declaration>::new();

        let mut i = 0;
        loop 
            invariant_except_break
                
                declarations@.len() == i || parser.pos() == parser.len(),
                
                old(parser).ready() && old(parser).at() == 0 && one_decl(old(parser).toks()) ==> (
                    (i == 0 && declarations@.len() == 0 && parser.ready() && parser.at() == 0)
                    || (i == 1 && declarations@.len() == 1 && decl_is(declarations@[0], old(parser).toks(), 0) && parser.done())),
            invariant
                
                parser.wf(), parser.len() == old(parser).len(),
                parser.pos() >= old(parser).pos(),
                parser.toks() == old(parser).toks(),
                
                0 <= i <= 4,
                
                declarations@.len() <= parser.pos() - old(parser).pos(),
            ensures
                
                parser.pos() == parser.len() || declarations@.len() == 4,
                
                old(parser).ready() && old(parser).at() == 0 && one_decl(old(parser).toks()) ==> (
                    declarations@.len() == 1 && decl_is(declarations@[0], old(parser).toks(), 0)),
            decreases
                
                parser.len() - parser.pos(), 4 - i,
{
            if i > 3 {
                break;
            }
            i += 1;
            let dec = parse_declaration(parser)?;
            match dec {
                Some(d) => declarations.push(d),
                None => break,
            }
        }

        Ok(declarations)
    }

pub fn parse_autosql(data: &str) -> (r: Result<Vec<Declaration>, ParseError>)
    ensures
        
        r is Ok ==> r->Ok_0@.len() <= str_len(data),
        
        one_decl(lex(data)) ==> (r matches Ok(v) && v@.len() == 1 && decl_is(v@[0], lex(data), 0)),
        
        forall|n: int| #[trigger] gen_stream(lex(data), n) ==> (r matches Ok(v) && v@.len() == 1 && v@[0].fields@.len() == 3 + n),
        
        forall|n: int| #[trigger] gen_stream(lex(data), n) ==> (r matches Ok(v) && v@.len() == 1 && gen_fields_are(v@[0].fields@, lex(data))),
{
        proof {
            
            assert forall|n: int| #[trigger] gen_stream(lex(data), n) implies
                one_decl(lex(data)) && count(lex(data), 4) == 3 + n
                && (forall|k: int| 0 <= k <= 3 + n ==> #[trigger] nth_start(lex(data), 4, k) == gen_start(k)) by {
                lemma_gen(lex(data), n);
            }
        }

        let mut parser = VParser::of(data);

        parse_declaration_list(&mut parser)
    }

} // verus!
fn main() {}

