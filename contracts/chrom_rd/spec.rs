// ---- chromosome B+ tree: format vocabulary (published layout, Kent et al. 2010: "B+ tree header / node /
// ---- leaf item / non-leaf item"), written for a decoder; shares no text with the reader code ----

/// leaf item as stored: (key bytes (exactly keySize of them), chromId, chromSize)
pub type Item = (Seq<u8>, u32, u32);
/// row of the chromosome table: (name bytes, id, length)
pub type Row = (Seq<u8>, u32, u32);

/// GHOST description of the tree stored in a file: a leaf node holds items; a non-leaf node holds, per item,
/// the file offset of a child node and (ghost) the child stored there.  Non-leaf keys are not recorded: a
/// reader that enumerates all chromosomes does not use them.
pub enum CTree {
    Leaf(Seq<Item>),
    Node(Seq<(u64, CTree)>),
}
pub open spec fn node_count(t: CTree) -> int {
    match t { CTree::Leaf(items) => items.len() as int, CTree::Node(kids) => kids.len() as int }
}
pub open spec fn kid_tree(t: CTree, i: int) -> CTree
    recommends t is Node, 0 <= i < t->Node_0.len()
{
    t->Node_0[i].1
}
/// byte offset of item i behind the 4-byte node header: items are keySize + 8 bytes each (leaf: key, id u32,
/// size u32; non-leaf: key, child offset u64).  Opaque: the product is unfolded only in lemma_stride*.
#[verifier::opaque]
pub open spec fn stride(i: int, ks: int) -> int { i * (ks + 8) }

/// the bytes of `c` at `off` encode node `t` (and, for a non-leaf node, each child pointer is the offset at
/// which the corresponding child is encoded), integers in byte order `big`, keys of `ks` bytes:
///   node header, 4 bytes: isLeaf u8 (1 leaf / 0 non-leaf), reserved u8, count u16
///   leaf item i at off + 4 + i*(ks+8):     key[ks], chromId u32, chromSize u32
///   non-leaf item i at off + 4 + i*(ks+8): key[ks], childOffset u64
pub open spec fn tree_at(c: Seq<u8>, big: bool, ks: int, off: int, t: CTree) -> bool
    decreases t
{
    &&& 0 <= ks <= 0xFFFF_FFFF
    &&& 0 <= off
    &&& node_count(t) <= 0xFFFF
    &&& off + 4 + stride(node_count(t), ks) <= c.len()
    &&& d16(big, c, off + 2) == node_count(t)
    &&& match t {
        CTree::Leaf(items) => {
            &&& c[off] == 1u8
            &&& forall|i: int| 0 <= i < items.len() ==> leaf_item_at(c, big, ks, off + 4 + stride(i, ks), #[trigger] items[i])
        }
        CTree::Node(kids) => {
            &&& c[off] == 0u8
            &&& forall|i: int| 0 <= i < kids.len() ==>
                    d64(big, c, off + 4 + stride(i, ks) + ks) == (#[trigger] kids[i]).0
                    && tree_at(c, big, ks, kids[i].0 as int, kids[i].1)
        }
    }
}
/// the 32-byte tree header at `cto` lies inside the file and starts with the B+ tree magic 0x78CA8C91 (literal of
/// the format, not the extracted const) in byte order `big`.  Layout: magic u32, blockSize u32, keySize u32 (+8),
/// valSize u32 (+12), itemCount u64 (+16), reserved u64 (+24); the root node follows at cto + 32.
pub open spec fn tree_hdr_ok(c: Seq<u8>, big: bool, cto: int) -> bool {
    0 <= cto && cto + 32 <= c.len() && d32(big, c, cto) == 0x78CA_8C91
}
pub open spec fn leaf_item_at(c: Seq<u8>, big: bool, ks: int, o: int, it: Item) -> bool {
    &&& c.subrange(o, o + ks) == it.0
    &&& d32(big, c, o + ks) == it.1
    &&& d32(big, c, o + ks + 4) == it.2
}

/// all leaf items below t, as stored, in pre-order: children in stored order = file key order, every leaf
/// item exactly once
pub open spec fn leaf_items(t: CTree) -> Seq<Item>
    decreases t, 0int
{
    match t {
        CTree::Leaf(items) => items,
        CTree::Node(kids) => leaf_items_pref(kids, kids.len() as int),
    }
}
/// ... below the first n children
pub open spec fn leaf_items_pref(kids: Seq<(u64, CTree)>, n: int) -> Seq<Item>
    decreases kids, n
{
    if n <= 0 || n > kids.len() { Seq::empty() } else { leaf_items_pref(kids, n - 1) + leaf_items(kids[n - 1].1) }
}
/// what the chromosome table shows for a stored item: the key with its NUL padding removed, id, size
pub open spec fn row_of(it: Item) -> Row { (trim_nul(it.0), it.1, it.2) }
pub open spec fn rows_of(s: Seq<Item>) -> Seq<Row> { s.map_values(|it: Item| row_of(it)) }
pub open spec fn utf8_all(s: Seq<Item>) -> bool { forall|i: int| 0 <= i < s.len() ==> utf8_ok((#[trigger] s[i]).0) }
/// the chromosome table entry as a row
pub open spec fn ci_view(c: ChromInfo) -> Row { (c.name@, c.id, c.length) }
pub open spec fn infos(s: Seq<ChromInfo>) -> Seq<Row> { s.map_values(|c: ChromInfo| ci_view(c)) }

// ---- lemmas ----
pub proof fn lemma_stride(i: int, ks: int)
    ensures stride(i + 1, ks) == stride(i, ks) + ks + 8, stride(0, ks) == 0, stride(i, ks) == (ks + 8) * i,
{
    reveal(stride);
    assert((i + 1) * (ks + 8) == i * (ks + 8) + (ks + 8)) by (nonlinear_arith);
    assert(i * (ks + 8) == (ks + 8) * i) by (nonlinear_arith);
}
pub proof fn lemma_stride_mono(i: int, j: int, ks: int)
    requires 0 <= i <= j, 0 <= ks,
    ensures 0 <= stride(i, ks) <= stride(j, ks),
{
    reveal(stride);
    assert(0 <= i * (ks + 8) <= j * (ks + 8)) by (nonlinear_arith) requires 0 <= i <= j, 0 <= ks;
}
/// one unfolding of tree_at, without the quantifiers
pub proof fn lemma_tree_at_unfold(c: Seq<u8>, big: bool, ks: int, off: int, t: CTree)
    requires tree_at(c, big, ks, off, t),
    ensures
        0 <= ks <= 0xFFFF_FFFF, 0 <= off, 0 <= node_count(t) <= 0xFFFF,
        0 <= stride(node_count(t), ks), off + 4 + stride(node_count(t), ks) <= c.len(),
        d16(big, c, off + 2) == node_count(t),
        t is Leaf ==> c[off] == 1u8, t is Node ==> c[off] == 0u8,
{
    lemma_stride_mono(0, node_count(t), ks);
}
pub proof fn lemma_leaf_item(c: Seq<u8>, big: bool, ks: int, off: int, items: Seq<Item>, i: int)
    requires tree_at(c, big, ks, off, CTree::Leaf(items)), 0 <= i < items.len(),
    ensures leaf_item_at(c, big, ks, off + 4 + stride(i, ks), items[i]),
{
}
pub proof fn lemma_kid_ptr(c: Seq<u8>, big: bool, ks: int, off: int, kids: Seq<(u64, CTree)>, i: int)
    requires tree_at(c, big, ks, off, CTree::Node(kids)), 0 <= i < kids.len(),
    ensures d64(big, c, off + 4 + stride(i, ks) + ks) == kids[i].0,
{
}
/// child i of a described non-leaf node is described at its pointer, and is smaller
pub proof fn lemma_kid(c: Seq<u8>, big: bool, ks: int, off: int, t: CTree, i: int)
    requires tree_at(c, big, ks, off, t), t is Node, 0 <= i < t->Node_0.len(),
    ensures tree_at(c, big, ks, t->Node_0[i].0 as int, kid_tree(t, i)), decreases_to!(t => kid_tree(t, i)),
{
    let kids = t->Node_0;
    assert(tree_at(c, big, ks, kids[i].0 as int, kids[i].1));
}
proof fn lemma_utf8_concat(a: Seq<Item>, b: Seq<Item>)
    ensures utf8_all(a + b) <==> utf8_all(a) && utf8_all(b),
{
    if utf8_all(a + b) {
        assert forall|i: int| 0 <= i < a.len() implies utf8_ok((#[trigger] a[i]).0) by { assert((a + b)[i] == a[i]); }
        assert forall|i: int| 0 <= i < b.len() implies utf8_ok((#[trigger] b[i]).0) by { assert((a + b)[a.len() + i] == b[i]); }
    }
    if utf8_all(a) && utf8_all(b) {
        assert forall|i: int| 0 <= i < (a + b).len() implies utf8_ok((#[trigger] (a + b)[i]).0) by {
            if i < a.len() { assert((a + b)[i] == a[i]); } else { assert((a + b)[i] == b[i - a.len()]); }
        }
    }
}
/// all keys below a node are valid UTF-8  ==>  so are all keys below each child
pub proof fn lemma_utf8_kid(kids: Seq<(u64, CTree)>, n: int, i: int)
    requires 0 <= i < n <= kids.len(),
    ensures utf8_all(leaf_items_pref(kids, n)) ==> utf8_all(leaf_items(kids[i].1)) && utf8_all(leaf_items_pref(kids, i)),
    decreases n,
{
    lemma_utf8_concat(leaf_items_pref(kids, n - 1), leaf_items(kids[n - 1].1));
    if i < n - 1 { lemma_utf8_kid(kids, n - 1, i); }
}
