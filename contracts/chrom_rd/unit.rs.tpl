//@unit chrom_rd
//@serves C01 C02 C09 C10
//@backend verus
// bbiread::read_chrom_tree_block (recursive reader of the chromosome B+ tree) and the TAIL of
// bbiread::read_info (seek to the chromosome tree, 32-byte tree header, block reader, BBIFileInfo).
// C10: "multi-level chromosome trees ... Chromosome table ... match the encoded content", either byte
// order; C01/C02: "the chromosome table lists exactly the chromosomes that had data ... with the sizes
// that were supplied" (reader half: read(write(list)) == list, corollary (a)); C09: the reader used as the
// format's decoder agrees with the published layout that unit chrom_tree proves of the writer.
use vstd::prelude::*;
use vstd::std_specs::convert::FromSpec;
verus! {
global size_of usize == 8;
//@include ../_shared/bytes.rs
//@include ../_shared/bytes_lemmas.rs

/// shim for byteordered::Endianness (external crate, a plain 2-variant enum)
#[derive(Clone, Copy)]
pub enum Endianness { Big, Little }
pub open spec fn is_big(e: Endianness) -> bool { e is Big }

//@extract const bigtools/src/bbi.rs CHROM_TREE_MAGIC
//@rule R8
//@end
//@extract enum bigtools/src/bbi.rs BBIFile
//@rule R8
//@end
//@extract struct bigtools/src/bbi.rs ZoomHeader
//@rule R8
//@end
//@extract struct bigtools/src/bbi/bbiread.rs BBIHeader
//@rule R8
//@end
// R11: `name: String` -> `name: Name` (the name as its UTF-8 bytes; str reasoning is outside Verus)
//@extract struct bigtools/src/bbi/bbiread.rs ChromInfo
//@rule R8
//@sub /name: String/ => name: Name min=1
//@sub /#\[derive\(Clone\)\]\n/ => "" min=0
//@end
//@extract struct bigtools/src/bbi/bbiread.rs BBIFileInfo
//@rule R8
//@sub /#\[derive\(Clone\)\]\n/ => "" min=0
//@end
// thiserror derive: `#[error(..)]` display strings dropped, `#[from] io::Error` -> IoError; the From impl that
// `#[from]` generates is written out below (it wraps, nothing else).
//@extract enum bigtools/src/bbi/bbiread.rs BBIFileReadInfoError
//@rule R8
//@sub /[ \t]*#\[error\([^\n]*\)\]\n/ => "" min=0
//@sub /#\[from\] io::Error/ => IoError min=1
//@end
impl vstd::std_specs::convert::FromSpecImpl<IoError> for BBIFileReadInfoError {
    open spec fn obeys_from_spec() -> bool { true }
    open spec fn from_spec(e: IoError) -> BBIFileReadInfoError { BBIFileReadInfoError::IoError(e) }
}
impl From<IoError> for BBIFileReadInfoError {
    fn from(e: IoError) -> (r: BBIFileReadInfoError) { BBIFileReadInfoError::IoError(e) }
}
// `InvalidFile(String)` -> `InvalidFile(ErrText)` (a message that nothing inspects)
//@extract enum bigtools/src/bbi/bbiread.rs ChromTreeBlockReadError
//@rule R8
//@sub /[ \t]*#\[error\([^\n]*\)\]\n/ => "" min=0
//@sub /#\[from\] io::Error/ => IoError min=1
//@sub /InvalidFile\(String\)/ => InvalidFile(ErrText) min=1
//@sub /^enum ChromTreeBlockReadError/ => pub enum ChromTreeBlockReadError min=1
//@end
impl vstd::std_specs::convert::FromSpecImpl<IoError> for ChromTreeBlockReadError {
    open spec fn obeys_from_spec() -> bool { true }
    open spec fn from_spec(e: IoError) -> ChromTreeBlockReadError { ChromTreeBlockReadError::IoError(e) }
}
impl From<IoError> for ChromTreeBlockReadError {
    fn from(e: IoError) -> (r: ChromTreeBlockReadError) { ChromTreeBlockReadError::IoError(e) }
}
/// an error message (`"..".to_owned()`): content irrelevant
pub struct ErrText { _p: u8 }
#[verifier::external_body]
pub fn err_text(s: &str) -> ErrText { ErrText { _p: 0 } }

// ---- reader shim: `R: SeekableRead` / `BBIFileRead::raw_reader()` (Read + Seek over the file); same shim as
// ---- unit info, plus `seek_start` ----
#[verifier::external_body]
pub struct VRead { _p: u8 }
impl VRead {
    pub uninterp spec fn content(&self) -> Seq<u8>;
    pub uninterp spec fn pos(&self) -> int;
    /// ghost: some call on this reader has returned Err (Verus does not carry the value of a `?`-converted
    /// error, so "no I/O error happened" is stated through this flag)
    pub uninterp spec fn failed(&self) -> bool;
    /// `let mut b = BytesMut::zeroed(n); file.read_exact(&mut b)?;` : Ok only if n bytes were available;
    /// then the buffer holds exactly content[pos..pos+n].  May fail for any other reason too.
    #[verifier::external_body]
    pub fn read_cur(&mut self, n: usize) -> (r: Result<Cur, IoError>)
        requires 0 <= old(self).pos()
        ensures
            final(self).content() == old(self).content(),
            final(self).failed() == (old(self).failed() || r is Err),
            r is Ok ==> old(self).pos() + n <= old(self).content().len()
                && r->Ok_0.rem() == old(self).content().subrange(old(self).pos(), old(self).pos() + n)
                && final(self).pos() == old(self).pos() + n,
    { unimplemented!() }
    /// `file.seek(SeekFrom::Start(p))?` : Ok => the position is p (also beyond the end: the next read fails).
    /// May fail for any reason.
    #[verifier::external_body]
    pub fn seek_start(&mut self, p: u64) -> (r: Result<u64, IoError>)
        ensures
            final(self).content() == old(self).content(),
            final(self).failed() == (old(self).failed() || r is Err),
            r is Ok ==> final(self).pos() == p && r->Ok_0 == p,
    { unimplemented!() }
    /// calls a plausible edit might start using: no postcondition (the edit is judged by the contract)
    #[verifier::external_body]
    pub fn seek_current(&mut self, d: i64) -> (r: Result<u64, IoError>) { unimplemented!() }
    #[verifier::external_body]
    pub fn seek_end(&mut self, d: i64) -> (r: Result<u64, IoError>) { unimplemented!() }
    /// `Seek::stream_position` (not used today): reports the position, changes nothing
    #[verifier::external_body]
    pub fn stream_position(&mut self) -> (r: Result<u64, IoError>)
        ensures
            final(self).content() == old(self).content(), final(self).pos() == old(self).pos(),
            final(self).failed() == (old(self).failed() || r is Err),
            r is Ok ==> r->Ok_0 as int == old(self).pos(),
    { unimplemented!() }
}
// `bytes.as_ref()` of BytesMut: the unconsumed bytes (second inherent impl block: _shared/bytes.rs is not edited)
impl Cur {
    #[verifier::external_body]
    pub fn as_ref(&self) -> (r: &[u8]) ensures r@ == self.rem() { unimplemented!() }
    #[verifier::external_body]
    pub fn remaining(&self) -> (r: usize) ensures r == self.rem().len() { unimplemented!() }
}

// ---- names: String / &str as their UTF-8 bytes ----
/// strip trailing / leading 0 bytes
pub open spec fn trim_nul_end(s: Seq<u8>) -> Seq<u8>
    decreases s.len()
{
    if s.len() > 0 && s.last() == 0u8 { trim_nul_end(s.drop_last()) } else { s }
}
pub open spec fn trim_nul_start(s: Seq<u8>) -> Seq<u8>
    decreases s.len()
{
    if s.len() > 0 && s[0] == 0u8 { trim_nul_start(s.drop_first()) } else { s }
}
/// strip leading and trailing 0 bytes (`str::trim_matches('\0')` on the UTF-8 bytes: U+0000 is the single byte 0
/// and the byte 0 occurs in no other character's encoding)
pub open spec fn trim_nul(s: Seq<u8>) -> Seq<u8> { trim_nul_end(trim_nul_start(s)) }
/// "these bytes are valid UTF-8" (uninterpreted: `std::str::from_utf8` decides it)
pub uninterp spec fn utf8_ok(b: Seq<u8>) -> bool;

/// owned name (`String`), viewed as its bytes
pub struct Name { pub bytes: Vec<u8> }
impl Name {
    pub open spec fn view(&self) -> Seq<u8> { self.bytes@ }
}
/// `String::new()`
pub fn name_new() -> (r: Name) ensures r@ == Seq::<u8>::empty() { Name { bytes: Vec::new() } }
/// borrowed text (`&str`), viewed as its bytes
#[verifier::external_body]
pub struct VStr { _p: u8 }
pub struct Utf8Error { _p: u8 }
impl VStr {
    pub uninterp spec fn view(&self) -> Seq<u8>;
    /// ASSUMED: `s.trim_matches(c)` for c == NUL strips leading and trailing 0 bytes; nothing said for other c
    #[verifier::external_body]
    pub fn trim_matches(&self, c: char) -> (r: VStr) ensures c == '\0' ==> r@ == trim_nul(self@) { unimplemented!() }
    /// ASSUMED: trailing only / leading only
    #[verifier::external_body]
    pub fn trim_end_matches(&self, c: char) -> (r: VStr) ensures c == '\0' ==> r@ == trim_nul_end(self@) { unimplemented!() }
    #[verifier::external_body]
    pub fn trim_start_matches(&self, c: char) -> (r: VStr) ensures c == '\0' ==> r@ == trim_nul_start(self@) { unimplemented!() }
    /// whitespace trims: no postcondition (an edit to them is judged by the contract)
    #[verifier::external_body]
    pub fn trim(&self) -> (r: VStr) { unimplemented!() }
    #[verifier::external_body]
    pub fn trim_end(&self) -> (r: VStr) { unimplemented!() }
    #[verifier::external_body]
    pub fn trim_start(&self) -> (r: VStr) { unimplemented!() }
    /// ASSUMED: `to_owned` / `to_string` copy the text
    #[verifier::external_body]
    pub fn to_owned(&self) -> (r: Name) ensures r@ == self@ { unimplemented!() }
    #[verifier::external_body]
    pub fn to_string(&self) -> (r: Name) ensures r@ == self@ { unimplemented!() }
}
/// ASSUMED contract of `std::str::from_utf8`: Ok(the same bytes as text) iff the bytes are valid UTF-8
#[verifier::external_body]
pub fn str_from_utf8(b: &[u8]) -> (r: Result<VStr, Utf8Error>)
    ensures r is Ok <==> utf8_ok(b@), r is Ok ==> r->Ok_0@ == b@,
{ unimplemented!() }
/// ASSUMED: `from_utf8_lossy`, `from_utf8_unchecked`: no postcondition
#[verifier::external_body]
pub fn str_from_utf8_lossy(b: &[u8]) -> (r: VStr) { unimplemented!() }
/// `char::from(x: u8)`
#[verifier::external_body]
pub fn char_from_u8(x: u8) -> (r: char) ensures r as u32 == x as u32 { char::from(x) }
/// `r.map_err(|_| e)` (closure ignoring its argument): verified
pub fn map_err_to<T, E, F>(r: Result<T, E>, e: F) -> (o: Result<T, F>)
    ensures r matches Ok(v) ==> (o matches Ok(w) && w == v), r is Err ==> (o matches Err(x) && x == e),
{
    match r { Ok(v) => Ok(v), Err(_) => Err(e) }
}

//@include spec.rs
//@include fmt_copy.rs
//@include corollaries.rs

// ---- read_chrom_tree_block ----
// R11 (structural): reader type parameter -> VRead; `BytesMut::zeroed(n); f.read_exact(..)?` -> `f.read_cur(n)?`;
// `f.seek(SeekFrom::Start(x))?` -> `f.seek_start(x)?`; the three `for` loops get a named counter;
// GHOST-ONLY ADDITION: an extra last parameter `Ghost(t): Ghost<CTree>` (the tree the bytes at the reader
// position encode) and, at the recursive call, the argument `Ghost(kid_tree(t, k__ - 1))`.  Erased at run time.
//@extract fn bigtools/src/bbi/bbiread.rs read_chrom_tree_block
//@rule R16
//@rule R8
//@rule R15
//@sub /read_chrom_tree_block<R: SeekableRead>\(\s*f: &mut R,/ => read_chrom_tree_block(f: &mut VRead, min=1
//@sub /key_size: u32,\n\) ->/ => key_size: u32,\n    Ghost(t): Ghost<CTree>,\n) -> min=1
//@sub /let mut (\w+) = BytesMut::zeroed\(([^;]*)\);\s*(\w+)\.read_exact\(&mut \1\)\?;/ => let mut \1 = \3.read_cur(\2)?; min=0
//@sub /(\w+)\.seek\(SeekFrom::Start\(([^;]*)\)\)\?;/ => \1.seek_start(\2)?; min=0
//@sub /for _ in ([^{]*?)\s*\{/ => for k__ in \1 { min=0
//@sub /for child in children(\.into_iter\(\))? \{/ => let mut k__: usize = 0; while k__ < children.len() { let child = children[k__]; k__ = k__ + 1; min=0
//@sub /for child in children\.(into_)?iter\(\)\.rev\(\) \{/ => let mut k__: usize = children.len(); while k__ > 0 { k__ = k__ - 1; let child = children[k__]; min=0
//@sub /for child in children\.(into_)?iter\(\)\.take\((\w+)\) \{/ => let mut k__: usize = 0; while k__ < children.len() && k__ < \2 { let child = children[k__]; k__ = k__ + 1; min=0
//@sub /read_chrom_tree_block\(f, ([^()]*)\)/ => read_chrom_tree_block(f, \1, Ghost(kid_tree(t, k__ - 1))) min=0
//@sub /std::str::from_utf8\(/ => str_from_utf8( min=0
//@sub /(std::)?str::from_utf8_lossy\(/ => str_from_utf8_lossy( min=0
//@sub /char::from\(/ => char_from_u8( min=0
//@sub /"([^"]*)"\.to_owned\(\)/ => err_text("\1") min=0
//@sub /children\.reserve_exact\([^;]*\);/ => "" min=0
//@sub /String::new\(\)/ => name_new() min=0
//@ret r
//@sig
    requires
        [[L: pre_reader_at_a_node_of_the_ghost_tree]]
        tree_at(old(f).content(), is_big(endianness), key_size as int, old(f).pos(), t),
    ensures
        [[L: file_not_modified]]
        final(f).content() == old(f).content(),
        [[L: io_failure_is_reported]]
        final(f).failed() ==> old(f).failed() || r is Err,
        [[L: earlier_entries_kept]]
        final(chroms)@.len() >= old(chroms)@.len() && final(chroms)@.subrange(0, old(chroms)@.len() as int) == old(chroms)@,
        [[L: appends_all_leaf_items_in_file_order]]
        r is Ok ==> infos(final(chroms)@) == infos(old(chroms)@) + rows_of(leaf_items(t)),
        [[L: no_spurious_error]]
        r is Err ==> final(f).failed() || !utf8_all(leaf_items(t)),
    decreases
        [[L: termination]]
        t,
//@open
    let ghost c0 = f.content();
    let ghost p0 = f.pos();
    let ghost big = is_big(endianness);
    let ghost ks = key_size as int;
    let ghost pre = chroms@;
    proof { lemma_tree_at_unfold(c0, big, ks, p0, t); }
//@at /if isleaf / before
    let ghost n = node_count(t);
    proof {
        [[L: body/node_header_decoded]]
        assert(isleaf == c0[p0] && count as int == d16(big, c0, p0 + 2));
        lemma_stride(n, ks);
        assert((ks + 8) * n <= 0x1_0000_0007 * 0xFFFF) by (nonlinear_arith) requires 0 <= ks <= 0xFFFF_FFFF, 0 <= n <= 0xFFFF;
    }
//@at /let mut bytes = / nth=1 after
        let ghost blk = c0.subrange(p0 + 4, p0 + 4 + stride(n, ks));
        proof {
            [[L: body/leaf_flag_1_means_leaf]]
            assert(t is Leaf);
            [[L: body/leaf_block_is_count_items_of_key_size_plus_8]]
            assert(bytes.rem() == blk);
        }
        let ghost items = t->Leaf_0;
//@loop 1
            invariant
                [[L: loop_leaf/frame]]
                c0 == old(f).content(), p0 == old(f).pos(), big == is_big(endianness), ks == key_size as int, pre == old(chroms)@,
                n == node_count(t), tree_at(c0, big, ks, p0, t), 0 <= ks <= 0xFFFF_FFFF, 0 <= n <= 0xFFFF,
                f.content() == c0, f.failed() ==> old(f).failed(),
                0 <= p0, p0 + 4 + stride(n, ks) <= c0.len(), blk == c0.subrange(p0 + 4, p0 + 4 + stride(n, ks)), 0 <= stride(n, ks),
                t is Leaf, items == t->Leaf_0,
                [[L: loop_leaf/cursor_at_item_boundary]]
                blk.len() == stride(n, ks), count == n, 0 <= stride(k__ as int, ks) <= stride(n, ks),
                bytes.rem() == blk.subrange(stride(k__ as int, ks), blk.len() as int),
                [[L: loop_leaf/prefix_of_items_appended]]
                chroms@.len() == pre.len() + k__, chroms@.subrange(0, pre.len() as int) == pre,
                infos(chroms@) == infos(pre) + rows_of(items.subrange(0, k__ as int)),
//@at /for k__ in / nth=1 after
            proof {
                lemma_stride(k__ as int, ks);
                lemma_stride_mono(k__ as int + 1, n, ks);
                lemma_leaf_item(c0, big, ks, p0, items, k__ as int);
                assert(bytes.rem().subrange(0, ks) =~= c0.subrange(p0 + 4 + stride(k__ as int, ks), p0 + 4 + stride(k__ as int, ks) + ks));
            }
            let ghost chroms_before = chroms@;
//@at /chroms\.push\(ChromInfo \{/ before
            proof {
                [[L: loop_leaf/name_is_key_with_nuls_trimmed]]
                assert(key_string@ == trim_nul(items[k__ as int].0));
                [[L: loop_leaf/item_is_key_size_plus_8_bytes]]
                assert(bytes.rem() =~= blk.subrange(stride(k__ as int + 1, ks), blk.len() as int));
            }
//@loopend 1
            proof {
                let it = items[k__ as int];
                assert(items.subrange(0, k__ as int + 1) =~= items.subrange(0, k__ as int).push(it));
                assert(rows_of(items.subrange(0, k__ as int).push(it)) =~= rows_of(items.subrange(0, k__ as int)).push(row_of(it)));
                [[L: loop_leaf/id_then_size_follow_the_key]]
                assert(chroms@.last().id == it.1 && chroms@.last().length == it.2);
                [[L: loop_leaf/pushed_row_is_name_id_length]]
                assert(chroms@ == chroms_before.push(chroms@.last()) && ci_view(chroms@.last()) == row_of(it));
                assert(infos(chroms@) =~= infos(chroms_before).push(row_of(it)));
                assert(infos(chroms@) =~= infos(pre) + rows_of(items.subrange(0, k__ as int + 1)));
                assert(chroms@.subrange(0, pre.len() as int) =~= pre);
            }
//@at /^    \} else \{/ before
        proof {
            assert(items.subrange(0, n) =~= items);
        }
//@at /let mut bytes = / nth=2 after
        let ghost blk = c0.subrange(p0 + 4, p0 + 4 + stride(n, ks));
        proof {
            [[L: body/other_flag_means_non_leaf]]
            assert(t is Node);
            [[L: body/non_leaf_block_is_count_items_of_key_size_plus_8]]
            assert(bytes.rem() == blk);
        }
        let ghost kids = t->Node_0;
//@loop 2
            invariant
                [[L: loop_ptrs/frame]]
                c0 == old(f).content(), p0 == old(f).pos(), big == is_big(endianness), ks == key_size as int, pre == old(chroms)@,
                n == node_count(t), tree_at(c0, big, ks, p0, t), 0 <= ks <= 0xFFFF_FFFF, 0 <= n <= 0xFFFF,
                f.content() == c0, f.failed() ==> old(f).failed(),
                0 <= p0, p0 + 4 + stride(n, ks) <= c0.len(), blk == c0.subrange(p0 + 4, p0 + 4 + stride(n, ks)), 0 <= stride(n, ks),
                t is Node, kids == t->Node_0, chroms@ == pre,
                [[L: loop_ptrs/cursor_at_item_boundary]]
                blk.len() == stride(n, ks), count == n, 0 <= stride(k__ as int, ks) <= stride(n, ks),
                bytes.rem() == blk.subrange(stride(k__ as int, ks), blk.len() as int),
                [[L: loop_ptrs/child_offsets_in_stored_order]]
                children@.len() == k__, forall|j: int| 0 <= j < k__ ==> children@[j] == (#[trigger] kids[j]).0,
//@at /for k__ in / nth=2 after
            proof {
                lemma_stride(k__ as int, ks);
                lemma_stride_mono(k__ as int + 1, n, ks);
                lemma_kid_ptr(c0, big, ks, p0, kids, k__ as int);
            }
//@at /children\.push\(child_offset\);/ before
            proof {
                [[L: loop_ptrs/child_offset_follows_the_key]]
                assert(child_offset == kids[k__ as int].0);
                [[L: loop_ptrs/item_is_key_size_plus_8_bytes]]
                assert(bytes.rem() =~= blk.subrange(stride(k__ as int + 1, ks), blk.len() as int));
            }
//@loop 3
            invariant
                [[L: loop_kids/frame]]
                c0 == old(f).content(), p0 == old(f).pos(), big == is_big(endianness), ks == key_size as int, pre == old(chroms)@,
                n == node_count(t), tree_at(c0, big, ks, p0, t), 0 <= ks <= 0xFFFF_FFFF, 0 <= n <= 0xFFFF,
                f.content() == c0, f.failed() ==> old(f).failed(),
                t is Node, kids == t->Node_0,
                [[L: loop_kids/children_visited_in_stored_order]]
                k__ <= children@.len(), children@.len() == n, forall|j: int| 0 <= j < n ==> children@[j] == (#[trigger] kids[j]).0,
                [[L: loop_kids/file_and_failure_flag]]
                f.content() == c0, f.failed() ==> old(f).failed(),
                [[L: loop_kids/leaves_of_visited_children_appended]]
                chroms@.len() >= pre.len(), chroms@.subrange(0, pre.len() as int) == pre,
                infos(chroms@) == infos(pre) + rows_of(leaf_items_pref(kids, k__ as int)),
            decreases
                [[L: loop_kids/termination]]
                children@.len() - k__,
//@at /while k__ / after
            let ghost chroms_before = chroms@;
            proof {
                lemma_kid(c0, big, ks, p0, t, k__ as int - 1);
                lemma_utf8_kid(kids, n, k__ as int - 1);
            }
//@loopend 3
            proof {
                let a = leaf_items_pref(kids, k__ as int - 1);
                let b = leaf_items(kids[k__ as int - 1].1);
                assert(rows_of(a + b) =~= rows_of(a) + rows_of(b));
                assert(infos(pre) + rows_of(a) + rows_of(b) =~= infos(pre) + (rows_of(a) + rows_of(b)));
                assert(chroms@.subrange(0, pre.len() as int) =~= chroms@.subrange(0, chroms_before.len() as int).subrange(0, pre.len() as int));
            }
//@end

// ---- read_info, TAIL ----
// `//@presub` CUTS THE HEAD (the mirror image of unit info's cut): the text from `let mut file = file.raw_reader();`
// through `let zoom_headers = read_zoom_headers(file, &header)?;` (64-byte header, magic/byte-order detection,
// field decoding, BBIHeader construction, zoom directory: all verified in unit info) is replaced by
// `let endianness = header.endianness;` and its results become PARAMETERS: `filetype`, `header`, `zoom_headers`
// (unit info proves `header.endianness == endianness`).  KEPT verbatim: everything from the comment line
// `// TODO: could instead store this ...` / `file.seek(SeekFrom::Start(header.chromosome_tree_offset))?;` to the final
// `Ok(info)`.  GHOST-ONLY ADDITION: last parameter `Ghost(t): Ghost<CTree>`, passed on to read_chrom_tree_block.
//@extract fn bigtools/src/bbi/bbiread.rs read_info
//@rule R16
//@rule R8
//@rule R6
//@presub /let mut file = file\.raw_reader\(\);.*let zoom_headers = read_zoom_headers\(file, &header\)\?;/ => let endianness = header.endianness; min=1
//@sub /<R: BBIFileRead>\(file: &mut R\)/ => (file: &mut VRead, filetype: BBIFile, header: BBIHeader, zoom_headers: Vec<ZoomHeader>, Ghost(t): Ghost<CTree>) min=1
//@sub /let mut (\w+) = BytesMut::zeroed\(([^;]*)\);\s*(\w+)\.read_exact\(&mut \1\)\?;/ => let mut \1 = \3.read_cur(\2)?; min=0
//@sub /(\w+)\.seek\(SeekFrom::Start\(([^;]*)\)\)\?;/ => \1.seek_start(\2)?; min=0
//@sub /(read_chrom_tree_block\([^;]*?\))\s*\.map_err\(\|_\| ([\w:]+)\)/ => map_err_to(\1, \2) min=0
//@sub /read_chrom_tree_block\(&mut file, ([^()]*)\)/ => read_chrom_tree_block(file, \1, Ghost(t)) min=0
//@ret r
//@sig
    requires
        [[L: pre_val_size_is_8]]
        tree_hdr_ok(old(file).content(), is_big(header.endianness), header.chromosome_tree_offset as int)
            ==> d32(is_big(header.endianness), old(file).content(), header.chromosome_tree_offset + 12) == 8,
        [[L: pre_tree_described_by_ghost_tree]]
        tree_hdr_ok(old(file).content(), is_big(header.endianness), header.chromosome_tree_offset as int)
            ==> tree_at(old(file).content(), is_big(header.endianness),
                    d32(is_big(header.endianness), old(file).content(), header.chromosome_tree_offset + 8),
                    header.chromosome_tree_offset + 32, t),
    ensures
        [[L: file_not_modified]]
        final(file).content() == old(file).content(),
        [[L: io_failure_is_reported]]
        final(file).failed() ==> old(file).failed() || r is Err,
        [[L: ok_only_with_tree_magic_at_chromosome_tree_offset]]
        r is Ok ==> tree_hdr_ok(old(file).content(), is_big(header.endianness), header.chromosome_tree_offset as int),
        [[L: wrong_tree_magic_is_invalid_chroms]]
        !final(file).failed() && !tree_hdr_ok(old(file).content(), is_big(header.endianness), header.chromosome_tree_offset as int)
            ==> (r matches Err(e) && e is InvalidChroms),
        [[L: block_reader_failure_is_invalid_chroms]]
        r matches Err(e) ==> (!final(file).failed() ==> e is InvalidChroms),
        [[L: chromosome_table_is_all_leaf_items_in_file_order]]
        r matches Ok(info) ==> infos(info.chrom_info@) == rows_of(leaf_items(t)),
        [[L: header_parts_passed_through]]
        r matches Ok(info) ==> info.filetype == filetype && info.header == header && info.zoom_headers == zoom_headers,
        [[L: no_spurious_error]]
        r is Err ==> final(file).failed() || !utf8_all(leaf_items(t))
            || !tree_hdr_ok(old(file).content(), is_big(header.endianness), header.chromosome_tree_offset as int),
//@open
    let ghost c0 = file.content();
    let ghost cto = header.chromosome_tree_offset as int;
    let ghost big = is_big(header.endianness);
//@at /let \(key_size, val_size, item_count\) = match endianness/ before
    proof {
        [[L: body/tree_header_is_the_32_bytes_at_chromosome_tree_offset]]
        assert(cto + 32 <= c0.len() && header_data.rem() == c0.subrange(cto, cto + 32));
    }
//@at /^    \};/ nth=1 after
    proof {
        [[L: body/magic_checked_in_file_byte_order]]
        assert(tree_hdr_ok(c0, big, cto));
        [[L: body/key_size_val_size_at_published_offsets]]
        assert(key_size == d32(big, c0, cto + 8) && val_size == d32(big, c0, cto + 12) && item_count == d64(big, c0, cto + 16));
    }
    assert(val_size == 8u32); [[L: body/val_size_is_8_no_panic]]
//@at /let info = BBIFileInfo \{/ before
    proof {
        assert(infos(Seq::<ChromInfo>::empty()) =~= Seq::<Row>::empty());
        assert(Seq::<Row>::empty() + rows_of(leaf_items(t)) =~= rows_of(leaf_items(t)));
    }
//@end

} // verus!
fn main() {}
