//@unit bb_dec
//@serves C02 C04 C10
//@backend verus
// bigbedread::get_block_entries (+ its closure `read_entry`, lifted by R10): one (uncompressed)
// bigBed data block -> the entries touching [start, end], in stored order.
// C04: per-block statement (exact inclusive filter, order, nothing else; corollaries: no overlapping
// entry missed, nothing wholly outside).  C10: either byte order (symbolic `endianness`); the record
// decoder `read_entry` has a reader-side contract over ARBITRARY bytes.  C02: `bb_roundtrip` joins the
// reader's statement with the writer's format vocabulary (fmt_bb_section, copied from unit bb_enc).
use vstd::prelude::*;
verus! {
//@include ../_shared/bytes.rs
//@include ../_shared/bytes_lemmas.rs

//@extract struct bigtools/src/bbi.rs BedEntry
//@rule R8
//@sub /pub rest: String,/ => pub rest: Vec<u8>,
//@end
//@extract struct bigtools/src/bbi/bbiread.rs Block
//@rule R8
//@end

// byteordered::Endianness cannot be extracted (other crate): own 2-variant enum, same variant names
#[derive(Clone, Copy)]
pub enum Endianness { Big, Little }
pub open spec fn is_big(e: Endianness) -> bool { e is Big }

// BBIReadError (thiserror enum holding io::Error / String) -> opaque shim; only "an error value is
// returned here" is kept, the message text is dropped
#[verifier::external_body]
#[derive(Debug)]
pub struct BBIReadError { _p: u8 }
impl BBIReadError {
    #[verifier::external_body]
    pub fn invalid_file() -> (r: BBIReadError) { unimplemented!() }
}

// BytesMut accessors that `_shared/bytes.rs` does not have (unit-local shims).
/// `bytes[i]` / one step of `bytes.iter()`: requires = the real index panic
#[verifier::external_body]
pub fn cur_byte(c: &Cur, i: usize) -> (r: u8)
    requires i < c.rem().len()
    ensures r == c.rem()[i as int]
{ unimplemented!() }
/// `bytes.to_vec()`: copy of the unconsumed bytes; consumes nothing (takes &self)
#[verifier::external_body]
pub fn cur_to_vec(c: &Cur) -> (r: Vec<u8>)
    ensures r@ == c.rem()
{ unimplemented!() }

// ---------------- reader-side vocabulary ----------------
/// index of the first NUL at or after i (s.len() if there is none)
#[verifier::opaque]
pub open spec fn first_nul_from(s: Seq<u8>, i: int) -> int
    decreases s.len() - i
{
    if i < 0 || i >= s.len() { s.len() as int } else if s[i] == 0 { i } else { first_nul_from(s, i + 1) }
}
pub open spec fn first_nul(s: Seq<u8>) -> int { first_nul_from(s, 0) }
/// characterisation: q is the first NUL (or the length, if no byte is NUL)
pub open spec fn is_first_nul(s: Seq<u8>, q: int) -> bool {
    &&& 0 <= q <= s.len()
    &&& forall|j: int| 0 <= j < q ==> s[j] != 0
    &&& q < s.len() ==> s[q] == 0
}
pub proof fn lemma_first_nul_from(s: Seq<u8>, i: int, q: int)
    requires is_first_nul(s, q), 0 <= i <= q,
    ensures first_nul_from(s, i) == q,
    decreases q - i,
{
    reveal_with_fuel(first_nul_from, 2);
    if i < q { lemma_first_nul_from(s, i + 1, q); }
}
pub proof fn lemma_first_nul_unique(s: Seq<u8>, q: int)
    requires is_first_nul(s, q),
    ensures first_nul(s) == q,
{
    lemma_first_nul_from(s, 0, q);
}

/// `bytes.iter().find_position(|b| **b == b'\0')` (itertools): VERIFIED replacement over the
/// unconsumed bytes.  Returns (position, byte) like find_position; the byte is not used by the caller.
pub fn find_nul(c: &Cur) -> (r: Option<(usize, u8)>)
    ensures
        [[L: find_nul/first_nul_or_none]]
        match r {
            Some((p, b)) => p == first_nul(c.rem()) && p < c.rem().len() && b == 0,
            None => first_nul(c.rem()) == c.rem().len(),
        },
{
    let n = c.len();
    let mut i: usize = 0;
    while i < n
        invariant
            [[L: find_nul/loop_inv]]
            i <= n, n == c.rem().len(),
            forall|j: int| 0 <= j < i ==> c.rem()[j] != 0,
        decreases
            [[L: find_nul/termination]]
            n - i,
    {
        let b = cur_byte(c, i);
        if b == 0 {
            proof { lemma_first_nul_unique(c.rem(), i as int); }
            return Some((i, b));
        }
        i += 1;
    }
    proof { lemma_first_nul_unique(c.rem(), n as int); }
    None
}

// ---------------- format spec (published bigBed record layout, byte order `big`) ----------------
/// one record appended to `b`: chromId:u32 chromStart:u32 chromEnd:u32 rest:bytes NUL
pub open spec fn put_bb_rec_e(big: bool, b: Seq<u8>, chrom: u32, it: BedEntry) -> Seq<u8> {
    (b + e32(big, chrom) + e32(big, it.start) + e32(big, it.end) + it.rest@).push(0u8)
}
pub open spec fn fmt_bb_section_e(big: bool, chrom: u32, items: Seq<BedEntry>) -> Seq<u8>
    decreases items.len()
{
    if items.len() == 0 { Seq::empty() } else { put_bb_rec_e(big, fmt_bb_section_e(big, chrom, items.drop_last()), chrom, items.last()) }
}
/// the same record standing alone (what a reader sees at the front of the remaining bytes)
pub open spec fn rec_bytes(big: bool, chrom: u32, it: BedEntry) -> Seq<u8> {
    put_bb_rec_e(big, Seq::empty(), chrom, it)
}
// ---- writer's vocabulary, copied verbatim from unit bb_enc (little-endian only) ----
pub open spec fn put_bb_rec(b: Seq<u8>, chrom: u32, it: BedEntry) -> Seq<u8> {
    (b + le32(chrom) + le32(it.start) + le32(it.end) + it.rest@).push(0u8)
}
pub open spec fn fmt_bb_section(chrom: u32, items: Seq<BedEntry>) -> Seq<u8>
    decreases items.len()
{
    if items.len() == 0 { Seq::empty() } else { put_bb_rec(fmt_bb_section(chrom, items.drop_last()), chrom, items.last()) }
}

/// hypotheses on the stored entries under which a block is decodable
pub open spec fn nul_free(s: Seq<u8>) -> bool { forall|j: int| 0 <= j < s.len() ==> s[j] != 0 }
pub open spec fn decodable(items: Seq<BedEntry>) -> bool {
    forall|i: int| 0 <= i < items.len() ==> nul_free((#[trigger] items[i]).rest@) && !(items[i].start == 0 && items[i].end == 0)
}
/// equality of entries up to the Vec identity of `rest`
pub open spec fn ent_eq(a: BedEntry, b: BedEntry) -> bool { a.start == b.start && a.end == b.end && a.rest@ == b.rest@ }
pub open spec fn same_entries(a: Seq<BedEntry>, b: Seq<BedEntry>) -> bool {
    a.len() == b.len() && forall|i: int| 0 <= i < a.len() ==> ent_eq(#[trigger] a[i], b[i])
}

// ---------------- C04 per-block statement ----------------
/// the reader's (inclusive) range test: entry touches [s, e]
pub open spec fn keep(x: BedEntry, s: u32, e: u32) -> bool { x.end >= s && x.start <= e }
/// proper overlap with the half-open query [s, e)
pub open spec fn overlaps(x: BedEntry, s: u32, e: u32) -> bool { x.start < e && x.end > s }
/// wholly outside [s, e]
pub open spec fn outside(x: BedEntry, s: u32, e: u32) -> bool { x.end < s || x.start > e }
/// exactly the kept entries, each once, in stored order
pub open spec fn filt(items: Seq<BedEntry>, s: u32, e: u32) -> Seq<BedEntry>
    decreases items.len()
{
    if items.len() == 0 { Seq::empty() }
    else if keep(items.last(), s, e) { filt(items.drop_last(), s, e).push(items.last()) }
    else { filt(items.drop_last(), s, e) }
}

// ---------------- lemmas ----------------
pub proof fn lemma_put_assoc(big: bool, a: Seq<u8>, x: Seq<u8>, chrom: u32, it: BedEntry)
    ensures put_bb_rec_e(big, a + x, chrom, it) == a + put_bb_rec_e(big, x, chrom, it)
{
    assert(put_bb_rec_e(big, a + x, chrom, it) =~= a + put_bb_rec_e(big, x, chrom, it));
}
pub proof fn lemma_e32_len(big: bool, x: u32) ensures e32(big, x).len() == 4 { }
pub proof fn lemma_rec_len(big: bool, b: Seq<u8>, chrom: u32, it: BedEntry)
    ensures put_bb_rec_e(big, b, chrom, it).len() == b.len() + 13 + it.rest@.len()
{ }
/// left-associated (writer order) format == head record ++ format of the tail (reader order)
pub proof fn lemma_fmt_cons(big: bool, chrom: u32, items: Seq<BedEntry>)
    requires items.len() >= 1,
    ensures fmt_bb_section_e(big, chrom, items) == rec_bytes(big, chrom, items[0]) + fmt_bb_section_e(big, chrom, items.skip(1)),
    decreases items.len(),
{
    let dl = items.drop_last();
    if items.len() == 1 {
        assert(items.skip(1).len() == 0);
        assert(dl.len() == 0);
        assert(items.last() == items[0]);
        assert(fmt_bb_section_e(big, chrom, dl) =~= Seq::<u8>::empty());
        assert(fmt_bb_section_e(big, chrom, items.skip(1)) =~= Seq::<u8>::empty());
        assert(fmt_bb_section_e(big, chrom, items) == rec_bytes(big, chrom, items[0]));
        assert(rec_bytes(big, chrom, items[0]) + Seq::<u8>::empty() =~= rec_bytes(big, chrom, items[0]));
    } else {
        lemma_fmt_cons(big, chrom, dl);
        assert(dl[0] == items[0]);
        assert(items.skip(1).drop_last() =~= dl.skip(1));
        assert(items.skip(1).last() == items.last());
        lemma_put_assoc(big, rec_bytes(big, chrom, items[0]), fmt_bb_section_e(big, chrom, dl.skip(1)), chrom, items.last());
    }
}
pub proof fn lemma_fmt_len_zero(big: bool, chrom: u32, items: Seq<BedEntry>)
    ensures items.len() >= 1 ==> fmt_bb_section_e(big, chrom, items).len() >= 13,
            items.len() == 0 ==> fmt_bb_section_e(big, chrom, items).len() == 0,
{
    if items.len() >= 1 {
        lemma_rec_len(big, fmt_bb_section_e(big, chrom, items.drop_last()), chrom, items.last());
    }
}
/// per-record parsing lemma: what a reader finds at the front of `rec_bytes(it) ++ tail`
pub proof fn lemma_parse_one(big: bool, chrom: u32, it: BedEntry, tail: Seq<u8>)
    requires nul_free(it.rest@),
    ensures ({
        let o = rec_bytes(big, chrom, it) + tail;
        let t = o.subrange(12, o.len() as int);
        &&& o.len() == 13 + it.rest@.len() + tail.len()
        &&& d32(big, o, 0) == chrom && d32(big, o, 4) == it.start && d32(big, o, 8) == it.end
        &&& first_nul(t) == it.rest@.len()
        &&& t.subrange(0, it.rest@.len() as int) == it.rest@
        &&& t.subrange(it.rest@.len() as int + 1, t.len() as int) == tail
    }),
{
    let o = rec_bytes(big, chrom, it) + tail;
    let t = o.subrange(12, o.len() as int);
    let n = it.rest@.len() as int;
    lemma_e32_len(big, chrom); lemma_e32_len(big, it.start); lemma_e32_len(big, it.end);
    assert(o.subrange(0, 4) =~= e32(big, chrom));
    assert(o.subrange(4, 8) =~= e32(big, it.start));
    assert(o.subrange(8, 12) =~= e32(big, it.end));
    lemma_d32_embedded(big, o, 0, chrom);
    lemma_d32_embedded(big, o, 4, it.start);
    lemma_d32_embedded(big, o, 8, it.end);
    assert forall|j: int| 0 <= j < n implies #[trigger] t[j] == it.rest@[j] by { assert(t[j] == o[12 + j]); }
    assert(t[n] == o[12 + n] && o[12 + n] == 0);
    assert(is_first_nul(t, n));
    lemma_first_nul_unique(t, n);
    assert(t.subrange(0, n) =~= it.rest@);
    assert(t.subrange(n + 1, t.len() as int) =~= tail);
}
pub proof fn lemma_filt_step(items: Seq<BedEntry>, k: int, s: u32, e: u32)
    requires 0 <= k < items.len(),
    ensures filt(items.take(k + 1), s, e) ==
        (if keep(items[k], s, e) { filt(items.take(k), s, e).push(items[k]) } else { filt(items.take(k), s, e) }),
{
    assert(items.take(k + 1).drop_last() =~= items.take(k));
    assert(items.take(k + 1).last() == items[k]);
}
pub proof fn lemma_same_push(a: Seq<BedEntry>, b: Seq<BedEntry>, x: BedEntry, y: BedEntry)
    requires same_entries(a, b), ent_eq(x, y),
    ensures same_entries(a.push(x), b.push(y)),
{
    assert forall|i: int| 0 <= i < a.push(x).len() implies ent_eq(#[trigger] a.push(x)[i], b.push(y)[i]) by {
        if i < a.len() { assert(a.push(x)[i] == a[i] && b.push(y)[i] == b[i]); }
    }
}
/// C04 corollaries of "result == filt(items)": nothing wholly outside, every kept (hence every
/// overlapping) stored entry present, order preserved (filt is a subsequence: strictly increasing index map)
pub proof fn lemma_filt_props(items: Seq<BedEntry>, s: u32, e: u32) -> (idx: Seq<int>)
    ensures
        [[L: filt_props/every_result_is_a_kept_stored_entry]]
        idx.len() == filt(items, s, e).len(),
        forall|j: int| 0 <= j < idx.len() ==> 0 <= #[trigger] idx[j] < items.len() && filt(items, s, e)[j] == items[idx[j]] && keep(items[idx[j]], s, e),
        [[L: filt_props/each_once_in_stored_order]]
        forall|j: int, l: int| 0 <= j < l < idx.len() ==> idx[j] < idx[l],
        [[L: filt_props/every_kept_stored_entry_is_a_result]]
        forall|i: int| 0 <= i < items.len() && keep(#[trigger] items[i], s, e) ==> exists|j: int| 0 <= j < idx.len() && idx[j] == i,
    decreases items.len(),
{
    if items.len() == 0 {
        Seq::empty()
    } else {
        let dl = items.drop_last();
        let p = lemma_filt_props(dl, s, e);
        let n = items.len() - 1;
        if keep(items.last(), s, e) {
            let idx = p.push(n);
            assert forall|i: int| 0 <= i < items.len() && keep(#[trigger] items[i], s, e) implies exists|j: int| 0 <= j < idx.len() && idx[j] == i by {
                if i < n {
                    assert(dl[i] == items[i]);
                    let j = choose|j: int| 0 <= j < p.len() && p[j] == i;
                    assert(idx[j] == i);
                } else {
                    assert(idx[p.len() as int] == i);
                }
            }
            assert forall|j: int| 0 <= j < idx.len() implies 0 <= #[trigger] idx[j] < items.len() && filt(items, s, e)[j] == items[idx[j]] && keep(items[idx[j]], s, e) by {
                if j < p.len() { assert(idx[j] == p[j]); assert(dl[p[j]] == items[p[j]]); }
            }
            idx
        } else {
            assert forall|i: int| 0 <= i < items.len() && keep(#[trigger] items[i], s, e) implies exists|j: int| 0 <= j < p.len() && p[j] == i by {
                assert(dl[i] == items[i]);
            }
            assert forall|j: int| 0 <= j < p.len() implies 0 <= #[trigger] p[j] < items.len() && filt(items, s, e)[j] == items[p[j]] && keep(items[p[j]], s, e) by {
                assert(dl[p[j]] == items[p[j]]);
            }
            p
        }
    }
}

// ---------------- the record decoder (closure `read_entry`, lifted) ----------------
//@extract closure bigtools/src/bbi/bigbedread.rs get_block_entries read_entry
//@rule R16
//@header fn read_entry(bytes: &mut Cur, endianness: Endianness, expected_chrom: u32) -> Result<Option<BedEntry>, BBIReadError>
//@rule R6 min=1
//@sub /match bigbed\.info\.header\.endianness \{/ => match endianness {
//@sub /byteordered::Endianness::/ => Endianness:: min=2
//@sub /BBIReadError::InvalidFile\(\s*"Chrom start and end both equal 0\."\.to_owned\(\),\s*\)/ => BBIReadError::invalid_file()
//@sub /bytes\.iter\(\)\.find_position\(\|b\| \*\*b == b'\\0'\)/ => find_nul(bytes)
//@sub /\bb\.to_vec\(\)/ => cur_to_vec(&b) min=0
//@sub /\bbytes\.to_vec\(\)/ => cur_to_vec(bytes)
//@sub /String::from_utf8\(s\)\.unwrap\(\)/ => s
//@ret r
//@sig
    requires
        [[L: pre_single_chromosome_per_block]]
        old(bytes).rem().len() >= 12 && !(d32(is_big(endianness), old(bytes).rem(), 4) == 0 && d32(is_big(endianness), old(bytes).rem(), 8) == 0)
            ==> d32(is_big(endianness), old(bytes).rem(), 0) == expected_chrom,
    ensures
        [[L: fewer_than_12_bytes_is_end_of_block]]
        old(bytes).rem().len() < 12 ==> (r matches Ok(None)) && final(bytes).rem() == old(bytes).rem(),
        [[L: zero_zero_record_is_error]]
        old(bytes).rem().len() >= 12 && (d32(is_big(endianness), old(bytes).rem(), 4) == 0 && d32(is_big(endianness), old(bytes).rem(), 8) == 0) ==> r is Err,
        [[L: record_decoded]]
        old(bytes).rem().len() >= 12 && !(d32(is_big(endianness), old(bytes).rem(), 4) == 0 && d32(is_big(endianness), old(bytes).rem(), 8) == 0) ==> ({
            let o = old(bytes).rem();
            let t = o.subrange(12, o.len() as int);
            let p = first_nul(t);
            &&& r matches Ok(Some(en))
            &&& en.start == d32(is_big(endianness), o, 4)
            &&& en.end == d32(is_big(endianness), o, 8)
            &&& en.rest@ == t.subrange(0, p)
            &&& p < t.len() ==> final(bytes).rem() == t.subrange(p + 1, t.len() as int)
        }),
        [[L: some_consumes_at_least_12_bytes]]
        (r matches Ok(Some(_))) ==> final(bytes).rem().len() + 12 <= old(bytes).rem().len(),
//@at /let nul = find_nul\(bytes\);/ before
        proof {
            assert(bytes.rem() =~= old(bytes).rem().subrange(12, old(bytes).rem().len() as int));
        }
//@end

//@extract fn bigtools/src/bbi/bigbedread.rs get_block_entries
//@rule R16
//@presub /<R: BBIFileRead>\(\s*bigbed: &mut BigBedRead<R>,/ => (\n    endianness: Endianness,\n    data: Vec<u8>,
//@presub /end: u32,\n\) -> Result<std::vec::IntoIter<BedEntry>, BBIReadError>/ => end: u32,\n    Ghost(items): Ghost<Seq<BedEntry>>,\n) -> Result<Vec<BedEntry>, BBIReadError>
//@presub /[ \t]*let data = bigbed\.read\.get_block_data\(&bigbed\.info, &block\)\?;\n/ => ""
//@presub /let mut bytes = BytesMut::with_capacity\(data\.len\(\)\);/ => let mut bytes = Cur::from_vec(&data);
//@presub /[ \t]*bytes\.extend_from_slice\(&data\);\n/ => ""
//@presub /    let mut read_entry = \|\| -> Result<Option<BedEntry>, BBIReadError> \{.*?\n    \};\n/ => ""
//@sub /while let Some\(entry\) = read_entry\(\)\? \{/ => loop {\n        let entry = match read_entry(&mut bytes, endianness, expected_chrom)? { None => break, Some(entry) => entry };
//@sub /Ok\(entries\.into_iter\(\)\)/ => Ok(entries)
//@ret r
//@sig
    requires
        [[L: pre_block_is_published_layout]]
        data@ == fmt_bb_section_e(is_big(endianness), expected_chrom, items),
        [[L: pre_decodable]]
        decodable(items),
        [[L: pre_known_offset_no_overflow]]
        block.offset + block.size <= u64::MAX,
    ensures
        [[L: well_formed_block_is_read]]
        r is Ok,
        [[L: exactly_touching_entries_in_order]]
        same_entries(r.unwrap()@, filt(items, start, end)),
        [[L: no_overlapping_entry_missed]]
        forall|i: int| 0 <= i < items.len() && overlaps(#[trigger] items[i], start, end) ==> exists|j: int| 0 <= j < r.unwrap()@.len() && ent_eq(#[trigger] r.unwrap()@[j], items[i]),
        [[L: nothing_wholly_outside]]
        forall|j: int| 0 <= j < r.unwrap()@.len() ==> !outside(#[trigger] r.unwrap()@[j], start, end),
        [[L: known_offset_is_block_end]]
        *final(known_offset) == block.offset + block.size,
//@at /let mut entries: Vec<BedEntry> = Vec::new\(\);/ after
    let ghost big = is_big(endianness);
    let ghost mut k: int = 0;
    proof {
        assert(items.skip(0) =~= items);
        assert(items.take(0) =~= Seq::<BedEntry>::empty());
    }
//@loop 1
        invariant
            [[L: loop/frame]]
            big == is_big(endianness), decodable(items), 0 <= k <= items.len(),
            [[L: loop/cursor_at_record_boundary]]
            bytes.rem() == fmt_bb_section_e(big, expected_chrom, items.skip(k)),
            [[L: loop/prefix_filtered]]
            same_entries(entries@, filt(items.take(k), start, end)),
        ensures
            [[L: loop/all_records_consumed]]
            k == items.len(),
        decreases
            [[L: loop/termination]]
            bytes.rem().len(),
//@open
    proof { lemma_fmt_len_zero(is_big(endianness), expected_chrom, items); }
//@at /let entry = match read_entry/ before
        proof {
            if k < items.len() {
                lemma_fmt_cons(big, expected_chrom, items.skip(k));
                assert(items.skip(k)[0] == items[k]);
                assert(items.skip(k).skip(1) =~= items.skip(k + 1));
                lemma_parse_one(big, expected_chrom, items[k], fmt_bb_section_e(big, expected_chrom, items.skip(k + 1)));
            } else {
                assert(items.skip(k).len() == 0);
            }
        }
//@at /^\s*if entry\./ before
        let ghost e0 = entry;
        let ghost ents0 = entries@;
//@at /^\s*\}\s*$/ nth=1 after
        proof {
            lemma_filt_step(items, k, start, end);
            if keep(items[k], start, end) {
                lemma_same_push(ents0, filt(items.take(k), start, end), e0, items[k]);
            }
            k = k + 1;
        }
//@at /\*known_offset = / before
    proof {
        assert(items.take(items.len() as int) =~= items);
        let idx = lemma_filt_props(items, start, end);
        let f = filt(items, start, end);
        assert forall|i: int| 0 <= i < items.len() && overlaps(#[trigger] items[i], start, end) implies exists|j: int| 0 <= j < entries@.len() && ent_eq(#[trigger] entries@[j], items[i]) by {
            assert(keep(items[i], start, end));
            let j = choose|j: int| 0 <= j < idx.len() && idx[j] == i;
            assert(ent_eq(entries@[j], f[j]));
        }
        assert forall|j: int| 0 <= j < entries@.len() implies !outside(#[trigger] entries@[j], start, end) by {
            assert(ent_eq(entries@[j], f[j]));
            assert(keep(items[idx[j]], start, end));
        }
    }
//@end

/// C02 round trip, reader half: the bytes the WRITER's spec (unit bb_enc: `!compress ==> data@ ==
/// fmt_bb_section(chrom, items)`) describes, decoded little-endian over the whole chromosome
/// [0, chrom_len], give back exactly the items, in input order, however they overlap or nest.
pub proof fn lemma_writer_fmt_is_le(chrom: u32, items: Seq<BedEntry>)
    ensures fmt_bb_section(chrom, items) == fmt_bb_section_e(false, chrom, items)
    decreases items.len()
{
    if items.len() > 0 { lemma_writer_fmt_is_le(chrom, items.drop_last()); }
}
pub proof fn lemma_filt_all(items: Seq<BedEntry>, s: u32, e: u32)
    requires forall|i: int| 0 <= i < items.len() ==> keep(#[trigger] items[i], s, e),
    ensures filt(items, s, e) == items,
    decreases items.len(),
{
    if items.len() > 0 {
        let dl = items.drop_last();
        assert forall|i: int| 0 <= i < dl.len() implies keep(#[trigger] dl[i], s, e) by { assert(dl[i] == items[i]); }
        lemma_filt_all(dl, s, e);
        assert(dl.push(items.last()) =~= items);
    }
}
pub fn bb_roundtrip(data: Vec<u8>, block: Block, known_offset: &mut u64, chrom: u32, chrom_len: u32, Ghost(items): Ghost<Seq<BedEntry>>) -> (r: Result<Vec<BedEntry>, BBIReadError>)
    requires
        [[L: bb_roundtrip/pre]]
        data@ == fmt_bb_section(chrom, items),
        decodable(items),
        forall|i: int| 0 <= i < items.len() ==> (#[trigger] items[i]).start <= chrom_len,
        block.offset + block.size <= u64::MAX,
    ensures
        [[L: bb_roundtrip/full_span_read_returns_the_items_in_order]]
        r is Ok && same_entries(r.unwrap()@, items),
{
    proof {
        lemma_writer_fmt_is_le(chrom, items);
        lemma_filt_all(items, 0, chrom_len);
    }
    get_block_entries(Endianness::Little, data, block, known_offset, chrom, 0, chrom_len, Ghost(items))
}

} // verus!
fn main() {}
