// ---- codec inverse lemmas (include after bytes.rs when needed) ----
pub proof fn lemma_codec16(big: bool, x: u16) ensures e16(big, x).len() == 2, d16(big, e16(big, x), 0) == x {}
pub proof fn lemma_codec32(big: bool, x: u32) ensures e32(big, x).len() == 4, d32(big, e32(big, x), 0) == x {}
pub proof fn lemma_codec64(big: bool, x: u64) ensures e64(big, x).len() == 8, d64(big, e64(big, x), 0) == x {}
/// decoding at offset k inside a concatenation reads the embedded encoding
pub proof fn lemma_d32_at(big: bool, pre: Seq<u8>, x: u32, post: Seq<u8>)
    ensures d32(big, pre + e32(big, x) + post, pre.len() as int) == x
{
    let s = pre + e32(big, x) + post; let k = pre.len() as int;
    assert(s[k] == e32(big, x)[0]); assert(s[k + 1] == e32(big, x)[1]); assert(s[k + 2] == e32(big, x)[2]); assert(s[k + 3] == e32(big, x)[3]);
}

