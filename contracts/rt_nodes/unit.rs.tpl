//@unit rt_nodes
//@serves C05 C04 C10
//@backend verus
// bbiread::compare_position, overlaps, nodes_overlapping: the per-node filter of the R-tree search.
// Property (C05): "finds every block whose span intersects the query and returns the blocks in
// file order" -- per node: output == order-preserving filter of the node's items by `overlaps`;
// leaf items become blocks (offset, size) unchanged.  (C04): a data interval that lies inside a
// span and intersects the query makes `overlaps` true at that span and at every covering span.
use vstd::prelude::*;
verus! {

//@extract struct bigtools/src/bbi/bbiread.rs Block
//@rule R8
//@end
//@extract struct bigtools/src/bbi/bbiread.rs CirTreeNodeLeaf
//@rule R8
//@end
//@extract struct bigtools/src/bbi/bbiread.rs CirTreeNodeNonLeaf
//@rule R8
//@end
//@include spec.rs

//@include nodes_code.inc

// ---------------- lemmas (C04 / C05 completeness and soundness arguments) ----------------
/// pos_le / pos_lt form a total order (used by the nesting lemma and by callers)
proof fn lemma_pos_order(a: (u32, u32), b: (u32, u32), c: (u32, u32))
    ensures
        [[L: lemma/pos_le_is_a_total_order]]
        pos_le(a, a),
        pos_le(a, b) || pos_le(b, a),
        pos_le(a, b) && pos_le(b, a) ==> a == b,
        pos_le(a, b) && pos_le(b, c) ==> pos_le(a, c),
        pos_lt(a, b) <==> !pos_le(b, a),
        pos_le(a, b) <==> (pos_lt(a, b) || a == b),
{
}
/// C04 `bb_no_miss`, first step: a non-empty half-open data interval [s,e) on chromosome c that lies
/// inside a span and intersects the half-open query [qs,qe) on c makes `overlaps` true for the span.
proof fn lemma_data_in_span_overlaps(c: u32, s: u32, e: u32, qs: u32, qe: u32, c1: u32, s1: u32, c2: u32, e2: u32)
    requires
        s < e,
        pos_le((c1, s1), (c, s)),
        pos_le((c, e), (c2, e2)),
        s < qe && e > qs,
    ensures
        [[L: lemma/data_interval_in_span_and_query_overlaps]]
        overlaps_spec(c, qs, qe, c1, s1, c2, e2),
{
}
/// nesting: if span A covers span B and the query intersects B, it intersects A
/// (so a block that must be returned is reachable through every covering ancestor).
proof fn lemma_overlaps_nesting(q: u32, qs: u32, qe: u32, a1: u32, a1s: u32, a2: u32, a2e: u32, b1: u32, b1s: u32, b2: u32, b2e: u32)
    requires
        pos_le((a1, a1s), (b1, b1s)),
        pos_le((b2, b2e), (a2, a2e)),
        overlaps_spec(q, qs, qe, b1, b1s, b2, b2e),
    ensures
        [[L: lemma/overlaps_nesting]]
        overlaps_spec(q, qs, qe, a1, a1s, a2, a2e),
{
}
/// soundness reading of `overlaps`: when it is false the span lies wholly before or wholly after
/// the query (so nothing inside the span can intersect the query)
proof fn lemma_not_overlaps_disjoint(q: u32, qs: u32, qe: u32, b1: u32, b1s: u32, b2: u32, b2e: u32)
    ensures
        [[L: lemma/not_overlaps_iff_wholly_before_or_after]]
        !overlaps_spec(q, qs, qe, b1, b1s, b2, b2e) <==> (pos_lt((b2, b2e), (q, qs)) || pos_lt((q, qe), (b1, b1s))),
{
}
/// `filter_blocks` is the standard library's filter-then-map
proof fn lemma_filter_blocks_is_filter_map(items: Seq<CirTreeNodeLeaf>, q: u32, qs: u32, qe: u32, n: int)
    requires 0 <= n <= items.len(),
    ensures
        filter_blocks(items, q, qs, qe, n)
            == items.take(n).filter(|c: CirTreeNodeLeaf| leaf_hit(c, q, qs, qe)).map_values(|c: CirTreeNodeLeaf| leaf_block(c)),
    decreases n,
{
    let p = |c: CirTreeNodeLeaf| leaf_hit(c, q, qs, qe);
    let f = |c: CirTreeNodeLeaf| leaf_block(c);
    reveal(Seq::filter);
    if n > 0 {
        lemma_filter_blocks_is_filter_map(items, q, qs, qe, n - 1);
        assert(items.take(n).drop_last() =~= items.take(n - 1));
        assert(items.take(n).last() == items[n - 1]);
        let rest = items.take(n - 1).filter(p);
        if leaf_hit(items[n - 1], q, qs, qe) {
            assert(items.take(n).filter(p) == rest.push(items[n - 1]));
            assert(rest.push(items[n - 1]).map_values(f) =~= rest.map_values(f).push(leaf_block(items[n - 1])));
        } else {
            assert(items.take(n).filter(p) == rest);
        }
    } else {
        assert(items.take(0).filter(p) =~= Seq::<CirTreeNodeLeaf>::empty());
        assert(Seq::<CirTreeNodeLeaf>::empty().map_values(f) =~= Seq::<Block>::empty());
    }
}
proof fn lemma_filter_children_is_filter_map(items: Seq<CirTreeNodeNonLeaf>, q: u32, qs: u32, qe: u32, n: int)
    requires 0 <= n <= items.len(),
    ensures
        filter_children(items, q, qs, qe, n)
            == items.take(n).filter(|c: CirTreeNodeNonLeaf| nonleaf_hit(c, q, qs, qe)).map_values(|c: CirTreeNodeNonLeaf| c.node_offset),
    decreases n,
{
    let p = |c: CirTreeNodeNonLeaf| nonleaf_hit(c, q, qs, qe);
    let f = |c: CirTreeNodeNonLeaf| c.node_offset;
    reveal(Seq::filter);
    if n > 0 {
        lemma_filter_children_is_filter_map(items, q, qs, qe, n - 1);
        assert(items.take(n).drop_last() =~= items.take(n - 1));
        assert(items.take(n).last() == items[n - 1]);
        let rest = items.take(n - 1).filter(p);
        if nonleaf_hit(items[n - 1], q, qs, qe) {
            assert(items.take(n).filter(p) == rest.push(items[n - 1]));
            assert(rest.push(items[n - 1]).map_values(f) =~= rest.map_values(f).push(items[n - 1].node_offset));
        } else {
            assert(items.take(n).filter(p) == rest);
        }
    } else {
        assert(items.take(0).filter(p) =~= Seq::<CirTreeNodeNonLeaf>::empty());
        assert(Seq::<CirTreeNodeNonLeaf>::empty().map_values(f) =~= Seq::<u64>::empty());
    }
}

// the result, restated with the standard library's filter/map (what the task statement calls
// `items.filter(overlaps).map(block)`), as a corollary of the contract above
proof fn corollary_filter_map(items: Seq<CirTreeNodeLeaf>, kids: Seq<CirTreeNodeNonLeaf>, q: u32, qs: u32, qe: u32)
    ensures
        [[L: leaf_filter_is_std_filter_map]]
        filter_blocks(items, q, qs, qe, items.len() as int)
            == items.filter(|c: CirTreeNodeLeaf| leaf_hit(c, q, qs, qe)).map_values(|c: CirTreeNodeLeaf| leaf_block(c)),
        [[L: nonleaf_filter_is_std_filter_map]]
        filter_children(kids, q, qs, qe, kids.len() as int)
            == kids.filter(|c: CirTreeNodeNonLeaf| nonleaf_hit(c, q, qs, qe)).map_values(|c: CirTreeNodeNonLeaf| c.node_offset),
{
    lemma_filter_blocks_is_filter_map(items, q, qs, qe, items.len() as int);
    lemma_filter_children_is_filter_map(kids, q, qs, qe, kids.len() as int);
    assert(items.take(items.len() as int) =~= items);
    assert(kids.take(kids.len() as int) =~= kids);
}

} // verus!
fn main() {}
