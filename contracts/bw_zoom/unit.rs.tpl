//@unit bw_zoom
//@serves C07 C13 C09
//@backend verus
// bigWig zoom tiling: bigwigwrite::process_val_zoom, per-level loop body (R9 outline).
// The property (C07): records in order, disjoint, at most `size` long, one chromosome,
// bases_covered == number of data bases inside the record's span (so uncovered bases are
// never counted), every data base lies in exactly one record, termination, batches of
// 1..=items_per_slot records, nothing left pending at the end of the chromosome.
use vstd::prelude::*;
use vstd::std_specs::ops::*;
use vstd::std_specs::convert::FromSpec;
verus! {
//@include ../_shared/floats.rs

//@extract struct bigtools/src/bbi.rs Summary
//@rule R8
//@end
//@extract struct bigtools/src/bbi.rs ZoomRecord
//@rule R8
//@end
//@extract struct bigtools/src/bbi.rs Value
//@rule R8
//@end
//@extract enum bigtools/src/bbi/bbiwrite.rs InputSortType
//@rule R8
//@end
//@extract struct bigtools/src/bbi/bbiwrite.rs BBIWriteOptions
//@rule R8
//@sub /#\[derive\(Clone\)\]\n/ => ""
//@end

// R2 shim: the spawn(encode_zoom_section(..)) + channel send hand-off.  Assumed contract:
// the batch is appended, in order, to the level's record stream.  `requires` = the callee's
// own precondition (encode_zoom_section indexes items[0]); verified separately in unit zoom_enc.
#[verifier::external_body]
pub struct ZoomSink { _p: u8 }
impl ZoomSink {
    pub uninterp spec fn log(&self) -> Seq<ZoomRecord>;
    pub uninterp spec fn batches(&self) -> Seq<int>;
    #[verifier::external_body]
    fn emit_encode_zoom_section(&mut self, compress: bool, items: Vec<ZoomRecord>)
        requires
            items@.len() > 0,
        ensures
            final(self).log() == old(self).log() + items@,
            final(self).batches() == old(self).batches().push(items@.len() as int),
    { unimplemented!() }
}
fn take_vec(v: &mut Vec<ZoomRecord>) -> (r: Vec<ZoomRecord>)
    ensures r@ == old(v)@, final(v)@.len() == 0
{ let mut n = Vec::new(); std::mem::swap(v, &mut n); n }
fn max_u32(a: u32, b: u32) -> (r: u32) ensures r == if a >= b { a } else { b } { if a >= b { a } else { b } }
fn min_u32(a: u32, b: u32) -> (r: u32) ensures r == if a <= b { a } else { b } { if a <= b { a } else { b } }

//@extract struct bigtools/src/bbi/bigwigwrite.rs ZoomItem
//@rule R8
//@sub /BBIDataProcessoringInputSectionChannel/ => ZoomSink
//@end

// ---------------- specification vocabulary (written from the property) ----------------
spec fn imax(a: int, b: int) -> int { if a >= b { a } else { b } }
spec fn imin(a: int, b: int) -> int { if a <= b { a } else { b } }
/// number of bases of [vs,ve) inside [a,b)
spec fn ov(vs: int, ve: int, a: int, b: int) -> int {
    let lo = imax(vs, a); let hi = imin(ve, b); if hi > lo { hi - lo } else { 0 }
}
/// number of data bases of the value sequence h inside [a,b)
spec fn cov(h: Seq<Value>, a: int, b: int) -> int
    decreases h.len()
{
    if h.len() == 0 { 0 } else { cov(h.drop_last(), a, b) + ov(h.last().start as int, h.last().end as int, a, b) }
}
/// total number of data bases
spec fn tot(h: Seq<Value>) -> int
    decreases h.len()
{
    if h.len() == 0 { 0 } else { tot(h.drop_last()) + (h.last().end - h.last().start) }
}
spec fn sum_bc(r: Seq<ZoomRecord>) -> int
    decreases r.len()
{
    if r.len() == 0 { 0 } else { sum_bc(r.drop_last()) + r.last().summary.bases_covered as int }
}
/// accepted input so far on this chromosome: start <= end, sorted, non-overlapping
spec fn hist_ok(h: Seq<Value>) -> bool {
    &&& forall|i: int| 0 <= i < h.len() ==> (#[trigger] h[i]).start <= h[i].end
    &&& forall|i: int, j: int| 0 <= i < j < h.len() ==> (#[trigger] h[i]).end <= (#[trigger] h[j]).start
}
/// every positive-length value of h ends at or before m
spec fn ends_by(h: Seq<Value>, m: int) -> bool {
    forall|i: int| 0 <= i < h.len() ==> ((#[trigger] h[i]).start < h[i].end ==> h[i].end <= m)
}
/// closed records (already emitted ++ pending in `records`)
spec fn closed_of(z: ZoomItem) -> Seq<ZoomRecord> { z.channel.log() + z.records@ }

/// one finished record against the data: the C07 per-record clauses.
/// `cs, cf`: the part [cs, cf) of the value currently being added (cs == cf when none).
spec fn rec_ok(r: ZoomRecord, h: Seq<Value>, cs: int, cf: int, size: int, chrom: u32) -> bool {
    &&& r.start < r.end
    &&& r.end - r.start <= size
    &&& r.chrom == chrom
    &&& r.end <= cf
    &&& r.summary.bases_covered as int == cov(h, r.start as int, r.end as int) + ov(cs, cf, r.start as int, r.end as int)
}
spec fn closed_ok(c: Seq<ZoomRecord>, h: Seq<Value>, cs: int, cf: int, size: int, chrom: u32) -> bool {
    &&& forall|i: int| 0 <= i < c.len() ==> rec_ok(#[trigger] c[i], h, cs, cf, size, chrom)
    &&& forall|i: int| 0 <= i < c.len() - 1 ==> (#[trigger] c[i]).end <= c[i + 1].start
}
/// arithmetic facts about the open record (kept transparent: the code's overflow checks need them)
spec fn live_bounds(live: Option<ZoomRecord>, size: u32, cf: int, items_bound: int) -> bool {
    live.is_some() ==> {
        let l = live.unwrap();
        &&& l.start < l.end
        &&& l.end < l.start + size
        &&& l.end <= cf
        &&& l.start as int + size as int <= u32::MAX as int
        &&& l.summary.bases_covered <= l.end - l.start
        &&& l.summary.total_items <= items_bound
    }
}
/// the data-dependent part of the invariant (opaque to the loop body; handled by the lemmas below)
#[verifier::opaque]
spec fn deep(c: Seq<ZoomRecord>, live: Option<ZoomRecord>, h: Seq<Value>, cs: int, cf: int, size: int, chrom: u32) -> bool {
    &&& closed_ok(c, h, cs, cf, size, chrom)
    &&& live.is_some() ==> {
        let l = live.unwrap();
        &&& l.chrom == chrom
        &&& (l.end == cf || cf == cs)
        &&& ends_by(h, l.end as int)
        &&& (c.len() > 0 ==> c.last().end <= l.start)
        &&& l.summary.bases_covered as int == cov(h, l.start as int, l.end as int) + ov(cs, cf, l.start as int, l.end as int)
    }
    &&& sum_bc(c) + (if live.is_some() { live.unwrap().summary.bases_covered as int } else { 0 }) == tot(h) + (cf - cs)
}
/// C07 state invariant of one zoom level after the values `h` (+ the part [cs,cf) of the current one)
spec fn zoom_ok(z: ZoomItem, h: Seq<Value>, cs: int, cf: int, chrom: u32, ips: int, items_bound: int) -> bool {
    &&& z.size > 0
    &&& live_bounds(z.live_info, z.size, cf, items_bound)
    &&& deep(closed_of(z), z.live_info, h, cs, cf, z.size as int, chrom)
    &&& forall|i: int| 0 <= i < z.channel.batches().len() ==> 1 <= #[trigger] z.channel.batches()[i] <= ips
}

// ---------------- lemmas ----------------
proof fn lemma_ends_by_drop(h: Seq<Value>, m: int)
    requires ends_by(h, m), h.len() > 0,
    ensures ends_by(h.drop_last(), m),
{
    assert forall|i: int| 0 <= i < h.drop_last().len() implies ((#[trigger] h.drop_last()[i]).start < h.drop_last()[i].end ==> h.drop_last()[i].end <= m) by {
        assert(h.drop_last()[i] == h[i]);
    }
}
proof fn lemma_cov_extend(h: Seq<Value>, a: int, b: int, b2: int, m: int)
    requires ends_by(h, m), m <= b, m <= b2,
    ensures cov(h, a, b) == cov(h, a, b2),
    decreases h.len(),
{
    if h.len() > 0 {
        lemma_ends_by_drop(h, m);
        lemma_cov_extend(h.drop_last(), a, b, b2, m);
        let _ = h[h.len() - 1];
    }
}
proof fn lemma_cov_zero_after(h: Seq<Value>, a: int, b: int, m: int)
    requires ends_by(h, m), m <= a,
    ensures cov(h, a, b) == 0,
    decreases h.len(),
{
    if h.len() > 0 {
        lemma_ends_by_drop(h, m);
        lemma_cov_zero_after(h.drop_last(), a, b, m);
        let _ = h[h.len() - 1];
    }
}
proof fn lemma_sum_bc_push(c: Seq<ZoomRecord>, r: ZoomRecord)
    ensures sum_bc(c.push(r)) == sum_bc(c) + r.summary.bases_covered as int,
{
    assert(c.push(r).drop_last() =~= c);
}
proof fn lemma_hist_ends_by(h: Seq<Value>, v: Value)
    requires hist_ok(h.push(v)),
    ensures ends_by(h, v.start as int), hist_ok(h), v.start <= v.end,
{
    let hp = h.push(v);
    assert(hp[h.len() as int] == v);
    assert forall|i: int| 0 <= i < h.len() implies ((#[trigger] h[i]).start < h[i].end ==> h[i].end <= v.start) by {
        assert(hp[i] == h[i]);
    }
    assert forall|i: int| 0 <= i < h.len() implies (#[trigger] h[i]).start <= h[i].end by { assert(hp[i] == h[i]); }
    assert forall|i: int, j: int| 0 <= i < j < h.len() implies (#[trigger] h[i]).end <= (#[trigger] h[j]).start by {
        assert(hp[i] == h[i]); assert(hp[j] == h[j]);
    }
}
proof fn lemma_ends_by_push(h: Seq<Value>, v: Value, m: int)
    requires ends_by(h, m), v.start < v.end ==> v.end <= m,
    ensures ends_by(h.push(v), m),
{
    assert forall|i: int| 0 <= i < h.push(v).len() implies ((#[trigger] h.push(v)[i]).start < h.push(v)[i].end ==> h.push(v)[i].end <= m) by {
        if i < h.len() { assert(h.push(v)[i] == h[i]); }
    }
}
/// start of a value: nothing of it has been added yet
proof fn lemma_start_value(c: Seq<ZoomRecord>, live: Option<ZoomRecord>, h: Seq<Value>, pe: int, cs: int, size: int, chrom: u32)
    requires deep(c, live, h, pe, pe, size, chrom), pe <= cs,
    ensures deep(c, live, h, cs, cs, size, chrom),
{
    reveal(deep);
    assert forall|i: int| 0 <= i < c.len() implies rec_ok(#[trigger] c[i], h, cs, cs, size, chrom) by {
        assert(rec_ok(c[i], h, pe, pe, size, chrom));
    }
}
/// end of a value v: the finished part [v.start, v.end) is folded into the history
proof fn lemma_finish_value(c: Seq<ZoomRecord>, live: Option<ZoomRecord>, h: Seq<Value>, v: Value, size: int, chrom: u32)
    requires deep(c, live, h, v.start as int, v.end as int, size, chrom), v.start <= v.end, ends_by(h, v.start as int),
        live.is_some() ==> live.unwrap().end <= v.end,
    ensures deep(c, live, h.push(v), v.end as int, v.end as int, size, chrom),
{
    reveal(deep);
    assert(h.push(v).drop_last() =~= h);
    assert(h.push(v).last() == v);
    assert forall|i: int| 0 <= i < c.len() implies rec_ok(#[trigger] c[i], h.push(v), v.end as int, v.end as int, size, chrom) by {
        assert(rec_ok(c[i], h, v.start as int, v.end as int, size, chrom));
    }
    if live.is_some() {
        lemma_ends_by_push(h, v, live.unwrap().end as int);
    }
}
/// an emitted batch moves records from `records` to the stream: the closed sequence is unchanged
/// closing the open record
proof fn lemma_close_live(c: Seq<ZoomRecord>, l: ZoomRecord, h: Seq<Value>, cs: int, cf: int, size: u32, chrom: u32, ib: int)
    requires deep(c, Some(l), h, cs, cf, size as int, chrom), live_bounds(Some(l), size, cf, ib),
    ensures deep(c.push(l), None, h, cs, cf, size as int, chrom),
{
    reveal(deep);
    lemma_sum_bc_push(c, l);
    let c2 = c.push(l);
    assert forall|i: int| 0 <= i < c2.len() implies rec_ok(#[trigger] c2[i], h, cs, cf, size as int, chrom) by {
        if i < c.len() { assert(c2[i] == c[i]); }
    }
    assert forall|i: int| 0 <= i < c2.len() - 1 implies (#[trigger] c2[i]).end <= c2[i + 1].start by {
        if i < c.len() - 1 { assert(c2[i] == c[i]); assert(c2[i + 1] == c[i + 1]); }
    }
}
/// what one tiling step does to the open record, transcribed as a relation:
/// `base` = the open record or a fresh one at a0; a1 = min(base.start+size, ce);
/// if a1 > a0 the record is extended to a1 and gains a1-a0 bases; otherwise it is left alone
/// (C07: a record's statistics are those of the values INSIDE its span).
spec fn step_rel(live0: Option<ZoomRecord>, l1: ZoomRecord, a0: int, a1: int, ce: int, size: int, chrom: u32) -> bool {
    let fresh = live0.is_none();
    let bs = if fresh { a0 } else { live0.unwrap().start as int };
    let be = if fresh { a0 } else { live0.unwrap().end as int };
    let bbc = if fresh { 0 } else { live0.unwrap().summary.bases_covered as int };
    let bch = if fresh { chrom } else { live0.unwrap().chrom };
    &&& a1 == imin(bs + size, ce)
    &&& l1.start == bs
    &&& l1.chrom == bch
    &&& (a1 > a0 ==> l1.end == a1 && l1.summary.bases_covered as int == bbc + (a1 - a0))
    &&& (a1 <= a0 ==> l1.end == be && l1.summary.bases_covered as int == bbc)
}
proof fn lemma_step(c: Seq<ZoomRecord>, live0: Option<ZoomRecord>, l1: ZoomRecord, h: Seq<Value>, cs: int, a0: int, a1: int, ce: int, size: u32, chrom: u32, ib: int)
    requires
        deep(c, live0, h, cs, a0, size as int, chrom), live_bounds(live0, size, a0, ib),
        size > 0, cs <= a0 < ce, ends_by(h, cs),
        step_rel(live0, l1, a0, a1, ce, size as int, chrom),
    ensures
        ({
            let nf = imax(a1, cs);
            let bs = l1.start as int;
            &&& a0 <= nf <= ce
            &&& (a1 == bs + size ==> deep(c.push(l1), None, h, cs, nf, size as int, chrom))
            &&& (a1 != bs + size ==> deep(c, Some(l1), h, cs, nf, size as int, chrom) && nf == ce && l1.start < l1.end && l1.end < l1.start + size && l1.end <= nf)
            &&& (live0.is_none() ==> nf > a0)
            &&& l1.summary.bases_covered <= l1.end - l1.start
        }),
{
    reveal(deep);
    let nf = imax(a1, cs);
    let bs = l1.start as int;
    if live0.is_none() {
        lemma_cov_zero_after(h, a0, a0, cs);
        lemma_cov_zero_after(h, a0, a1, cs);
    } else {
        let l0 = live0.unwrap();
        if a1 > a0 {
            lemma_cov_extend(h, l0.start as int, l0.end as int, a1, l0.end as int);
        }
    }
    assert forall|i: int| 0 <= i < c.len() implies rec_ok(#[trigger] c[i], h, cs, nf, size as int, chrom) by {
        assert(rec_ok(c[i], h, cs, a0, size as int, chrom));
    }
    if a1 == bs + size {
        lemma_sum_bc_push(c, l1);
        let c2 = c.push(l1);
        assert forall|i: int| 0 <= i < c2.len() implies rec_ok(#[trigger] c2[i], h, cs, nf, size as int, chrom) by {
            if i < c.len() { assert(c2[i] == c[i]); }
        }
        assert forall|i: int| 0 <= i < c2.len() - 1 implies (#[trigger] c2[i]).end <= c2[i + 1].start by {
            if i < c.len() - 1 { assert(c2[i] == c[i]); assert(c2[i + 1] == c[i + 1]); }
            else { assert(c2[i] == c[i]); assert(rec_ok(c[i], h, cs, a0, size as int, chrom)); }
        }
    } else {
        assert(ends_by(h, l1.end as int));
    }
}

//@extract loopbody bigtools/src/bbi/bigwigwrite.rs process_val_zoom 1
//@rule R16
//@header fn process_val_zoom__level(zoom_item: &mut ZoomItem, options: &BBIWriteOptions, current_val: Value, next_val: Option<&Value>, chrom_id: u32, Ghost(hist): Ghost<Seq<Value>>, Ghost(prev_end): Ghost<int>)
//@rule R2 min=1
//@rule R1
//@rule R5 min=4
//@rule R6 min=2
//@rule R12
//@rule R12c
//@sub /zoom_item\.records\.is_empty\(\)/ => (zoom_item.records.len() == 0)
//@sig
    requires
        [[L: pre]]
        hist_ok(hist.push(current_val)),
        options.items_per_slot >= 1,
        hist.len() < 0xffff_ffff_ffff,
        current_val.end as int + old(zoom_item).size as int <= u32::MAX as int,
        prev_end <= current_val.start, ends_by(hist, prev_end),
        old(zoom_item).records@.len() < options.items_per_slot,
        zoom_ok(*old(zoom_item), hist, prev_end, prev_end, chrom_id, options.items_per_slot as int, hist.len() as int),
    ensures
        [[L: tiling_invariant]]
        zoom_ok(*final(zoom_item), hist.push(current_val), current_val.end as int, current_val.end as int, chrom_id, options.items_per_slot as int, hist.len() as int + 1),
        [[L: size_unchanged]]
        final(zoom_item).size == old(zoom_item).size,
        [[L: batch_not_full_at_exit]]
        final(zoom_item).records@.len() < options.items_per_slot,
        [[L: chrom_end_flushes_everything]]
        next_val.is_none() ==> final(zoom_item).live_info.is_none() && final(zoom_item).records@.len() == 0,
        [[L: stream_only_grows]]
        old(zoom_item).channel.log().is_prefix_of(final(zoom_item).channel.log()),
//@open
        proof {
            lemma_hist_ends_by(hist, current_val);
            lemma_start_value(closed_of(*zoom_item), zoom_item.live_info, hist, prev_end, current_val.start as int, zoom_item.size as int, chrom_id);
        }
        let ghost cs = current_val.start as int;
        let ghost ips = options.items_per_slot as int;
        let ghost log0 = zoom_item.channel.log();
//@loop 1
            invariant
                [[L: loop/add_start_in_value]]
                current_val.start <= add_start <= current_val.end,
                [[L: loop/frame]]
                cs == current_val.start as int, ips == options.items_per_slot as int, ips >= 1,
                ends_by(hist, cs), hist.len() < 0xffff_ffff_ffff,
                zoom_item.size == old(zoom_item).size,
                current_val.end as int + zoom_item.size as int <= u32::MAX as int,
                log0 == old(zoom_item).channel.log(),
                [[L: loop/batch_bound]]
                zoom_item.records@.len() <= ips,
                [[L: loop/tiling_invariant]]
                zoom_ok(*zoom_item, hist, cs, add_start as int, chrom_id, ips, hist.len() as int + (if add_start == current_val.end { 1int } else { 0int })),
                [[L: loop/stream_only_grows]]
                log0.is_prefix_of(zoom_item.channel.log()),
            ensures
                [[L: loop/exit]]
                add_start == current_val.end,
                zoom_item.records@.len() < ips,
                zoom_item.size == old(zoom_item).size,
                zoom_ok(*zoom_item, hist, cs, add_start as int, chrom_id, ips, hist.len() as int + 1),
                log0.is_prefix_of(zoom_item.channel.log()),
                next_val.is_none() ==> zoom_item.live_info.is_none() && zoom_item.records@.len() == 0,
            decreases
                [[L: loop/termination]]
                (current_val.end - add_start) as int,
                (if zoom_item.live_info.is_some() { 1int } else { 0int }),
//@at /let items = take_vec\(&mut zoom_item\.records\);/ before
                let ghost c_before = closed_of(*zoom_item);
//@at /zoom_item\.channel\.emit_encode_zoom_section/ after
                proof {
                    assert(closed_of(*zoom_item) =~= c_before);
                }
//@at /zoom_item\.records\.push\(zoom2\);/ before
                        let ghost c_before = closed_of(*zoom_item);
//@at /zoom_item\.records\.push\(zoom2\);/ after
                        proof {
                            assert(closed_of(*zoom_item) =~= c_before.push(zoom2));
                            lemma_close_live(c_before, zoom2, hist, cs, add_start as int, zoom_item.size, chrom_id, hist.len() as int + 1);
                        }
//@at /let val = f64::from\(current_val\.value\);/ before
            proof { float_ax::float_det(); }
            let ghost c_mid = closed_of(*zoom_item);
            let ghost live0 = zoom_item.live_info;
//@at /if add_end >=? add_start \{/ before
            proof {
                // C07: a record's min/max/sum are those of the values inside it: a record opened by this value starts from it
                if live0.is_none() {
                    assert(zoom2.summary.min_val == f64::from_spec(current_val.value) && zoom2.summary.max_val == f64::from_spec(current_val.value)); [[L: shape/fresh_record_starts_from_its_first_value]]
                    assert(zoom2.summary.bases_covered == 0 && zoom2.summary.total_items == 0 && zoom2.start == add_start && zoom2.end == add_start && zoom2.chrom == chrom_id); [[L: shape/fresh_record_is_empty_at_add_start]]
                }
            }
            let ghost sum0 = zoom2.summary.sum;
            let ghost ssq0 = zoom2.summary.sum_squares;
            let ghost min0 = zoom2.summary.min_val;
            let ghost max0 = zoom2.summary.max_val;
            let ghost items0 = zoom2.summary.total_items;
//@at /zoom2\.summary\.sum_squares = zoom2\.summary\.sum_squares \+/ after
                proof {
                    // float fields: shape pinned over uninterpreted float operators (C07 "sum, sum of squares, min, max")
                    let w = f64::from_spec((add_end - add_start) as u32);
                    let x = f64::from_spec(current_val.value);
                    assert(add_end > add_start); [[L: shape/record_only_absorbs_values_with_bases_inside_it]]
                    assert(zoom2.summary.sum == sum0.add_spec(w.mul_spec(x))); [[L: shape/sum_weighted_by_added_bases]]
                    assert(zoom2.summary.sum_squares == ssq0.add_spec(w.mul_spec(x).mul_spec(x))); [[L: shape/sum_squares]]
                    assert(zoom2.summary.min_val == fmin(min0, x)); [[L: shape/min]]
                    assert(zoom2.summary.max_val == fmax(max0, x)); [[L: shape/max]]
                    assert(zoom2.summary.total_items == items0 + 1); [[L: shape/items]]
                }
//@at /if add_end == next_end \{/ before
            let ghost l1 = zoom_item.live_info.unwrap();
            proof {
                assert(closed_of(*zoom_item) =~= c_mid);
                lemma_step(c_mid, live0, l1, hist, cs, add_start as int, add_end as int, current_val.end as int, zoom_item.size, chrom_id, hist.len() as int); [[L: loop/step_matches_tiling_relation]]
            }
//@at /zoom_item\.records\.push\(zoom_item\.live_info\.take\(\)\.unwrap\(\)\);/ after
                proof {
                    assert(closed_of(*zoom_item) =~= c_mid.push(l1));
                }
//@close
        proof {
            lemma_finish_value(closed_of(*zoom_item), zoom_item.live_info, hist, current_val, zoom_item.size as int, chrom_id);
        }
//@end

} // verus!
fn main() {}
