//@unit hdr
//@serves C09 C06
//@backend verus
// bbiwrite::write_blank_headers + write_info: the fixed 64-byte BBI header, the zoom directory,
// the total-summary block, the data count and the trailing magic, written by seeking around in
// the output file.  C09: the bytes an independent decoder finds at the published offsets are the
// published encodings of the values passed in, and nothing else in the file changes.  C06: the
// summary block / item count a reader reports are the `summary` / `data_count` handed to write_info.
use vstd::prelude::*;
use vstd::std_specs::ops::*;
use vstd::std_specs::convert::FromSpec;
verus! {
//@include ../_shared/floats.rs
//@include ../_shared/bytes.rs

//@extract struct bigtools/src/bbi.rs Summary
//@rule R8
//@end
//@extract struct bigtools/src/bbi.rs ZoomHeader
//@rule R8
//@end
//@extract const bigtools/src/bbi/bbiwrite.rs MAX_ZOOM_LEVELS
//@rule R8
//@end

// ---- format spec (from the published BBI layout, Kent et al. 2010, Supplementary tables; ----
// ---- shares no code with the reader; left-associated in file order)                      ----
/// common header, 64 bytes: magic u32, version u16 (= 4), zoomLevels u16, chromosomeTreeOffset u64,
/// fullDataOffset u64, fullIndexOffset u64, fieldCount u16, definedFieldCount u16, autoSqlOffset u64,
/// totalSummaryOffset u64, uncompressBufSize u32, reserved u64 (= 0)
pub open spec fn fmt_header(magic: u32, zoom_levels: u16, chrom_tree_off: u64, full_data_off: u64, full_index_off: u64,
    field_count: u16, defined_field_count: u16, auto_sql_off: u64, total_summary_off: u64, uncompress_buf_size: u32) -> Seq<u8>
{
    le32(magic) + le16(4u16) + le16(zoom_levels) + le64(chrom_tree_off) + le64(full_data_off) + le64(full_index_off)
    + le16(field_count) + le16(defined_field_count) + le64(auto_sql_off) + le64(total_summary_off)
    + le32(uncompress_buf_size) + le64(0u64)
}
/// one zoom-directory entry, 24 bytes: reductionLevel u32, reserved u32 (= 0), dataOffset u64, indexOffset u64
pub open spec fn put_zoom_entry(b: Seq<u8>, z: ZoomHeader) -> Seq<u8> {
    b + le32(z.reduction_level) + le32(0u32) + le64(z.data_offset) + le64(z.index_offset)
}
/// `b` followed by the directory entries, in order
pub open spec fn zoom_dir_from(b: Seq<u8>, e: Seq<ZoomHeader>) -> Seq<u8>
    decreases e.len()
{
    if e.len() == 0 { b } else { put_zoom_entry(zoom_dir_from(b, e.drop_last()), e.last()) }
}
pub open spec fn fmt_zoom_dir(e: Seq<ZoomHeader>) -> Seq<u8> { zoom_dir_from(Seq::empty(), e) }
/// total summary, 40 bytes: basesCovered u64, minVal f64, maxVal f64, sumData f64, sumSquares f64
pub open spec fn fmt_summary(s: Summary) -> Seq<u8> {
    le64(s.bases_covered) + le64(f64_bits(s.min_val)) + le64(f64_bits(s.max_val)) + le64(f64_bits(s.sum)) + le64(f64_bits(s.sum_squares))
}
pub open spec fn zeros(n: int) -> Seq<u8> { Seq::new(n as nat, |i: int| 0u8) }

/// the file image write_info leaves: header + directory at 0, summary at tso, data count at fdo,
/// magic at the (old) end
pub open spec fn info_image(d0: Seq<u8>, hz: Seq<u8>, tso: int, s: Seq<u8>, fdo: int, c: Seq<u8>, m: Seq<u8>) -> Seq<u8> {
    let d3 = splice(splice(splice(d0, 0, hz), tso, s), fdo, c);
    splice(d3, d3.len() as int, m)
}

// ---- lemmas ----
/// `img` is `splice` under another name, opaque inside write_info: the proof there is pure rewriting
/// (splice(d, at, x) -> img(d, at, x); splice(img(d, at, x), at + |x|, y) -> img(d, at, x + y)), so a wrong
/// write order fails by syntactic mismatch instead of sending Z3 into sequence arithmetic.
#[verifier::opaque]
pub open spec fn img(d: Seq<u8>, at: int, x: Seq<u8>) -> Seq<u8> { splice(d, at, x) }
pub broadcast proof fn lemma_img_base(d: Seq<u8>, at: int, x: Seq<u8>)
    ensures #[trigger] splice(d, at, x) == img(d, at, x),
{ reveal(img); }
/// two consecutive sequential writes are one write of the concatenation
pub broadcast proof fn lemma_img_append(d: Seq<u8>, at: int, x: Seq<u8>, p: int, y: Seq<u8>)
    requires 0 <= at <= d.len(), p == at + x.len(),
    ensures #[trigger] splice(img(d, at, x), p, y) == img(d, at, x + y),
{
    reveal(img);
    assert(splice(splice(d, at, x), p, y) =~= splice(d, at, x + y));
}
pub broadcast proof fn lemma_img_len(d: Seq<u8>, at: int, x: Seq<u8>)
    requires 0 <= at <= d.len(),
    ensures (#[trigger] img(d, at, x)).len() == (if at + x.len() >= d.len() { at + x.len() } else { d.len() as int }),
{ reveal(img); }
pub proof fn lemma_img_is_image(d0: Seq<u8>, hz: Seq<u8>, tso: int, s: Seq<u8>, fdo: int, c: Seq<u8>, m: Seq<u8>)
    ensures ({ let d3 = img(img(img(d0, 0, hz), tso, s), fdo, c); img(d3, d3.len() as int, m) == info_image(d0, hz, tso, s, fdo, c, m) }),
{ reveal(img); }
pub broadcast group img_rules { lemma_img_base, lemma_img_append, lemma_img_len }
pub proof fn lemma_dir_len(b: Seq<u8>, e: Seq<ZoomHeader>)
    ensures zoom_dir_from(b, e).len() == b.len() + 24 * e.len(),
    decreases e.len()
{
    if e.len() > 0 { lemma_dir_len(b, e.drop_last()); }
}
pub proof fn lemma_dir_from(b: Seq<u8>, e: Seq<ZoomHeader>)
    ensures zoom_dir_from(b, e) == b + fmt_zoom_dir(e),
    decreases e.len()
{
    if e.len() > 0 {
        lemma_dir_from(b, e.drop_last());
        let z = e.last();
        let t = fmt_zoom_dir(e.drop_last());
        assert(put_zoom_entry(b + t, z) =~= b + put_zoom_entry(t, z));
    } else {
        assert(b =~= b + Seq::<u8>::empty());
    }
}
pub proof fn lemma_header_len(magic: u32, zoom_levels: u16, a: u64, b: u64, c: u64, fc: u16, dfc: u16, d: u64, e: u64, u: u32)
    ensures fmt_header(magic, zoom_levels, a, b, c, fc, dfc, d, e, u).len() == 64
{}
/// what an independent decoder sees in the final image: each region holds its encoding, nothing else moved
pub proof fn lemma_info_image(d0: Seq<u8>, h: Seq<u8>, z: Seq<u8>, tso: int, s: Seq<u8>, fdo: int, c: Seq<u8>, m: Seq<u8>)
    requires
        h.len() + z.len() <= tso, h.len() + z.len() <= fdo,
        tso + s.len() <= d0.len(), fdo + c.len() <= d0.len(),
        tso + s.len() <= fdo || fdo + c.len() <= tso,
    ensures ({
        let f = info_image(d0, h + z, tso, s, fdo, c, m);
        &&& f.len() == d0.len() + m.len()
        &&& f.subrange(0, h.len() as int) == h
        &&& f.subrange(h.len() as int, (h.len() + z.len()) as int) == z
        &&& f.subrange(tso, tso + s.len()) == s
        &&& f.subrange(fdo, fdo + c.len()) == c
        &&& f.subrange(d0.len() as int, (d0.len() + m.len()) as int) == m
        &&& forall|i: int| 0 <= i < d0.len() && !(i < h.len() + z.len()) && !(tso <= i < tso + s.len()) && !(fdo <= i < fdo + c.len())
                ==> #[trigger] f[i] == d0[i]
    }),
{
    let f = info_image(d0, h + z, tso, s, fdo, c, m);
    assert(f.subrange(0, h.len() as int) =~= h);
    assert(f.subrange(h.len() as int, (h.len() + z.len()) as int) =~= z);
    assert(f.subrange(tso, tso + s.len()) =~= s);
    assert(f.subrange(fdo, fdo + c.len()) =~= c);
    assert(f.subrange(d0.len() as int, (d0.len() + m.len()) as int) =~= m);
}

//@extract fn bigtools/src/bbi/bbiwrite.rs write_blank_headers
//@rule R16
//@rule R3 min=3
//@rule R8
//@sub /<W: Write \+ Seek \+ Send \+ 'static>\(\s*file: &mut BufWriter<W>(?=\s*[,)])/ => (file: &mut FSink min=1
//@sub /io::Result<\(\)>/ => Result<(), IoError> min=1
//@sub /\.put_bytes\(/ => .put( min=2
//@ret r
//@sig
    requires
        [[L: pre_sink_wf]]
        old(file).wf(),
    ensures
        [[L: image_is_old_with_304_zero_bytes_at_0]]
        r is Ok ==> final(file).data() == splice(old(file).data(), 0, zeros(64) + zeros(240)),
        [[L: first_304_bytes_zero]]
        r is Ok ==> final(file).data().len() >= 304 && forall|i: int| 0 <= i < 304 ==> #[trigger] final(file).data()[i] == 0u8,
        [[L: position_304]]
        r is Ok ==> final(file).pos() == 304,
        [[L: rest_unchanged]]
        r is Ok ==> (final(file).data().len() == (if old(file).data().len() >= 304 { old(file).data().len() } else { 304 })
            && forall|i: int| 304 <= i < old(file).data().len() ==> #[trigger] final(file).data()[i] == old(file).data()[i]),
        final(file).wf(),
//@open
    let ghost d0 = file.data();
//@at /Ok\(\(\)\)/ before
    proof {
        [[L: two_zero_runs_of_64_and_240_bytes]]
        assert(file.data() =~= splice(d0, 0, zeros(64) + zeros(240)));
    }
//@end

//@extract fn bigtools/src/bbi/bbiwrite.rs write_info
//@rule R16
//@rule R3 min=24
//@rule R6 min=1
//@rule R7 min=1
//@rule R8
//@sub /<W: Write \+ Seek \+ Send \+ 'static>\(\s*file: &mut BufWriter<W>(?=\s*[,)])/ => (file: &mut FSink min=1
//@sub /Result<\(\), ProcessDataError>/ => Result<(), IoError> min=1
//@sub /assert\(file\.seek_cur\(\(0\)\)\? == 64\);/ => let pos__ = file.tell()?; assert(pos__ == 64); min=1
//@sub /\.seek_end\(\(0\)\)/ => .seek_end0() min=0
//@ret r
//@sig
    requires
        [[L: pre_sink_wf]]
        old(file).wf(),
        [[L: pre_headers_reserved]]
        old(file).data().len() >= 304,
        [[L: pre_zoom_count_matches_and_fits_reserved_area]]
        num_zooms == zoom_entries@.len(), zoom_entries@.len() <= 10,
        [[L: pre_summary_and_count_slots_exist_after_headers_and_disjoint]]
        304 <= total_summary_offset, total_summary_offset + 40 <= old(file).data().len(),
        304 <= full_data_offset, full_data_offset + 8 <= old(file).data().len(),
        total_summary_offset + 40 <= full_data_offset || full_data_offset + 8 <= total_summary_offset,
        [[L: pre_uncompress_buf_size_fits_u32]]
        uncompress_buf_size <= u32::MAX,
    ensures
        [[L: image_is_exact]]
        r is Ok ==> final(file).data() == info_image(old(file).data(),
            fmt_header(magic, num_zooms, chrom_index_start, full_data_offset, index_start, field_count, defined_field_count,
                auto_sql_offset, total_summary_offset, uncompress_buf_size as u32) + fmt_zoom_dir(zoom_entries@),
            total_summary_offset as int, fmt_summary(summary), full_data_offset as int, le64(data_count), le32(magic)),
        [[L: header_is_published_layout]]
        r is Ok ==> final(file).data().subrange(0, 64) == fmt_header(magic, num_zooms, chrom_index_start, full_data_offset, index_start,
            field_count, defined_field_count, auto_sql_offset, total_summary_offset, uncompress_buf_size as u32),
        [[L: zoom_directory_follows_header]]
        r is Ok ==> final(file).data().subrange(64, 64 + 24 * (zoom_entries@.len() as int)) == fmt_zoom_dir(zoom_entries@),
        [[L: summary_at_total_summary_offset]]
        r is Ok ==> final(file).data().subrange(total_summary_offset as int, total_summary_offset + 40) == fmt_summary(summary),
        [[L: data_count_at_full_data_offset]]
        r is Ok ==> final(file).data().subrange(full_data_offset as int, full_data_offset + 8) == le64(data_count),
        [[L: trailing_magic_appended]]
        r is Ok ==> final(file).data().len() == old(file).data().len() + 4
            && final(file).data().subrange(old(file).data().len() as int, old(file).data().len() as int + 4) == le32(magic),
        [[L: nothing_else_changes]]
        r is Ok ==> forall|i: int| 0 <= i < old(file).data().len() && !(i < 64 + 24 * zoom_entries@.len())
            && !(total_summary_offset <= i < total_summary_offset + 40) && !(full_data_offset <= i < full_data_offset + 8)
            ==> #[trigger] final(file).data()[i] == old(file).data()[i],
        [[L: ends_at_end_of_file]]
        r is Ok ==> final(file).pos() == final(file).data().len(),
        final(file).wf(),
//@open
    let ghost d0 = file.data();
    let ghost hdr = fmt_header(magic, num_zooms, chrom_index_start, full_data_offset, index_start, field_count, defined_field_count,
        auto_sql_offset, total_summary_offset, uncompress_buf_size as u32);
    proof {
        broadcast use img_rules;
        lemma_header_len(magic, num_zooms, chrom_index_start, full_data_offset, index_start, field_count, defined_field_count,
            auto_sql_offset, total_summary_offset, uncompress_buf_size as u32);
    }
//@at /let pos__ = file\.tell\(\)\?;/ before
    proof {
        [[L: header_written_in_published_order]]
        assert(file.data() == img(d0, 0, hdr));
    }
//@at /let pos__ = file\.tell\(\)\?;/ after
    proof {
        assert(file.data() == img(d0, 0, zoom_dir_from(hdr, zoom_entries@.subrange(0, 0))));
    }
//@loop 1
        invariant
            [[L: loop/frame]]
            file.wf(), d0 == old(file).data(), d0.len() >= 304, zoom_entries@.len() <= 10, hdr.len() == 64,
            [[L: loop/position]]
            file.pos() == 64 + 24 * i__1,
            [[L: loop/directory_prefix_written]]
            file.data() == img(d0, 0, zoom_dir_from(hdr, zoom_entries@.subrange(0, i__1 as int))),
//@at /let zoom_entry = &zoom_entries\[i__1\];/ after
        proof {
            broadcast use img_rules;
                assert(zoom_entries@.subrange(0, i__1 + 1).drop_last() =~= zoom_entries@.subrange(0, i__1 as int));
            lemma_dir_len(hdr, zoom_entries@.subrange(0, i__1 as int));
        }
        let ghost prev = zoom_dir_from(hdr, zoom_entries@.subrange(0, i__1 as int));
//@at /file\.put_u64\(summary\.bases_covered\)/ before
    let ghost hz = zoom_dir_from(hdr, zoom_entries@);
    proof {
        assert(zoom_entries@.subrange(0, zoom_entries@.len() as int) =~= zoom_entries@);
        lemma_dir_len(hdr, zoom_entries@);
        assert(file.data() == img(d0, 0, hz));
    }
//@at /file\.put_u64\(data_count\)/ before optional
    proof {
        [[L: summary_written_in_published_order]]
        assert(file.data() == img(img(d0, 0, hz), total_summary_offset as int, fmt_summary(summary)));
    }
//@at /Ok\(\(\)\)/ before
    proof {
        lemma_dir_from(hdr, zoom_entries@);
        [[L: image_assembled_from_the_four_writes]]
        let ghost d3 = img(img(img(d0, 0, hz), total_summary_offset as int, fmt_summary(summary)), full_data_offset as int, le64(data_count));
        assert(file.data() == img(d3, d3.len() as int, le32(magic)));
        lemma_img_is_image(d0, hz, total_summary_offset as int, fmt_summary(summary), full_data_offset as int, le64(data_count), le32(magic));
        assert(file.data() == info_image(d0, hdr + fmt_zoom_dir(zoom_entries@), total_summary_offset as int, fmt_summary(summary),
            full_data_offset as int, le64(data_count), le32(magic)));
        lemma_dir_len(Seq::empty(), zoom_entries@);
        lemma_info_image(d0, hdr, fmt_zoom_dir(zoom_entries@), total_summary_offset as int, fmt_summary(summary),
            full_data_offset as int, le64(data_count), le32(magic));
    }
//@end

} // verus!
fn main() {}
