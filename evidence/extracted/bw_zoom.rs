// bigWig zoom tiling: bigwigwrite::process_val_zoom, per-level loop body (R9 outline).
// The property (C07): records in order, disjoint, at most `size` long, one chromosome,
// bases_covered == number of data bases inside the record's span (so uncovered bases are
// never counted), every data base lies in exactly one record, termination, batches of
// 1..=items_per_slot records, nothing left pending at the end of the chromosome.
use vstd::prelude::*;
use vstd::std_specs::ops::*;
use vstd::std_specs::convert::FromSpec;
verus! {
// ---- shared float prelude -------------------------------------------------
// Rust float operators are total; Verus models their results as uninterpreted
// functions (`add_spec`, `mul_spec`, `from_spec`, ...).  The axioms below say
// only (1) the operators have no precondition and (2) the exec operator returns
// the value of its spec function (determinism).  Nothing numerical is assumed.
mod float_ax {
use vstd::prelude::*;
use vstd::std_specs::ops::*;
use vstd::std_specs::convert::FromSpec;
pub broadcast axiom fn ax_f64_mul_total(a: f64, b: f64) ensures #[trigger] a.mul_req(b);
pub broadcast axiom fn ax_f64_add_total(a: f64, b: f64) ensures #[trigger] a.add_req(b);
pub broadcast axiom fn ax_f64_sub_total(a: f64, b: f64) ensures #[trigger] a.sub_req(b);
pub broadcast axiom fn ax_f64_div_total(a: f64, b: f64) ensures #[trigger] a.div_req(b);
pub broadcast axiom fn ax_f32_add_total(a: f32, b: f32) ensures #[trigger] a.add_req(b);
pub broadcast axiom fn ax_f32_sub_total(a: f32, b: f32) ensures #[trigger] a.sub_req(b);
pub broadcast group float_total { ax_f64_mul_total, ax_f64_add_total, ax_f64_sub_total, ax_f64_div_total, ax_f32_add_total, ax_f32_sub_total }
pub axiom fn float_det()
    ensures
        <f64 as AddSpec<f64>>::obeys_add_spec(), <f64 as MulSpec<f64>>::obeys_mul_spec(),
        <f64 as SubSpec<f64>>::obeys_sub_spec(), <f64 as DivSpec<f64>>::obeys_div_spec(),
        <f32 as AddSpec<f32>>::obeys_add_spec(), <f32 as SubSpec<f32>>::obeys_sub_spec(),
        <f64 as FromSpec<u32>>::obeys_from_spec(), <f64 as FromSpec<f32>>::obeys_from_spec();
}
broadcast use float_ax::float_total;
pub uninterp spec fn fmin(a: f64, b: f64) -> f64;
pub uninterp spec fn fmax(a: f64, b: f64) -> f64;
pub assume_specification [f64::min] (a: f64, b: f64) -> (r: f64) ensures r == fmin(a, b);
pub assume_specification [f64::max] (a: f64, b: f64) -> (r: f64) ensures r == fmax(a, b);
// float constants (rule R12c): Verus has no model of core::f64 associated consts; each is an
// uninterpreted spec constant, distinct names so that swapping two of them is visible.
pub uninterp spec fn spec_f64_max() -> f64;
pub uninterp spec fn spec_f64_min() -> f64;
pub uninterp spec fn spec_f64_min_positive() -> f64;
pub uninterp spec fn spec_f64_nan() -> f64;
pub uninterp spec fn spec_f64_infinity() -> f64;
pub uninterp spec fn spec_f64_neg_infinity() -> f64;
pub uninterp spec fn spec_f64_epsilon() -> f64;
#[verifier::external_body] pub fn fconst_f64_max() -> (r: f64) ensures r == spec_f64_max() { f64::MAX }
#[verifier::external_body] pub fn fconst_f64_min() -> (r: f64) ensures r == spec_f64_min() { f64::MIN }
#[verifier::external_body] pub fn fconst_f64_min_positive() -> (r: f64) ensures r == spec_f64_min_positive() { f64::MIN_POSITIVE }
#[verifier::external_body] pub fn fconst_f64_nan() -> (r: f64) ensures r == spec_f64_nan() { f64::NAN }
#[verifier::external_body] pub fn fconst_f64_infinity() -> (r: f64) ensures r == spec_f64_infinity() { f64::INFINITY }
#[verifier::external_body] pub fn fconst_f64_neg_infinity() -> (r: f64) ensures r == spec_f64_neg_infinity() { f64::NEG_INFINITY }
#[verifier::external_body] pub fn fconst_f64_epsilon() -> (r: f64) ensures r == spec_f64_epsilon() { f64::EPSILON }

#[derive(Copy, Clone)]
pub struct Summary {
    pub total_items: u64,
    pub bases_covered: u64,
    pub min_val: f64,
    pub max_val: f64,
    pub sum: f64,
    pub sum_squares: f64,
}
#[derive(Copy, Clone)]
pub struct ZoomRecord {
    pub chrom: u32,
    pub start: u32,
    pub end: u32,
    pub summary: Summary,
}
#[derive(Copy, Clone)]
pub struct Value {
    pub start: u32,
    pub end: u32,
    pub value: f32,
}
#[derive(Copy, Clone)]
pub enum InputSortType {
    ALL,
    START,
    // TODO
    //NONE,
}
pub struct BBIWriteOptions {
    pub compress: bool,
    pub items_per_slot: u32,
    pub block_size: u32,
    pub initial_zoom_size: u32,
    pub max_zooms: u32,
    pub manual_zoom_sizes: Option<Vec<u32>>,
    pub input_sort_type: InputSortType,
    pub channel_size: usize,
    pub inmemory: bool,
}

// R2 shim: the spawn(encode_zoom_section(..)) + channel send hand-off.  Assumed contract:
// the batch is appended, in order, to the level's record stream.  `requires` = the callee's
// own precondition (encode_zoom_section indexes items[0]); verified separately in unit zoom_enc.
#[verifier::external_body]
pub struct ZoomSink { _p: u8 }
impl ZoomSink {
    pub uninterp spec fn log(&self) -> Seq<ZoomRecord>;
    pub uninterp spec fn batches(&self) -> Seq<int>;
    #[verifier::external_body]
    fn emit_encode_zoom_section(&mut self, compress: bool, items: Vec<ZoomRecord>)
        requires
            items@.len() > 0,
        ensures
            final(self).log() == old(self).log() + items@,
            final(self).batches() == old(self).batches().push(items@.len() as int),
    { unimplemented!() }
}
fn take_vec(v: &mut Vec<ZoomRecord>) -> (r: Vec<ZoomRecord>)
    ensures r@ == old(v)@, final(v)@.len() == 0
{ let mut n = Vec::new(); std::mem::swap(v, &mut n); n }
fn max_u32(a: u32, b: u32) -> (r: u32) ensures r == if a >= b { a } else { b } { if a >= b { a } else { b } }
fn min_u32(a: u32, b: u32) -> (r: u32) ensures r == if a <= b { a } else { b } { if a <= b { a } else { b } }

struct ZoomItem {
    // How many bases this zoom item covers
    size: u32,
    // The current zoom entry
    live_info: Option<ZoomRecord>,
    // All zoom entries in the current section
    records: Vec<ZoomRecord>,
    channel: ZoomSink,
}

// ---------------- specification vocabulary (written from the property) ----------------
spec fn imax(a: int, b: int) -> int { if a >= b { a } else { b } }
spec fn imin(a: int, b: int) -> int { if a <= b { a } else { b } }
/// number of bases of [vs,ve) inside [a,b)
spec fn ov(vs: int, ve: int, a: int, b: int) -> int {
    let lo = imax(vs, a); let hi = imin(ve, b); if hi > lo { hi - lo } else { 0 }
}
/// number of data bases of the value sequence h inside [a,b)
spec fn cov(h: Seq<Value>, a: int, b: int) -> int
    decreases h.len()
{
    if h.len() == 0 { 0 } else { cov(h.drop_last(), a, b) + ov(h.last().start as int, h.last().end as int, a, b) }
}
/// total number of data bases
spec fn tot(h: Seq<Value>) -> int
    decreases h.len()
{
    if h.len() == 0 { 0 } else { tot(h.drop_last()) + (h.last().end - h.last().start) }
}
spec fn sum_bc(r: Seq<ZoomRecord>) -> int
    decreases r.len()
{
    if r.len() == 0 { 0 } else { sum_bc(r.drop_last()) + r.last().summary.bases_covered as int }
}
/// accepted input so far on this chromosome: start <= end, sorted, non-overlapping
spec fn hist_ok(h: Seq<Value>) -> bool {
    &&& forall|i: int| 0 <= i < h.len() ==> (#[trigger] h[i]).start <= h[i].end
    &&& forall|i: int, j: int| 0 <= i < j < h.len() ==> (#[trigger] h[i]).end <= (#[trigger] h[j]).start
}
/// every positive-length value of h ends at or before m
spec fn ends_by(h: Seq<Value>, m: int) -> bool {
    forall|i: int| 0 <= i < h.len() ==> ((#[trigger] h[i]).start < h[i].end ==> h[i].end <= m)
}
/// closed records (already emitted ++ pending in `records`)
spec fn closed_of(z: ZoomItem) -> Seq<ZoomRecord> { z.channel.log() + z.records@ }

/// one finished record against the data: the C07 per-record clauses.
/// `cs, cf`: the part [cs, cf) of the value currently being added (cs == cf when none).
spec fn rec_ok(r: ZoomRecord, h: Seq<Value>, cs: int, cf: int, size: int, chrom: u32) -> bool {
    &&& r.start < r.end
    &&& r.end - r.start <= size
    &&& r.chrom == chrom
    &&& r.end <= cf
    &&& r.summary.bases_covered as int == cov(h, r.start as int, r.end as int) + ov(cs, cf, r.start as int, r.end as int)
}
spec fn closed_ok(c: Seq<ZoomRecord>, h: Seq<Value>, cs: int, cf: int, size: int, chrom: u32) -> bool {
    &&& forall|i: int| 0 <= i < c.len() ==> rec_ok(#[trigger] c[i], h, cs, cf, size, chrom)
    &&& forall|i: int| 0 <= i < c.len() - 1 ==> (#[trigger] c[i]).end <= c[i + 1].start
}
/// arithmetic facts about the open record (kept transparent: the code's overflow checks need them)
spec fn live_bounds(live: Option<ZoomRecord>, size: u32, cf: int, items_bound: int) -> bool {
    live.is_some() ==> {
        let l = live.unwrap();
        &&& l.start < l.end
        &&& l.end < l.start + size
        &&& l.end <= cf
        &&& l.start as int + size as int <= u32::MAX as int
        &&& l.summary.bases_covered <= l.end - l.start
        &&& l.summary.total_items <= items_bound
    }
}
/// the data-dependent part of the invariant (opaque to the loop body; handled by the lemmas below)
#[verifier::opaque]
spec fn deep(c: Seq<ZoomRecord>, live: Option<ZoomRecord>, h: Seq<Value>, cs: int, cf: int, size: int, chrom: u32) -> bool {
    &&& closed_ok(c, h, cs, cf, size, chrom)
    &&& live.is_some() ==> {
        let l = live.unwrap();
        &&& l.chrom == chrom
        &&& (l.end == cf || cf == cs)
        &&& ends_by(h, l.end as int)
        &&& (c.len() > 0 ==> c.last().end <= l.start)
        &&& l.summary.bases_covered as int == cov(h, l.start as int, l.end as int) + ov(cs, cf, l.start as int, l.end as int)
    }
    &&& sum_bc(c) + (if live.is_some() { live.unwrap().summary.bases_covered as int } else { 0 }) == tot(h) + (cf - cs)
}
/// C07 state invariant of one zoom level after the values `h` (+ the part [cs,cf) of the current one)
spec fn zoom_ok(z: ZoomItem, h: Seq<Value>, cs: int, cf: int, chrom: u32, ips: int, items_bound: int) -> bool {
    &&& z.size > 0
    &&& live_bounds(z.live_info, z.size, cf, items_bound)
    &&& deep(closed_of(z), z.live_info, h, cs, cf, z.size as int, chrom)
    &&& forall|i: int| 0 <= i < z.channel.batches().len() ==> 1 <= #[trigger] z.channel.batches()[i] <= ips
}

// ---------------- lemmas ----------------
proof fn lemma_ends_by_drop(h: Seq<Value>, m: int)
    requires ends_by(h, m), h.len() > 0,
    ensures ends_by(h.drop_last(), m),
{
    assert forall|i: int| 0 <= i < h.drop_last().len() implies ((#[trigger] h.drop_last()[i]).start < h.drop_last()[i].end ==> h.drop_last()[i].end <= m) by {
        assert(h.drop_last()[i] == h[i]);
    }
}
proof fn lemma_cov_extend(h: Seq<Value>, a: int, b: int, b2: int, m: int)
    requires ends_by(h, m), m <= b, m <= b2,
    ensures cov(h, a, b) == cov(h, a, b2),
    decreases h.len(),
{
    if h.len() > 0 {
        lemma_ends_by_drop(h, m);
        lemma_cov_extend(h.drop_last(), a, b, b2, m);
        let _ = h[h.len() - 1];
    }
}
proof fn lemma_cov_zero_after(h: Seq<Value>, a: int, b: int, m: int)
    requires ends_by(h, m), m <= a,
    ensures cov(h, a, b) == 0,
    decreases h.len(),
{
    if h.len() > 0 {
        lemma_ends_by_drop(h, m);
        lemma_cov_zero_after(h.drop_last(), a, b, m);
        let _ = h[h.len() - 1];
    }
}
proof fn lemma_sum_bc_push(c: Seq<ZoomRecord>, r: ZoomRecord)
    ensures sum_bc(c.push(r)) == sum_bc(c) + r.summary.bases_covered as int,
{
    assert(c.push(r).drop_last() =~= c);
}
proof fn lemma_hist_ends_by(h: Seq<Value>, v: Value)
    requires hist_ok(h.push(v)),
    ensures ends_by(h, v.start as int), hist_ok(h), v.start <= v.end,
{
    let hp = h.push(v);
    assert(hp[h.len() as int] == v);
    assert forall|i: int| 0 <= i < h.len() implies ((#[trigger] h[i]).start < h[i].end ==> h[i].end <= v.start) by {
        assert(hp[i] == h[i]);
    }
    assert forall|i: int| 0 <= i < h.len() implies (#[trigger] h[i]).start <= h[i].end by { assert(hp[i] == h[i]); }
    assert forall|i: int, j: int| 0 <= i < j < h.len() implies (#[trigger] h[i]).end <= (#[trigger] h[j]).start by {
        assert(hp[i] == h[i]); assert(hp[j] == h[j]);
    }
}
proof fn lemma_ends_by_push(h: Seq<Value>, v: Value, m: int)
    requires ends_by(h, m), v.start < v.end ==> v.end <= m,
    ensures ends_by(h.push(v), m),
{
    assert forall|i: int| 0 <= i < h.push(v).len() implies ((#[trigger] h.push(v)[i]).start < h.push(v)[i].end ==> h.push(v)[i].end <= m) by {
        if i < h.len() { assert(h.push(v)[i] == h[i]); }
    }
}
/// start of a value: nothing of it has been added yet
proof fn lemma_start_value(c: Seq<ZoomRecord>, live: Option<ZoomRecord>, h: Seq<Value>, pe: int, cs: int, size: int, chrom: u32)
    requires deep(c, live, h, pe, pe, size, chrom), pe <= cs,
    ensures deep(c, live, h, cs, cs, size, chrom),
{
    reveal(deep);
    assert forall|i: int| 0 <= i < c.len() implies rec_ok(#[trigger] c[i], h, cs, cs, size, chrom) by {
        assert(rec_ok(c[i], h, pe, pe, size, chrom));
    }
}
/// end of a value v: the finished part [v.start, v.end) is folded into the history
proof fn lemma_finish_value(c: Seq<ZoomRecord>, live: Option<ZoomRecord>, h: Seq<Value>, v: Value, size: int, chrom: u32)
    requires deep(c, live, h, v.start as int, v.end as int, size, chrom), v.start <= v.end, ends_by(h, v.start as int),
        live.is_some() ==> live.unwrap().end <= v.end,
    ensures deep(c, live, h.push(v), v.end as int, v.end as int, size, chrom),
{
    reveal(deep);
    assert(h.push(v).drop_last() =~= h);
    assert(h.push(v).last() == v);
    assert forall|i: int| 0 <= i < c.len() implies rec_ok(#[trigger] c[i], h.push(v), v.end as int, v.end as int, size, chrom) by {
        assert(rec_ok(c[i], h, v.start as int, v.end as int, size, chrom));
    }
    if live.is_some() {
        lemma_ends_by_push(h, v, live.unwrap().end as int);
    }
}
/// an emitted batch moves records from `records` to the stream: the closed sequence is unchanged
/// closing the open record
proof fn lemma_close_live(c: Seq<ZoomRecord>, l: ZoomRecord, h: Seq<Value>, cs: int, cf: int, size: u32, chrom: u32, ib: int)
    requires deep(c, Some(l), h, cs, cf, size as int, chrom), live_bounds(Some(l), size, cf, ib),
    ensures deep(c.push(l), None, h, cs, cf, size as int, chrom),
{
    reveal(deep);
    lemma_sum_bc_push(c, l);
    let c2 = c.push(l);
    assert forall|i: int| 0 <= i < c2.len() implies rec_ok(#[trigger] c2[i], h, cs, cf, size as int, chrom) by {
        if i < c.len() { assert(c2[i] == c[i]); }
    }
    assert forall|i: int| 0 <= i < c2.len() - 1 implies (#[trigger] c2[i]).end <= c2[i + 1].start by {
        if i < c.len() - 1 { assert(c2[i] == c[i]); assert(c2[i + 1] == c[i + 1]); }
    }
}
/// what one tiling step does to the open record, transcribed as a relation:
/// `base` = the open record or a fresh one at a0; a1 = min(base.start+size, ce);
/// if a1 > a0 the record is extended to a1 and gains a1-a0 bases; otherwise it is left alone
/// (C07: a record's statistics are those of the values INSIDE its span).
spec fn step_rel(live0: Option<ZoomRecord>, l1: ZoomRecord, a0: int, a1: int, ce: int, size: int, chrom: u32) -> bool {
    let fresh = live0.is_none();
    let bs = if fresh { a0 } else { live0.unwrap().start as int };
    let be = if fresh { a0 } else { live0.unwrap().end as int };
    let bbc = if fresh { 0 } else { live0.unwrap().summary.bases_covered as int };
    let bch = if fresh { chrom } else { live0.unwrap().chrom };
    &&& a1 == imin(bs + size, ce)
    &&& l1.start == bs
    &&& l1.chrom == bch
    &&& (a1 > a0 ==> l1.end == a1 && l1.summary.bases_covered as int == bbc + (a1 - a0))
    &&& (a1 <= a0 ==> l1.end == be && l1.summary.bases_covered as int == bbc)
}
proof fn lemma_step(c: Seq<ZoomRecord>, live0: Option<ZoomRecord>, l1: ZoomRecord, h: Seq<Value>, cs: int, a0: int, a1: int, ce: int, size: u32, chrom: u32, ib: int)
    requires
        deep(c, live0, h, cs, a0, size as int, chrom), live_bounds(live0, size, a0, ib),
        size > 0, cs <= a0 < ce, ends_by(h, cs),
        step_rel(live0, l1, a0, a1, ce, size as int, chrom),
    ensures
        ({
            let nf = imax(a1, cs);
            let bs = l1.start as int;
            &&& a0 <= nf <= ce
            &&& (a1 == bs + size ==> deep(c.push(l1), None, h, cs, nf, size as int, chrom))
            &&& (a1 != bs + size ==> deep(c, Some(l1), h, cs, nf, size as int, chrom) && nf == ce && l1.start < l1.end && l1.end < l1.start + size && l1.end <= nf)
            &&& (live0.is_none() ==> nf > a0)
            &&& l1.summary.bases_covered <= l1.end - l1.start
        }),
{
    reveal(deep);
    let nf = imax(a1, cs);
    let bs = l1.start as int;
    if live0.is_none() {
        lemma_cov_zero_after(h, a0, a0, cs);
        lemma_cov_zero_after(h, a0, a1, cs);
    } else {
        let l0 = live0.unwrap();
        if a1 > a0 {
            lemma_cov_extend(h, l0.start as int, l0.end as int, a1, l0.end as int);
        }
    }
    assert forall|i: int| 0 <= i < c.len() implies rec_ok(#[trigger] c[i], h, cs, nf, size as int, chrom) by {
        assert(rec_ok(c[i], h, cs, a0, size as int, chrom));
    }
    if a1 == bs + size {
        lemma_sum_bc_push(c, l1);
        let c2 = c.push(l1);
        assert forall|i: int| 0 <= i < c2.len() implies rec_ok(#[trigger] c2[i], h, cs, nf, size as int, chrom) by {
            if i < c.len() { assert(c2[i] == c[i]); }
        }
        assert forall|i: int| 0 <= i < c2.len() - 1 implies (#[trigger] c2[i]).end <= c2[i + 1].start by {
            if i < c.len() - 1 { assert(c2[i] == c[i]); assert(c2[i + 1] == c[i + 1]); }
            else { assert(c2[i] == c[i]); assert(rec_ok(c[i], h, cs, a0, size as int, chrom)); }
        }
    } else {
        assert(ends_by(h, l1.end as int));
    }
}

fn process_val_zoom__level(zoom_item: &mut ZoomItem, options: &BBIWriteOptions, current_val: Value, next_val: Option<&Value>, chrom_id: u32, Ghost(hist): Ghost<Seq<Value>>, Ghost(prev_end): Ghost<int>)
    requires
        
        hist_ok(hist.push(current_val)),
        options.items_per_slot >= 1,
        hist.len() < 0xffff_ffff_ffff,
        current_val.end as int + old(zoom_item).size as int <= u32::MAX as int,
        prev_end <= current_val.start, ends_by(hist, prev_end),
        old(zoom_item).records@.len() < options.items_per_slot,
        zoom_ok(*old(zoom_item), hist, prev_end, prev_end, chrom_id, options.items_per_slot as int, hist.len() as int),
    ensures
        
        zoom_ok(*final(zoom_item), hist.push(current_val), current_val.end as int, current_val.end as int, chrom_id, options.items_per_slot as int, hist.len() as int + 1),
        
        final(zoom_item).size == old(zoom_item).size,
        
        final(zoom_item).records@.len() < options.items_per_slot,
        
        next_val.is_none() ==> final(zoom_item).live_info.is_none() && final(zoom_item).records@.len() == 0,
        
        old(zoom_item).channel.log().is_prefix_of(final(zoom_item).channel.log()),
{
        proof {
            lemma_hist_ends_by(hist, current_val);
            lemma_start_value(closed_of(*zoom_item), zoom_item.live_info, hist, prev_end, current_val.start as int, zoom_item.size as int, chrom_id);
        }
        let ghost cs = current_val.start as int;
        let ghost ips = options.items_per_slot as int;
        let ghost log0 = zoom_item.channel.log();

        assert((zoom_item.records.len()) != (options.items_per_slot as usize));

        // Zooms are comprised of a tiled set of summaries. Each summary spans a fixed length.
        // Zoom summaries are compressed similarly to main data, with a given items per slot.
        // It may be the case that our value spans across multiple zoom summaries, so this inner loop handles that.

        // `add_start` indicates where we are *currently* adding bases from (either the start of this item or in the middle, but beginning of another zoom section)
        let mut add_start = current_val.start;
        loop 
            invariant
                
                current_val.start <= add_start <= current_val.end,
                
                cs == current_val.start as int, ips == options.items_per_slot as int, ips >= 1,
                ends_by(hist, cs), hist.len() < 0xffff_ffff_ffff,
                zoom_item.size == old(zoom_item).size,
                current_val.end as int + zoom_item.size as int <= u32::MAX as int,
                log0 == old(zoom_item).channel.log(),
                
                zoom_item.records@.len() <= ips,
                
                zoom_ok(*zoom_item, hist, cs, add_start as int, chrom_id, ips, hist.len() as int + (if add_start == current_val.end { 1int } else { 0int })),
                
                log0.is_prefix_of(zoom_item.channel.log()),
            ensures
                
                add_start == current_val.end,
                zoom_item.records@.len() < ips,
                zoom_item.size == old(zoom_item).size,
                zoom_ok(*zoom_item, hist, cs, add_start as int, chrom_id, ips, hist.len() as int + 1),
                log0.is_prefix_of(zoom_item.channel.log()),
                next_val.is_none() ==> zoom_item.live_info.is_none() && zoom_item.records@.len() == 0,
            decreases
                
                (current_val.end - add_start) as int,
                (if zoom_item.live_info.is_some() { 1int } else { 0int }),
{
            // Write section if full; or if no next section, some items, and no current zoom record
            if (add_start >= current_val.end
                && zoom_item.live_info.is_none()
                && next_val.is_none()
                && !(zoom_item.records.len() == 0))
                || zoom_item.records.len() == options.items_per_slot as usize
            {

                let ghost c_before = closed_of(*zoom_item);
                let items = take_vec(&mut zoom_item.records);
                zoom_item.channel.emit_encode_zoom_section(options.compress, items);

                proof {
                    assert(closed_of(*zoom_item) =~= c_before);
                }
            }
            if add_start >= current_val.end {
                if next_val.is_none() {
                    if let Some(zoom2) = zoom_item.live_info.take() {

                        let ghost c_before = closed_of(*zoom_item);
                        zoom_item.records.push(zoom2);

                        proof {
                            assert(closed_of(*zoom_item) =~= c_before.push(zoom2));
                            lemma_close_live(c_before, zoom2, hist, cs, add_start as int, zoom_item.size, chrom_id, hist.len() as int + 1);
                        }
                        continue;
                    }
                }
                break;
            }

            proof { float_ax::float_det(); }
            let ghost c_mid = closed_of(*zoom_item);
            let ghost live0 = zoom_item.live_info;
            let val = f64::from(current_val.value);
            let zoom2 = zoom_item.live_info.get_or_insert(ZoomRecord {
                chrom: chrom_id,
                start: add_start,
                end: add_start,
                summary: Summary {
                    total_items: 0,
                    bases_covered: 0,
                    min_val: val,
                    max_val: val,
                    sum: 0.0,
                    sum_squares: 0.0,
                },
            });
            // The end of zoom record
            let next_end = zoom2.start + zoom_item.size;
            // End of bases that we could add
            let add_end = min_u32(next_end, current_val.end);
            // If the last zoom ends before (or exactly where) this value starts, we don't add anything

            proof {
                // C07: a record's min/max/sum are those of the values inside it: a record opened by this value starts from it
                if live0.is_none() {
                    assert(zoom2.summary.min_val == f64::from_spec(current_val.value) && zoom2.summary.max_val == f64::from_spec(current_val.value)); 
                    assert(zoom2.summary.bases_covered == 0 && zoom2.summary.total_items == 0 && zoom2.start == add_start && zoom2.end == add_start && zoom2.chrom == chrom_id); 
                }
            }
            let ghost sum0 = zoom2.summary.sum;
            let ghost ssq0 = zoom2.summary.sum_squares;
            let ghost min0 = zoom2.summary.min_val;
            let ghost max0 = zoom2.summary.max_val;
            let ghost items0 = zoom2.summary.total_items;
            if add_end > add_start {
                let added_bases = add_end - add_start;
                zoom2.end = add_end;
                zoom2.summary.total_items = zoom2.summary.total_items + (1);
                zoom2.summary.bases_covered = zoom2.summary.bases_covered + (u64::from(added_bases));
                zoom2.summary.min_val = zoom2.summary.min_val.min(val);
                zoom2.summary.max_val = zoom2.summary.max_val.max(val);
                zoom2.summary.sum = zoom2.summary.sum + (f64::from(added_bases) * val);
                zoom2.summary.sum_squares = zoom2.summary.sum_squares + (f64::from(added_bases) * val * val);

                proof {
                    // float fields: shape pinned over uninterpreted float operators (C07 "sum, sum of squares, min, max")
                    let w = f64::from_spec((add_end - add_start) as u32);
                    let x = f64::from_spec(current_val.value);
                    assert(add_end > add_start); 
                    assert(zoom2.summary.sum == sum0.add_spec(w.mul_spec(x))); 
                    assert(zoom2.summary.sum_squares == ssq0.add_spec(w.mul_spec(x).mul_spec(x))); 
                    assert(zoom2.summary.min_val == fmin(min0, x)); 
                    assert(zoom2.summary.max_val == fmax(max0, x)); 
                    assert(zoom2.summary.total_items == items0 + 1); 
                }
            }
            // If we made it to the end of the zoom (whether it was because the zoom ended before this value started,
            // or we added to the end of the zoom), then write this zooms to the current section

            let ghost l1 = zoom_item.live_info.unwrap();
            proof {
                assert(closed_of(*zoom_item) =~= c_mid);
                lemma_step(c_mid, live0, l1, hist, cs, add_start as int, add_end as int, current_val.end as int, zoom_item.size, chrom_id, hist.len() as int); 
            }
            if add_end == next_end {
                zoom_item.records.push(zoom_item.live_info.take().unwrap());

                proof {
                    assert(closed_of(*zoom_item) =~= c_mid.push(l1));
                }
            }
            // Set where we would start for next time
            add_start = max_u32(add_end, current_val.start);
        }
        assert((zoom_item.records.len()) != (options.items_per_slot as usize));
    
        proof {
            lemma_finish_value(closed_of(*zoom_item), zoom_item.live_info, hist, current_val, zoom_item.size as int, chrom_id);
        }
}

} // verus!
fn main() {}

