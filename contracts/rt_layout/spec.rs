// ================= specification vocabulary (unit rt_layout) =================
// Written from the published cirTree layout (Kent et al. 2010, supplementary table 14-17) and from
// the property statement; shares no arithmetic with the code: positions are sums of REAL node sizes.
// Levels: leaves (DataSections) are level 0, the root is level `levels`.

/// ASink: the destination `W: Write + Seek` of write_tree / write_rtreeindex (BufWriter<File> in the callers),
/// as an append-only, FALLIBLE byte image (unit-local; the shared `Sink` never fails, so it would not notice a
/// dropped `?`).  ASSUMED (R3/R11): NativeEndian == LittleEndian; a successful write appends exactly the
/// little-endian encoding; a failed write promises nothing about the image; `tell()` (-> pos, rule R3): the image
/// is the whole file from offset 0 and the stream is positioned at its end (the writers only ever append before
/// calling write_rtreeindex), so the position is the length of what has been written.
#[verifier::external_body]
pub struct ASink { _p: u8 }
impl ASink {
    pub uninterp spec fn view(&self) -> Seq<u8>;
    #[verifier::external_body]
    pub fn put_u8(&mut self, v: u8) -> (r: Result<(), IoError>)
        ensures r is Ok ==> final(self)@ == old(self)@.push(v) { unimplemented!() }
    #[verifier::external_body]
    pub fn put_u16(&mut self, v: u16) -> (r: Result<(), IoError>)
        ensures r is Ok ==> final(self)@ == old(self)@ + le16(v) { unimplemented!() }
    #[verifier::external_body]
    pub fn put_u32(&mut self, v: u32) -> (r: Result<(), IoError>)
        ensures r is Ok ==> final(self)@ == old(self)@ + le32(v) { unimplemented!() }
    #[verifier::external_body]
    pub fn put_u64(&mut self, v: u64) -> (r: Result<(), IoError>)
        ensures r is Ok ==> final(self)@ == old(self)@ + le64(v) { unimplemented!() }
    #[verifier::external_body]
    pub fn pos(&mut self) -> (r: Result<u64, IoError>)
        ensures final(self)@ == old(self)@, r matches Ok(p) ==> p as int == old(self)@.len()
    { unimplemented!() }
}

// ---------------- sizes ----------------
/// real byte size of one node: 4-byte header + 32 bytes per leaf item / 24 bytes per non-leaf item
spec fn node_size(t: RTreeChildren) -> int {
    match t {
        RTreeChildren::DataSections(v) => 4 + 32 * (v@.len() as int),
        RTreeChildren::Nodes(v) => 4 + 24 * (v@.len() as int),
    }
}
/// byte size of a node of level `lvl` that has all `b` items
spec fn full(lvl: int, b: int) -> int { if lvl <= 0 { 4 + 32 * b } else { 4 + 24 * b } }

/// total byte size of the nodes of level `dest` in the subtree `t` whose root is at level `cur`
spec fn sz(t: RTreeChildren, cur: int, dest: int) -> int
    decreases cur, 0int
{
    if cur == dest { node_size(t) }
    else if cur > dest && cur > 0 {
        match t {
            RTreeChildren::Nodes(v) => sz_kids(v@, cur - 1, dest, v@.len() as int),
            RTreeChildren::DataSections(_) => 0,
        }
    } else { 0 }
}
/// ... summed over the subtrees of the first n children `s[0..n]` (children are at level kl)
spec fn sz_kids(s: Seq<RTreeNode>, kl: int, dest: int, n: int) -> int
    decreases kl, n + 1
{
    if n <= 0 || kl < 0 || n > s.len() { 0 } else { sz_kids(s, kl, dest, n - 1) + sz(s[n - 1].children, kl, dest) }
}
/// total size of levels L..=levels (the nodes written before level L-1 starts)
spec fn above(t: RTreeChildren, levels: int, l: int) -> int
    decreases levels + 1 - l
{
    if l > levels { 0 } else { above(t, levels, l + 1) + sz(t, levels, l) }
}

// ---------------- well-formedness (the precondition; what get_rtreeindex's chunking produces) ----------------
/// a node holds at most b items, and exactly b unless it is the last node of its level
spec fn len_ok(n: int, b: int, last: bool) -> bool { n <= b && (!last ==> n == b) }
/// uniform depth (DataSections exactly at level 0), 1..=b children per non-leaf node, 0..=b items per leaf,
/// fullness of every node that is not on the right spine (`last` = this node is the last of its level)
spec fn wf(t: RTreeChildren, lvl: int, b: int, last: bool) -> bool
    decreases lvl, 0int
{
    match t {
        RTreeChildren::DataSections(v) => lvl == 0 && len_ok(v@.len() as int, b, last),
        RTreeChildren::Nodes(v) => lvl > 0 && v@.len() >= 1 && len_ok(v@.len() as int, b, last) && kids_wf(v@, lvl - 1, b, last),
    }
}
spec fn kids_wf(s: Seq<RTreeNode>, kl: int, b: int, plast: bool) -> bool
    decreases kl, 1int
{
    kl >= 0 && forall|i: int| 0 <= i < s.len() ==> wf((#[trigger] s[i]).children, kl, b, plast && i == s.len() - 1)
}
/// uniform depth only (enough for calculate_offsets)
spec fn depth_ok(t: RTreeChildren, lvl: int) -> bool
    decreases lvl
{
    match t {
        RTreeChildren::DataSections(v) => lvl == 0,
        RTreeChildren::Nodes(v) => lvl > 0 && forall|i: int| 0 <= i < v@.len() ==> depth_ok((#[trigger] v@[i]).children, lvl - 1),
    }
}

// ---------------- node layout ----------------
/// node header: isLeaf, reserved, count (u16)
spec fn put_hdr(b: Seq<u8>, leaf: bool, count: int) -> Seq<u8> {
    b.push(if leaf { 1u8 } else { 0u8 }).push(0u8) + le16(count as u16)
}
/// leaf item: startChromIx, startBase, endChromIx, endBase, dataOffset, dataSize
spec fn put_leaf_item(b: Seq<u8>, s: Section) -> Seq<u8> {
    b + le32(s.chrom) + le32(s.start) + le32(s.chrom) + le32(s.end) + le64(s.offset) + le64(s.size)
}
spec fn put_leaf_items(b: Seq<u8>, v: Seq<Section>, n: int) -> Seq<u8>
    decreases n
{
    if n <= 0 { b } else { put_leaf_item(put_leaf_items(b, v, n - 1), v[n - 1]) }
}
/// non-leaf item: startChromIx, startBase, endChromIx, endBase, dataOffset (= position of the child node)
spec fn put_nl_item(b: Seq<u8>, c: RTreeNode, ptr: int) -> Seq<u8> {
    b + le32(c.start_chrom_idx) + le32(c.start_base) + le32(c.end_chrom_idx) + le32(c.end_base) + le64(ptr as u64)
}
/// items of a non-leaf node whose first child is stored at `kidpos`: child n-1 is stored after the
/// REAL sizes of children 0..n-1 (children are at level kl)
spec fn put_nl_items(b: Seq<u8>, s: Seq<RTreeNode>, kl: int, kidpos: int, n: int) -> Seq<u8>
    decreases n
{
    if n <= 0 { b } else { put_nl_item(put_nl_items(b, s, kl, kidpos, n - 1), s[n - 1], kidpos + sz_kids(s, kl, kl, n - 1)) }
}
/// one node of level `lvl`; `kidpos` = absolute position of its first child (ignored by leaves)
spec fn put_node(b: Seq<u8>, t: RTreeChildren, lvl: int, kidpos: int) -> Seq<u8> {
    match t {
        RTreeChildren::DataSections(v) => put_leaf_items(put_hdr(b, true, v@.len() as int), v@, v@.len() as int),
        RTreeChildren::Nodes(v) => put_nl_items(put_hdr(b, false, v@.len() as int), v@, lvl - 1, kidpos, v@.len() as int),
    }
}
/// all nodes of level `dest` of the subtree `t` (root at level `cur`), left to right, appended to b.
/// `kidpos` = absolute position of the first node of level dest-1 of this subtree; the level dest-1 nodes
/// of the subtree are stored contiguously from there, so the children of a later node of level dest start
/// after the real sizes of all level dest-1 nodes under earlier siblings.
spec fn fmt_level(b: Seq<u8>, t: RTreeChildren, cur: int, dest: int, kidpos: int) -> Seq<u8>
    decreases cur, 0int
{
    if cur == dest { put_node(b, t, dest, kidpos) }
    else if cur > dest && cur > 0 {
        match t {
            RTreeChildren::Nodes(v) => fmt_kids(b, v@, cur - 1, dest, kidpos, v@.len() as int),
            RTreeChildren::DataSections(_) => b,
        }
    } else { b }
}
spec fn fmt_kids(b: Seq<u8>, s: Seq<RTreeNode>, kl: int, dest: int, kidpos: int, n: int) -> Seq<u8>
    decreases kl, n + 1
{
    if n <= 0 || kl < 0 || n > s.len() { b }
    else { fmt_level(fmt_kids(b, s, kl, dest, kidpos, n - 1), s[n - 1].children, kl, dest, kidpos + sz_kids(s, kl, dest - 1, n - 1)) }
}
/// leaves have no pointers: level 0 is formatted with kidpos 0
spec fn kp(dest: int, childoff: int) -> int { if dest <= 0 { 0 } else { childoff } }

/// levels `levels`, levels-1, ..., l appended to b in this order; p0 = absolute position of the root node.
/// Level L is formatted with kidpos = p0 + (sizes of levels L..=levels) = where level L-1 starts.
spec fn fmt_down(b: Seq<u8>, t: RTreeChildren, levels: int, l: int, p0: int) -> Seq<u8>
    decreases levels + 1 - l
{
    if l > levels { b } else { fmt_level(fmt_down(b, t, levels, l + 1, p0), t, levels, l, kp(l, p0 + above(t, levels, l))) }
}

// ---------------- cirTree header ----------------
/// lexicographic order on (chrom, base)
spec fn pos_le(a: (u32, u32), b: (u32, u32)) -> bool { a.0 < b.0 || (a.0 == b.0 && a.1 <= b.1) }
spec fn pos_max(a: (u32, u32), b: (u32, u32)) -> (u32, u32) { if pos_le(a, b) { b } else { a } }
spec fn sec_end(s: Section) -> (u32, u32) { (s.chrom, s.end) }
spec fn node_end(n: RTreeNode) -> (u32, u32) { (n.end_chrom_idx, n.end_base) }
/// largest (chrom, end) of the first n sections; (0,0) -- the least position -- if there is none
spec fn max_end_secs(v: Seq<Section>, n: int) -> (u32, u32)
    decreases n
{
    if n <= 0 { (0u32, 0u32) } else { pos_max(max_end_secs(v, n - 1), sec_end(v[n - 1])) }
}
spec fn max_end_nodes(v: Seq<RTreeNode>, n: int) -> (u32, u32)
    decreases n
{
    if n <= 0 { (0u32, 0u32) } else { pos_max(max_end_nodes(v, n - 1), node_end(v[n - 1])) }
}
/// bounds advertised in the header: start of the first item of the root, largest end over the root's items
spec fn root_start(t: RTreeChildren) -> (u32, u32) {
    match t {
        RTreeChildren::DataSections(v) => if v@.len() == 0 { (0u32, 0u32) } else { (v@[0].chrom, v@[0].start) },
        RTreeChildren::Nodes(v) => (v@[0].start_chrom_idx, v@[0].start_base),
    }
}
spec fn root_end(t: RTreeChildren) -> (u32, u32) {
    match t {
        RTreeChildren::DataSections(v) => max_end_secs(v@, v@.len() as int),
        RTreeChildren::Nodes(v) => max_end_nodes(v@, v@.len() as int),
    }
}
/// 48-byte cirTree header: magic, blockSize, itemCount, startChromIx, startBase, endChromIx, endBase,
/// endFileOffset, itemsPerSlot, reserved
spec fn fmt_cir_header(b: Seq<u8>, block_size: u32, item_count: u64, st: (u32, u32), en: (u32, u32), end_of_data: u64, items_per_slot: u32) -> Seq<u8> {
    b + le32(0x2468ACE0u32) + le32(block_size) + le64(item_count) + le32(st.0) + le32(st.1) + le32(en.0) + le32(en.1)
    + le64(end_of_data) + le32(items_per_slot) + le32(0u32)
}
/// the whole index appended to a file image b0
spec fn fmt_index(b0: Seq<u8>, t: RTreeChildren, levels: int, block_size: u32, item_count: u64, items_per_slot: u32) -> Seq<u8> {
    fmt_down(fmt_cir_header(b0, block_size, item_count, root_start(t), root_end(t), b0.len() as u64, items_per_slot),
             t, levels, 0, b0.len() as int + 48)
}

// ---------------- what the code's return values are (auxiliary, code-shaped) ----------------
/// value returned by write_tree: "size of the children region assuming full nodes"
spec fn rv(t: RTreeChildren, cur: int, dest: int, b: int) -> int
    decreases cur, 0int
{
    if cur == dest {
        match t {
            RTreeChildren::DataSections(v) => 4 + 32 * (v@.len() as int),
            RTreeChildren::Nodes(v) => (v@.len() as int) * full(dest - 1, b),
        }
    } else if cur > dest && cur > 0 {
        match t {
            RTreeChildren::Nodes(v) => rv_kids(v@, cur - 1, dest, b, v@.len() as int),
            RTreeChildren::DataSections(_) => 0,
        }
    } else { 0 }
}
spec fn rv_kids(s: Seq<RTreeNode>, kl: int, dest: int, b: int, n: int) -> int
    decreases kl, n + 1
{
    if n <= 0 || kl < 0 || n > s.len() { 0 } else { rv_kids(s, kl, dest, b, n - 1) + rv(s[n - 1].children, kl, dest, b) }
}
/// contribution of a node's own header/items to its own level (k == lv-1), nothing to the levels below
spec fn hdr_part(k: int, lv: int, n: int) -> int { if k == lv - 1 { 4 + 24 * n } else { 0 } }
