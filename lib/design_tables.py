#!/usr/bin/env python3
"""Regenerates the generated tables of DESIGN.md (between `<!-- gen:NAME -->` / `<!-- /gen:NAME -->`
markers) from the committed machinery, so the document cannot drift from what the checks run:

  units     one row per enabled unit: the real items its template cuts from /repo (functions, methods,
            loop bodies, closures - type items are counted only), back end, properties served
  findings  one row per entry of known_findings.json
"""
import json
import os
import re
import sys

HERE = os.path.dirname(os.path.abspath(__file__))
VERIF = os.path.dirname(HERE)
sys.path.insert(0, HERE)
import check  # noqa: E402


def unit_rows():
    serves = check.serves_map()
    rows = []
    for u in sorted(check.enabled_units()):
        d = os.path.join(VERIF, 'contracts', u)
        tpl = os.path.join(d, 'unit.rs.tpl')
        if os.path.exists(tpl):
            code, types = [], 0
            lines = []
            for fn_ in sorted(os.listdir(d)):
                if fn_.endswith(('.tpl', '.inc', '.rs')):
                    lines += open(os.path.join(d, fn_)).read().split('\n')
            for l in lines:
                m = re.match(r'\s*//@extract\s+(\w+)\s+(\S+)\s+(\S+)(?:\s+(.+?))?\s*$', l)
                if not m:
                    continue
                kind, path, name, arg = m.groups()
                f = os.path.basename(path)
                if kind in ('struct', 'enum', 'const', 'type'):
                    types += 1
                elif kind == 'method':
                    code.append('`%s` of %s (%s)' % (name, (arg or '').strip('"').lstrip('^').rstrip('$'), f))
                elif kind == 'loopbody':
                    code.append('loop %s of `%s` (%s)' % (arg, name, f))
                elif kind == 'closure':
                    code.append('closure `%s` in `%s` (%s)' % (arg, name, f) if arg else 'closure `%s` (%s)' % (name, f))
                else:
                    code.append('`%s` (%s)' % (name, f))
            seen, out = set(), []
            for c in code:
                if c not in seen:
                    seen.add(c)
                    out.append(c)
            rows.append((u, '; '.join(out) + (' — plus %d type/const items' % types if types else ''), 'Verus',
                         ' '.join(sorted(serves.get(u, [])))))
        elif os.path.exists(os.path.join(d, 'kani.toml')):
            t = open(os.path.join(d, 'kani.toml')).read()
            fns = re.findall(r'^fn\s*=\s*"([^"]+)"', t, re.M)
            fl = re.search(r'^file\s*=\s*"([^"]+)"', t, re.M)
            sv = re.search(r'^serves\s*=\s*\[([^\]]*)\]', t, re.M)
            kinds = sorted(set(re.findall(r'^kind\s*=\s*"([^"]+)"', t, re.M)))
            rows.append((u, '; '.join('`%s`' % f for f in dict.fromkeys(fns)) + (' (%s)' % os.path.basename(fl.group(1)) if fl else ''),
                         'Kani (' + ', '.join(kinds) + ')', ' '.join(sorted(re.findall(r'C\d\d', sv.group(1)))) if sv else ''))
    return rows


def kani_units():
    out = []
    for d in sorted(os.listdir(os.path.join(VERIF, 'contracts'))):
        if os.path.exists(os.path.join(VERIF, 'contracts', d, 'kani.toml')):
            out.append(d)
    return out


def gen_units():
    rows = unit_rows()
    have = {r[0] for r in rows}
    for u in kani_units():
        if u in have:
            continue
        d = os.path.join(VERIF, 'contracts', u)
        t = open(os.path.join(d, 'kani.toml')).read()
        if re.search(r'^enabled\s*=\s*false', t, re.M):
            continue
        fns = re.findall(r'^fn\s*=\s*"([^"]+)"', t, re.M)
        fl = re.search(r'^file\s*=\s*"([^"]+)"', t, re.M)
        sv = re.search(r'^serves\s*=\s*\[([^\]]*)\]', t, re.M)
        kinds = sorted(set(re.findall(r'^kind\s*=\s*"([^"]+)"', t, re.M)))
        rows.append((u, '; '.join('`%s`' % f for f in dict.fromkeys(fns)) + (' (%s)' % os.path.basename(fl.group(1)) if fl else ''),
                     'Kani (' + ', '.join(kinds) + ')', ' '.join(sorted(re.findall(r'C\d\d', sv.group(1)))) if sv else ''))
    s = '| unit | real code under contract (cut from /repo on every run) | back end | serves |\n|---|---|---|---|\n'
    for r in rows:
        s += '| %s | %s | %s | %s |\n' % r
    return s


def gen_findings():
    k = json.load(open(os.path.join(VERIF, 'known_findings.json')))['findings']
    s = '| prop | status | /repo commit | obligation that guards it | what failed on the pinned tree | replay on the real code |\n|---|---|---|---|---|---|\n'
    for e in k:
        s += '| %s | %s | %s | `%s` | %s | %s |\n' % (
            e.get('property'), e.get('status'), e.get('commit', '-') or '-', e.get('obligation', ''),
            (e.get('what') or '').replace('|', '\\|'), ('`bt-replay %s`' % e['replay']) if e.get('replay') else '-')
    return s


def main():
    p = os.path.join(VERIF, 'DESIGN.md')
    t = open(p).read()
    for name, fn in (('units', gen_units), ('findings', gen_findings)):
        pat = re.compile(r'(<!-- gen:%s -->\n).*?(<!-- /gen:%s -->)' % (name, name), re.S)
        if not pat.search(t):
            print('marker gen:%s not found' % name)
            continue
        t = pat.sub(lambda m: m.group(1) + fn() + m.group(2), t)
    open(p, 'w').write(t)
    print('DESIGN.md tables regenerated')


if __name__ == '__main__':
    main()
