//@unit tree_offsets
//@serves C03 C04 C05 C07 C08 C10
//@backend verus
// bbiread.rs: `read_cir_tree_header` and the two provided methods of `trait internal::BBIReadInternal`,
// `full_data_cir_tree` and `zoom_cir_tree`: locate an R-tree (seek to the index offset, validate the 48-byte
// cirTree header's magic in the file's byte order, answer `CirTreeIndex(kind, index_offset + 48)`) and CACHE the
// validated position in the reader's `BBIFileInfo` (`header.full_index_tree_offset` resp. THAT zoom header's
// `index_tree_offset`).
// C03/C04/C05/C07/C08/C10 "The answer is the same ... after any sequence of earlier queries": the caches must
// never redirect a later query.  The answer of either method is a function of the file alone (the header field
// `full_index_offset` / the FIRST zoom header of the requested level, the 48 bytes stored there, the byte
// order) - whatever the caches hold; a lookup writes only ITS OWN cache slot and only the value
// `index_offset + 48`, and only after the header validated.
// C10 "either byte order": the magic is decoded in the byte order of the file header.
// This unit puts under contract exactly the two functions that unit query_glue ASSUMES (its shims
// `BigWigRead::full_data_cir_tree` / `zoom_cir_tree`).
use vstd::prelude::*;
verus! {
//@include ../_shared/bytes.rs

// std stand-ins that only matter for CHANGED code (0 hits on /repo): they let an edit that swallows an error reach
// the verifier.  Contracts are those of std.
pub assume_specification<T, E>[Result::<T, E>::unwrap_or](x: Result<T, E>, d: T) -> (v: T)
    ensures x matches Ok(y) ==> v == y, x is Err ==> v == d;
pub assume_specification<T: Default, E>[Result::<T, E>::unwrap_or_default](x: Result<T, E>) -> (v: T)
    ensures x matches Ok(y) ==> v == y;

/// shim for byteordered::Endianness (external crate, a plain 2-variant enum)
#[derive(Clone, Copy)]
pub enum Endianness { Big, Little }
pub open spec fn is_big(e: Endianness) -> bool { e is Big }
/// shim for itertools::Either (external crate, a plain 2-variant enum)
pub enum Either<L, R> { Left(L), Right(R) }

//@extract const bigtools/src/bbi.rs CIR_TREE_MAGIC
//@rule R8
//@end
//@extract enum bigtools/src/bbi.rs BBIFile
//@rule R8
//@end
//@extract struct bigtools/src/bbi.rs ZoomHeader
//@rule R8
//@end
//@extract struct bigtools/src/bbi/bbiread.rs BBIHeader
//@rule R8
//@end
// R11: `name: String` -> `name: Vec<u8>` (never inspected here)
//@extract struct bigtools/src/bbi/bbiread.rs ChromInfo
//@rule R8
//@sub /#\[derive\(Clone\)\]\n/ => "" min=0
//@sub /name: String/ => name: Vec<u8> min=1
//@end
//@extract struct bigtools/src/bbi/bbiread.rs BBIFileInfo
//@rule R8
//@sub /#\[derive\(Clone\)\]\n/ => "" min=0
//@end
//@extract enum bigtools/src/bbi/bbiread.rs CirTreeIndexType
//@rule R8
//@end
//@extract struct bigtools/src/bbi/bbiread.rs CirTreeIndex
//@rule R8
//@end
//@extract struct bigtools/src/bbi/bbiread.rs UnknownMagic
//@rule R8
//@end
// the two error enums live in `mod internal`; io::Error -> opaque IoError
//@extract enum bigtools/src/bbi/bbiread.rs FullDataCirTreeError
//@rule R8
//@sub /io::Error/ => IoError min=1
//@end
//@extract enum bigtools/src/bbi/bbiread.rs ZoomDataCirTreeError
//@rule R8
//@sub /io::Error/ => IoError min=1
//@end

// ---------------- reader shim: `R: Read + Seek` behind `BBIFileRead::raw_reader()` ----------------
// Ghost file content, OS position and an environment flag (the next operations may fail for reasons outside the
// program iff !env_ok).  ASSUMED contract of std: `seek(Start(p))` moves to p (seeking past the end is allowed)
// or fails only because of the environment; `read_exact` into a zeroed n-byte buffer fails iff fewer than n
// bytes remain or the environment fails, and on success yields exactly the next n bytes.  A file is at most
// u64::MAX bytes long (`Seek` reports positions as u64).
#[verifier::external_body]
pub struct VRead { _p: u8 }
impl VRead {
    pub uninterp spec fn content(&self) -> Seq<u8>;
    pub uninterp spec fn pos(&self) -> int;
    pub uninterp spec fn env_ok(&self) -> bool;
    /// `.seek(SeekFrom::Start(p))`
    #[verifier::external_body]
    pub fn seek_start(&mut self, p: u64) -> (r: Result<u64, IoError>)
        ensures final(self).content() == old(self).content(), final(self).env_ok() == old(self).env_ok(),
            old(self).env_ok() ==> r is Ok, r is Ok ==> final(self).pos() == p && r->Ok_0 == p,
    { unimplemented!() }
    /// `let mut b = BytesMut::zeroed(n); file.read_exact(&mut b)` as one step
    #[verifier::external_body]
    pub fn read_cur(&mut self, n: usize) -> (r: Result<Cur, IoError>)
        ensures final(self).content() == old(self).content(), final(self).env_ok() == old(self).env_ok(),
            old(self).content().len() <= u64::MAX,
            (old(self).env_ok() && 0 <= old(self).pos() && old(self).pos() + n <= old(self).content().len()) ==> r is Ok,
            r is Ok ==> 0 <= old(self).pos() && old(self).pos() + n <= old(self).content().len()
                && final(self).pos() == old(self).pos() + n
                && r->Ok_0.rem() == old(self).content().subrange(old(self).pos(), old(self).pos() + n),
    { unimplemented!() }
    // stand-ins that only matter for CHANGED code (0 hits on /repo): no postcondition beyond "the file is not
    // written", so an edit that starts using them is judged by the contracts below
    #[verifier::external_body]
    pub fn seek_cur(&mut self, d: i64) -> (r: Result<u64, IoError>)
        ensures final(self).content() == old(self).content(), final(self).env_ok() == old(self).env_ok(),
    { unimplemented!() }
    #[verifier::external_body]
    pub fn stream_position(&mut self) -> (r: Result<u64, IoError>)
        ensures final(self).content() == old(self).content(), final(self).env_ok() == old(self).env_ok(),
    { unimplemented!() }
}

// ---------------- format vocabulary ----------------
/// a cirTree header is stored completely inside the file at `at` and starts with the cirTree magic in byte
/// order `big` (published layout: magic u32 at +0; the header is 48 bytes)
pub open spec fn tree_hdr_ok(big: bool, c: Seq<u8>, at: int) -> bool {
    &&& 0 <= at && at + 48 <= c.len()
    &&& d32(big, c, at) == CIR_TREE_MAGIC
}
/// 48 bytes are stored at `at` but they do not start with the magic
pub open spec fn tree_hdr_bad_magic(big: bool, c: Seq<u8>, at: int) -> bool {
    &&& 0 <= at && at + 48 <= c.len()
    &&& d32(big, c, at) != CIR_TREE_MAGIC
}

//@extract fn bigtools/src/bbi/bbiread.rs read_cir_tree_header
//@rule R16
//@rule R8
//@sub /<R: Read \+ Seek>/ => "" min=1
//@sub /file: &mut R,/ => file: &mut VRead, min=1
//@sub /io::Error/ => IoError min=1
//@sub /let mut header_data = BytesMut::zeroed\(([^;]*)\);\s*file\.read_exact\(&mut header_data\)\s*\.map_err\(\|e\| Either::Right\(e\)\)\?;/ => let mut header_data = match file.read_cur(\1) { Ok(v__) => v__, Err(e) => return Err(Either::Right(e)) }; min=1
//@ret r
//@sig
    ensures
        [[L: file_not_modified]]
        final(file).content() == old(file).content() && final(file).env_ok() == old(file).env_ok(),
        [[L: ok_only_for_a_stored_header_with_the_magic_in_that_byte_order]]
        r is Ok ==> tree_hdr_ok(is_big(endianness), old(file).content(), old(file).pos()),
        [[L: stored_header_with_the_magic_is_accepted]]
        old(file).env_ok() && tree_hdr_ok(is_big(endianness), old(file).content(), old(file).pos()) ==> r is Ok,
        [[L: wrong_magic_is_unknown_magic]]
        old(file).env_ok() && tree_hdr_bad_magic(is_big(endianness), old(file).content(), old(file).pos())
            ==> r matches Err(Either::Left(_)),
        [[L: unknown_magic_only_for_a_stored_header_without_the_magic]]
        r matches Err(Either::Left(_)) ==> tree_hdr_bad_magic(is_big(endianness), old(file).content(), old(file).pos()),
        [[L: io_error_only_for_a_short_file_or_a_failing_environment]]
        r matches Err(Either::Right(_)) ==> !old(file).env_ok() || old(file).pos() < 0
            || old(file).pos() + 48 > old(file).content().len(),
        [[L: consumes_exactly_48_bytes]]
        (r is Ok || r matches Err(Either::Left(_))) ==> final(file).pos() == old(file).pos() + 48,
        [[L: file_length_fits_u64]]
        (r is Ok || r matches Err(Either::Left(_))) ==> old(file).pos() + 48 <= u64::MAX,
//@at /^\s*match endianness \{/ before
    proof {
        [[L: body/header_is_the_48_bytes_at_the_reader_position]]
        assert(header_data.rem() == old(file).content().subrange(old(file).pos(), old(file).pos() + 48));
        assert(d32(is_big(endianness), header_data.rem(), 0) == d32(is_big(endianness), old(file).content(), old(file).pos()));
    }
//@end

// ---------------- the cache slots ----------------
/// index of the FIRST zoom header, from position i on, whose reduction level is l
pub open spec fn first_level_from(v: Seq<ZoomHeader>, l: u32, i: int) -> Option<int>
    decreases v.len() - i
{
    if i < 0 || i >= v.len() { None } else if v[i].reduction_level == l { Some(i) } else { first_level_from(v, l, i + 1) }
}
pub open spec fn first_level(v: Seq<ZoomHeader>, l: u32) -> Option<int> { first_level_from(v, l, 0) }
pub proof fn lemma_first_level_from(v: Seq<ZoomHeader>, l: u32, i: int)
    requires 0 <= i,
    ensures first_level_from(v, l, i) matches Some(k) ==> i <= k < v.len() && v[k].reduction_level == l
        && forall|j: int| i <= j < k ==> (#[trigger] v[j]).reduction_level != l,
        first_level_from(v, l, i) is None ==> forall|j: int| i <= j < v.len() ==> (#[trigger] v[j]).reduction_level != l,
    decreases v.len() - i
{
    if i < v.len() && v[i].reduction_level != l { lemma_first_level_from(v, l, i + 1); }
}
/// index of the LAST zoom header before position n whose reduction level is l
pub open spec fn last_level_before(v: Seq<ZoomHeader>, l: u32, n: int) -> Option<int>
    decreases n
{
    if n <= 0 || n > v.len() { None } else if v[n - 1].reduction_level == l { Some(n - 1) } else { last_level_before(v, l, n - 1) }
}

/// cache coherence: a cached tree position is the position right behind the 48-byte header of ITS OWN index
/// (exact integer arithmetic: no wrap-around)
pub open spec fn offsets_ok(info: BBIFileInfo) -> bool {
    &&& info.header.full_index_tree_offset matches Some(x) ==> x == info.header.full_index_offset + 48
    &&& forall|i: int| 0 <= i < info.zoom_headers@.len() ==>
            ((#[trigger] info.zoom_headers@[i]).index_tree_offset matches Some(x) ==> x == info.zoom_headers@[i].index_offset + 48)
}
/// no tree position is cached: the state `read_info` hands out (unit info: `header_fields_at_published_offsets`
/// builds the header with `full_index_tree_offset: None`, `zoom_directory_follows_header` / `zh_at` every zoom
/// header with `index_tree_offset: None`)
pub open spec fn no_caches(info: BBIFileInfo) -> bool {
    &&& info.header.full_index_tree_offset is None
    &&& forall|i: int| 0 <= i < info.zoom_headers@.len() ==> (#[trigger] info.zoom_headers@[i]).index_tree_offset is None
}
pub proof fn lemma_fresh_info_is_coherent(info: BBIFileInfo)
    requires no_caches(info),
    ensures
        [[L: fresh_info_from_read_info_is_coherent]]
        offsets_ok(info),
{}
/// `b` is `a` except possibly for the full-data cache slot
pub open spec fn same_but_full_slot(a: BBIFileInfo, b: BBIFileInfo) -> bool {
    &&& b.filetype == a.filetype && b.chrom_info == a.chrom_info && b.zoom_headers == a.zoom_headers
    &&& b.header == BBIHeader { full_index_tree_offset: b.header.full_index_tree_offset, ..a.header }
}
/// `b` is `a` except possibly for the cache slot of zoom header i
pub open spec fn same_but_zoom_slot(a: BBIFileInfo, b: BBIFileInfo, i: int) -> bool {
    &&& b.filetype == a.filetype && b.chrom_info == a.chrom_info && b.header == a.header
    &&& b.zoom_headers@.len() == a.zoom_headers@.len()
    &&& forall|j: int| 0 <= j < a.zoom_headers@.len() && j != i ==> #[trigger] b.zoom_headers@[j] == a.zoom_headers@[j]
    &&& 0 <= i < a.zoom_headers@.len() ==>
            b.zoom_headers@[i] == ZoomHeader { index_tree_offset: b.zoom_headers@[i].index_tree_offset, ..a.zoom_headers@[i] }
}

// ---------------- verified stand-ins for `info.zoom_headers.iter_mut().find(|h| ..)` ----------------
/// `&mut v[i]` (Verus has no IndexMut on Vec): hands out element i; the vector afterwards is the old one with
/// element i replaced by whatever the borrower left there
#[verifier::external_body]
pub fn zoom_header_mut(v: &mut Vec<ZoomHeader>, i: usize) -> (r: &mut ZoomHeader)
    requires i < old(v)@.len(),
    ensures *r == old(v)@[i as int], final(v)@ == old(v)@.update(i as int, *final(r)),
{ &mut v[i] }
/// position of the first header with that level (what `Iterator::find` visits first)
pub fn zoom_find_first(v: &Vec<ZoomHeader>, reduction_level: u32) -> (r: Option<usize>)
    ensures
        r matches Some(i) ==> first_level(v@, reduction_level) == Some(i as int) && i < v@.len(),
        r is None ==> first_level(v@, reduction_level) is None,
{
    let mut i: usize = 0;
    while i < v.len()
        invariant i <= v.len(), first_level(v@, reduction_level) == first_level_from(v@, reduction_level, i as int),
        decreases v.len() - i,
    {
        if v[i].reduction_level == reduction_level { return Some(i); }
        i = i + 1;
    }
    None
}
/// position of the LAST header with that level (0 hits on /repo: `.rev().find(..)` / `.rfind(..)` of an edit)
pub fn zoom_find_last(v: &Vec<ZoomHeader>, reduction_level: u32) -> (r: Option<usize>)
    ensures
        r matches Some(i) ==> last_level_before(v@, reduction_level, v@.len() as int) == Some(i as int) && i < v@.len(),
        r is None ==> last_level_before(v@, reduction_level, v@.len() as int) is None,
{
    let mut i: usize = v.len();
    while i > 0
        invariant i <= v.len(),
            last_level_before(v@, reduction_level, v@.len() as int) == last_level_before(v@, reduction_level, i as int),
        decreases i,
    {
        if v[i - 1].reduction_level == reduction_level { return Some(i - 1); }
        i = i - 1;
    }
    None
}
/// `V.iter_mut().find(|h| h.reduction_level == reduction_level)`: the FIRST header with that level, mutably
pub fn zoom_find_mut(v: &mut Vec<ZoomHeader>, reduction_level: u32) -> (r: Option<&mut ZoomHeader>)
    ensures
        first_level(old(v)@, reduction_level) is None ==> r is None && final(v)@ == old(v)@,
        first_level(old(v)@, reduction_level) matches Some(i) ==> (r matches Some(h) && 0 <= i < old(v)@.len()
            && *h == old(v)@[i] && final(v)@ == old(v)@.update(i, *final(h))),
{
    match zoom_find_first(v, reduction_level) {
        Some(i) => Some(zoom_header_mut(v, i)),
        None => None,
    }
}
/// `V.iter_mut().rev().find(..)` / `V.iter_mut().rfind(..)`: the LAST header with that level, mutably
pub fn zoom_rfind_mut(v: &mut Vec<ZoomHeader>, reduction_level: u32) -> (r: Option<&mut ZoomHeader>)
    ensures
        last_level_before(old(v)@, reduction_level, old(v)@.len() as int) is None ==> r is None && final(v)@ == old(v)@,
        last_level_before(old(v)@, reduction_level, old(v)@.len() as int) matches Some(i) ==> (r matches Some(h) && 0 <= i < old(v)@.len()
            && *h == old(v)@[i] && final(v)@ == old(v)@.update(i, *final(h))),
{
    match zoom_find_last(v, reduction_level) {
        Some(i) => Some(zoom_header_mut(v, i)),
        None => None,
    }
}
/// any OTHER `V.iter_mut()[.rev()].find(|h| <some predicate>)` (0 hits on /repo: an edit that changes the
/// predicate): SOME element is handed out or none - which one is not promised, so the edit is judged by the contract
#[verifier::external_body]
pub fn zoom_find_mut_any(v: &mut Vec<ZoomHeader>, reduction_level: u32) -> (r: Option<&mut ZoomHeader>)
    ensures
        r is None ==> final(v)@ == old(v)@,
        r matches Some(h) ==> exists|i: int| 0 <= i < old(v)@.len() && *h == old(v)@[i] && final(v)@ == old(v)@.update(i, *final(h)),
{ unimplemented!() }

// ---------------- the reader: `Self: BBIReadInternal` with `Self::Read = VRead` ----------------
/// stands for `BigWigRead<R>` / `BigBedRead<R>` as seen through `trait BBIReadInternal`: `reader_and_info()`
/// hands out exactly these two fields (bigwigread.rs / bigbedread.rs: `(&mut self.read, &mut self.info)`)
pub struct VBbi { pub read: VRead, pub info: BBIFileInfo }

impl VBbi {
//@extract fn bigtools/src/bbi/bbiread.rs full_data_cir_tree
//@rule R16
//@rule R8
//@sub /^(\s*)fn full_data_cir_tree/ => \1pub fn full_data_cir_tree min=1
//@sub /let \(reader, info\) = self\.reader_and_info\(\);/ => let reader = &mut self.read; let info = &mut self.info; min=1
//@sub /\s*\.raw_reader\(\)/ => "" min=0
//@sub /\.seek\((?:io::)?SeekFrom::Start\(([^;]*?)\)\)/ => .seek_start(\1) min=0
//@sub /(\b\w+\s*\.seek_start\([^;]*?\))\s*\.map_err\(\|e\| (\w+)::IoError\(e\)\)\?;/ => match \1 { Ok(v__) => v__, Err(e) => return Err(\2::IoError(e)) }; min=0
//@sub /(read_cir_tree_header\([^;]*?\))\s*\.map_err\(\|e\| match e \{(.*?)\}\)\?;/ => match \1 { Ok(v__) => v__, Err(e) => return Err(match e {\2}) }; min=0
//@ret r
//@sig
    requires
        [[L: full/pre_a_cached_position_did_not_wrap_around]]
        old(self).info.header.full_index_tree_offset is Some ==> old(self).info.header.full_index_offset + 48 <= u64::MAX,
    ensures
        [[L: full/answer_is_full_index_offset_plus_48_whatever_the_caches_hold]]
        r matches Ok(t) ==> t.0 is FullData && t.1 == old(self).info.header.full_index_offset + 48,
        [[L: full/file_not_modified]]
        final(self).read.content() == old(self).read.content() && final(self).read.env_ok() == old(self).read.env_ok(),
        [[L: full/first_call_succeeds_only_if_the_header_at_full_index_offset_validates_in_the_files_byte_order]]
        old(self).info.header.full_index_tree_offset is None && r is Ok ==>
            tree_hdr_ok(is_big(old(self).info.header.endianness), old(self).read.content(), old(self).info.header.full_index_offset as int),
        [[L: full/first_call_accepts_a_valid_header]]
        old(self).info.header.full_index_tree_offset is None && old(self).read.env_ok()
            && tree_hdr_ok(is_big(old(self).info.header.endianness), old(self).read.content(), old(self).info.header.full_index_offset as int)
            ==> r is Ok,
        [[L: full/first_call_reads_exactly_the_header]]
        old(self).info.header.full_index_tree_offset is None && r is Ok ==>
            final(self).read.pos() == old(self).info.header.full_index_offset + 48,
        [[L: full/cached_call_reads_nothing_and_cannot_fail]]
        old(self).info.header.full_index_tree_offset is Some ==> r is Ok && final(self).read == old(self).read,
        [[L: full/wrong_magic_is_unknown_magic]]
        old(self).info.header.full_index_tree_offset is None && old(self).read.env_ok()
            && tree_hdr_bad_magic(is_big(old(self).info.header.endianness), old(self).read.content(), old(self).info.header.full_index_offset as int)
            ==> r matches Err(FullDataCirTreeError::UnknownMagic),
        [[L: full/unknown_magic_only_for_a_stored_header_without_the_magic]]
        r matches Err(FullDataCirTreeError::UnknownMagic) ==> old(self).info.header.full_index_tree_offset is None
            && tree_hdr_bad_magic(is_big(old(self).info.header.endianness), old(self).read.content(), old(self).info.header.full_index_offset as int),
        [[L: full/io_error_only_for_a_short_file_or_a_failing_environment]]
        r matches Err(FullDataCirTreeError::IoError(_)) ==> old(self).info.header.full_index_tree_offset is None
            && (!old(self).read.env_ok() || old(self).info.header.full_index_offset + 48 > old(self).read.content().len()),
        [[L: full/first_success_caches_full_index_offset_plus_48_in_the_full_slot]]
        old(self).info.header.full_index_tree_offset is None && r is Ok ==>
            final(self).info.header.full_index_tree_offset == Some((old(self).info.header.full_index_offset + 48) as u64),
        [[L: full/cached_call_leaves_the_slot_alone]]
        old(self).info.header.full_index_tree_offset is Some ==>
            final(self).info.header.full_index_tree_offset == old(self).info.header.full_index_tree_offset,
        [[L: full/nothing_else_in_info_changes]]
        same_but_full_slot(old(self).info, final(self).info),
        [[L: full/an_error_caches_nothing]]
        r is Err ==> final(self).info.header.full_index_tree_offset == old(self).info.header.full_index_tree_offset,
        [[L: full/cache_coherence_is_kept]]
        offsets_ok(old(self).info) ==> offsets_ok(final(self).info),
//@end

//@extract fn bigtools/src/bbi/bbiread.rs zoom_cir_tree
//@rule R16
//@rule R8
//@sub /^(\s*)fn zoom_cir_tree/ => \1pub fn zoom_cir_tree min=1
//@sub /let \(reader, info\) = self\.reader_and_info\(\);/ => let reader = &mut self.read; let info = &mut self.info; min=1
//@sub /\s*\.raw_reader\(\)/ => "" min=0
//@sub /info\s*\.zoom_headers\s*\.iter_mut\(\)\s*\.find\(\|h\| h\.reduction_level == reduction_level\)/ => zoom_find_mut(&mut info.zoom_headers, reduction_level) min=0
//@sub /info\s*\.zoom_headers\s*\.iter_mut\(\)\s*\.rev\(\)\s*\.find\(\|h\| h\.reduction_level == reduction_level\)/ => zoom_rfind_mut(&mut info.zoom_headers, reduction_level) min=0
//@sub /info\s*\.zoom_headers\s*\.iter_mut\(\)\s*\.rfind\(\|h\| h\.reduction_level == reduction_level\)/ => zoom_rfind_mut(&mut info.zoom_headers, reduction_level) min=0
//@sub /info\s*\.zoom_headers\s*\.iter_mut\(\)(?:\s*\.rev\(\))?\s*\.r?find\(\|h\| [^|;]*?\)\s*\{/ => zoom_find_mut_any(&mut info.zoom_headers, reduction_level) { min=0
//@sub /\.seek\((?:io::)?SeekFrom::Start\(([^;]*?)\)\)/ => .seek_start(\1) min=0
//@sub /(\b\w+\s*\.seek_start\([^;]*?\))\s*\.map_err\(\|e\| (\w+)::IoError\(e\)\)\?;/ => match \1 { Ok(v__) => v__, Err(e) => return Err(\2::IoError(e)) }; min=0
//@sub /(read_cir_tree_header\([^;]*?\))\s*\.map_err\(\|e\| match e \{(.*?)\}\)\?;/ => match \1 { Ok(v__) => v__, Err(e) => return Err(match e {\2}) }; min=0
//@ret r
//@sig
    requires
        [[L: zoom/pre_a_cached_position_did_not_wrap_around]]
        first_level(old(self).info.zoom_headers@, reduction_level) matches Some(i) ==>
            (old(self).info.zoom_headers@[i].index_tree_offset is Some ==> old(self).info.zoom_headers@[i].index_offset + 48 <= u64::MAX),
    ensures
        [[L: zoom/unknown_level_is_reduction_level_not_found_and_nothing_changes]]
        first_level(old(self).info.zoom_headers@, reduction_level) is None ==>
            (r matches Err(ZoomDataCirTreeError::ReductionLevelNotFound)) && final(self).read == old(self).read
            && final(self).info.zoom_headers@ == old(self).info.zoom_headers@,
        [[L: zoom/level_not_found_only_for_an_unknown_level]]
        r matches Err(ZoomDataCirTreeError::ReductionLevelNotFound) ==> first_level(old(self).info.zoom_headers@, reduction_level) is None,
        [[L: zoom/answer_is_index_offset_plus_48_of_the_first_header_of_that_level_whatever_the_caches_hold]]
        r matches Ok(t) ==> (first_level(old(self).info.zoom_headers@, reduction_level) matches Some(i)
            && t.0 == CirTreeIndexType::Zoom(reduction_level) && t.1 == old(self).info.zoom_headers@[i].index_offset + 48),
        [[L: zoom/file_not_modified]]
        final(self).read.content() == old(self).read.content() && final(self).read.env_ok() == old(self).read.env_ok(),
        [[L: zoom/first_call_succeeds_only_if_the_header_at_index_offset_validates_in_the_files_byte_order]]
        first_level(old(self).info.zoom_headers@, reduction_level) matches Some(i) ==>
            (old(self).info.zoom_headers@[i].index_tree_offset is None && r is Ok ==>
                tree_hdr_ok(is_big(old(self).info.header.endianness), old(self).read.content(), old(self).info.zoom_headers@[i].index_offset as int)),
        [[L: zoom/first_call_accepts_a_valid_header]]
        first_level(old(self).info.zoom_headers@, reduction_level) matches Some(i) ==>
            (old(self).info.zoom_headers@[i].index_tree_offset is None && old(self).read.env_ok()
                && tree_hdr_ok(is_big(old(self).info.header.endianness), old(self).read.content(), old(self).info.zoom_headers@[i].index_offset as int)
                ==> r is Ok),
        [[L: zoom/first_call_reads_exactly_the_header]]
        first_level(old(self).info.zoom_headers@, reduction_level) matches Some(i) ==>
            (old(self).info.zoom_headers@[i].index_tree_offset is None && r is Ok ==>
                final(self).read.pos() == old(self).info.zoom_headers@[i].index_offset + 48),
        [[L: zoom/cached_call_reads_nothing_and_cannot_fail]]
        first_level(old(self).info.zoom_headers@, reduction_level) matches Some(i) ==>
            (old(self).info.zoom_headers@[i].index_tree_offset is Some ==> r is Ok && final(self).read == old(self).read),
        [[L: zoom/wrong_magic_is_unknown_magic]]
        first_level(old(self).info.zoom_headers@, reduction_level) matches Some(i) ==>
            (old(self).info.zoom_headers@[i].index_tree_offset is None && old(self).read.env_ok()
                && tree_hdr_bad_magic(is_big(old(self).info.header.endianness), old(self).read.content(), old(self).info.zoom_headers@[i].index_offset as int)
                ==> r matches Err(ZoomDataCirTreeError::UnknownMagic)),
        [[L: zoom/unknown_magic_only_for_a_stored_header_without_the_magic]]
        r matches Err(ZoomDataCirTreeError::UnknownMagic) ==> (first_level(old(self).info.zoom_headers@, reduction_level) matches Some(i)
            && old(self).info.zoom_headers@[i].index_tree_offset is None
            && tree_hdr_bad_magic(is_big(old(self).info.header.endianness), old(self).read.content(), old(self).info.zoom_headers@[i].index_offset as int)),
        [[L: zoom/io_error_only_for_a_short_file_or_a_failing_environment]]
        r matches Err(ZoomDataCirTreeError::IoError(_)) ==> (first_level(old(self).info.zoom_headers@, reduction_level) matches Some(i)
            && old(self).info.zoom_headers@[i].index_tree_offset is None
            && (!old(self).read.env_ok() || old(self).info.zoom_headers@[i].index_offset + 48 > old(self).read.content().len())),
        [[L: zoom/first_success_caches_index_offset_plus_48_in_that_headers_slot]]
        first_level(old(self).info.zoom_headers@, reduction_level) matches Some(i) ==>
            (old(self).info.zoom_headers@[i].index_tree_offset is None && r is Ok ==>
                final(self).info.zoom_headers@[i].index_tree_offset == Some((old(self).info.zoom_headers@[i].index_offset + 48) as u64)),
        [[L: zoom/cached_call_changes_nothing]]
        first_level(old(self).info.zoom_headers@, reduction_level) matches Some(i) ==>
            (old(self).info.zoom_headers@[i].index_tree_offset is Some ==> final(self).info.zoom_headers@ == old(self).info.zoom_headers@),
        [[L: zoom/header_and_full_slot_unchanged_only_the_matching_zoom_slot_may_change]]
        first_level(old(self).info.zoom_headers@, reduction_level) matches Some(i) ==> same_but_zoom_slot(old(self).info, final(self).info, i),
        [[L: zoom/info_header_unchanged]]
        final(self).info.header == old(self).info.header && final(self).info.filetype == old(self).info.filetype
            && final(self).info.chrom_info == old(self).info.chrom_info,
        [[L: zoom/an_error_caches_nothing]]
        r is Err ==> final(self).info.zoom_headers@ == old(self).info.zoom_headers@,
        [[L: zoom/cache_coherence_is_kept]]
        offsets_ok(old(self).info) ==> offsets_ok(final(self).info),
//@open
        proof { lemma_first_level_from(self.info.zoom_headers@, reduction_level, 0); }
//@end
}

// ---------------- "after any sequence of earlier queries" ----------------
// The drivers below call the two extracted methods above (nothing is re-implemented) with a symbolic history.
/// one tree lookup
pub enum Lookup { Full, Zoom(u32) }
/// its outcome
pub enum Answer { Tree(CirTreeIndex), UnknownMagic, LevelNotFound, Io }

/// what the FILE says about the tree at `at` (no cache involved)
pub open spec fn tree_answer(big: bool, c: Seq<u8>, kind: CirTreeIndexType, at: u64) -> Answer {
    if tree_hdr_ok(big, c, at as int) { Answer::Tree(CirTreeIndex(kind, (at + 48) as u64)) }
    else if tree_hdr_bad_magic(big, c, at as int) { Answer::UnknownMagic }
    else { Answer::Io }
}
/// what the file says about lookup q: a function of the header fields read from the file (`full_index_offset`,
/// the zoom directory's levels and `index_offset`s, the byte order) and of the file content - NOT of the caches
pub open spec fn file_answer(info: BBIFileInfo, c: Seq<u8>, q: Lookup) -> Answer {
    match q {
        Lookup::Full => tree_answer(is_big(info.header.endianness), c, CirTreeIndexType::FullData, info.header.full_index_offset),
        Lookup::Zoom(l) => match first_level(info.zoom_headers@, l) {
            None => Answer::LevelNotFound,
            Some(i) => tree_answer(is_big(info.header.endianness), c, CirTreeIndexType::Zoom(l), info.zoom_headers@[i].index_offset),
        },
    }
}
/// a and b describe the same file: they differ at most in the cache slots
pub open spec fn same_file(a: BBIFileInfo, b: BBIFileInfo) -> bool {
    &&& b.header == BBIHeader { full_index_tree_offset: b.header.full_index_tree_offset, ..a.header }
    &&& b.zoom_headers@.len() == a.zoom_headers@.len()
    &&& forall|j: int| 0 <= j < a.zoom_headers@.len() ==>
            #[trigger] b.zoom_headers@[j] == ZoomHeader { index_tree_offset: b.zoom_headers@[j].index_tree_offset, ..a.zoom_headers@[j] }
}
/// the invariant of a reader over file content c: coherent AND every cached position was validated
pub open spec fn caches_valid(info: BBIFileInfo, c: Seq<u8>) -> bool {
    &&& offsets_ok(info)
    &&& info.header.full_index_tree_offset is Some ==> tree_hdr_ok(is_big(info.header.endianness), c, info.header.full_index_offset as int)
    &&& forall|i: int| 0 <= i < info.zoom_headers@.len() ==>
            ((#[trigger] info.zoom_headers@[i]).index_tree_offset is Some ==>
                tree_hdr_ok(is_big(info.header.endianness), c, info.zoom_headers@[i].index_offset as int))
}
pub proof fn lemma_first_level_same_file(a: Seq<ZoomHeader>, b: Seq<ZoomHeader>, l: u32, i: int)
    requires a.len() == b.len(), forall|j: int| 0 <= j < a.len() ==> (#[trigger] a[j]).reduction_level == b[j].reduction_level,
    ensures first_level_from(a, l, i) == first_level_from(b, l, i),
    decreases a.len() - i
{
    if 0 <= i < a.len() { assert(a[i].reduction_level == b[i].reduction_level); lemma_first_level_same_file(a, b, l, i + 1); }
}
pub proof fn lemma_file_answer_ignores_the_caches(a: BBIFileInfo, b: BBIFileInfo, c: Seq<u8>, q: Lookup)
    requires same_file(a, b),
    ensures
        [[L: driver/file_answer_is_independent_of_the_cache_state]]
        file_answer(a, c, q) == file_answer(b, c, q),
{
    assert forall|j: int| 0 <= j < a.zoom_headers@.len() implies (#[trigger] a.zoom_headers@[j]).reduction_level == b.zoom_headers@[j].reduction_level by {
        assert(b.zoom_headers@[j].reduction_level == a.zoom_headers@[j].reduction_level);
    }
    if let Lookup::Zoom(l) = q {
        lemma_first_level_same_file(a.zoom_headers@, b.zoom_headers@, l, 0);
        lemma_first_level_from(a.zoom_headers@, l, 0);
        if let Some(i) = first_level(a.zoom_headers@, l) { assert(b.zoom_headers@[i].index_offset == a.zoom_headers@[i].index_offset); }
    }
}

/// one lookup through the extracted methods
fn lookup(b: &mut VBbi, q: &Lookup) -> (a: Answer)
    requires
        caches_valid(old(b).info, old(b).read.content()),
    ensures
        [[L: driver/lookup_keeps_the_reader_coherent_and_validated_for_the_same_file]]
        caches_valid(final(b).info, final(b).read.content()) && same_file(old(b).info, final(b).info)
            && final(b).read.content() == old(b).read.content() && final(b).read.env_ok() == old(b).read.env_ok(),
        [[L: driver/a_tree_answer_is_the_files_answer_whatever_the_caches_hold]]
        a is Tree ==> a == file_answer(old(b).info, old(b).read.content(), *q),
        [[L: driver/without_io_failures_every_answer_is_the_files_answer]]
        old(b).read.env_ok() ==> a == file_answer(old(b).info, old(b).read.content(), *q),
{
    proof {
        if let Lookup::Zoom(l) = *q { lemma_first_level_from(b.info.zoom_headers@, l, 0); }
    }
    match q {
        Lookup::Full => match b.full_data_cir_tree() {
            Ok(t) => Answer::Tree(t),
            Err(FullDataCirTreeError::UnknownMagic) => Answer::UnknownMagic,
            Err(FullDataCirTreeError::IoError(_)) => Answer::Io,
        },
        Lookup::Zoom(l) => match b.zoom_cir_tree(*l) {
            Ok(t) => Answer::Tree(t),
            Err(ZoomDataCirTreeError::UnknownMagic) => Answer::UnknownMagic,
            Err(ZoomDataCirTreeError::ReductionLevelNotFound) => Answer::LevelNotFound,
            Err(ZoomDataCirTreeError::IoError(_)) => Answer::Io,
        },
    }
}

/// run an arbitrary history of lookups on one reader; answers are discarded
fn replay(b: &mut VBbi, ops: &Vec<Lookup>)
    requires
        caches_valid(old(b).info, old(b).read.content()),
    ensures
        [[L: driver/any_history_keeps_the_reader_coherent_and_validated_for_the_same_file]]
        caches_valid(final(b).info, final(b).read.content()) && same_file(old(b).info, final(b).info)
            && final(b).read.content() == old(b).read.content() && final(b).read.env_ok() == old(b).read.env_ok(),
{
    let mut i: usize = 0;
    while i < ops.len()
        invariant
            [[L: driver/loop_invariant]]
            caches_valid(b.info, b.read.content()) && same_file(old(b).info, b.info)
                && b.read.content() == old(b).read.content() && b.read.env_ok() == old(b).read.env_ok(),
        decreases
            [[L: driver/termination]]
            ops.len() - i,
    {
        let _ = lookup(b, &ops[i]);
        i = i + 1;
    }
}

/// A reader as `read_info` leaves it (no caches), ANY history of lookups, then the lookup q: the answer equals
/// the answer a FRESH reader of the same file gives to q.
fn driver_last_lookup_equals_a_fresh_readers(c: VBbi, fresh: VBbi, ops: &Vec<Lookup>, q: &Lookup) -> (r: (Answer, Answer))
    requires
        no_caches(c.info), no_caches(fresh.info), same_file(c.info, fresh.info),
        c.read.content() == fresh.read.content(),
    ensures
        [[L: driver/tree_answers_after_any_history_equal_the_fresh_readers]]
        r.0 is Tree && r.1 is Tree ==> r.0 == r.1,
        [[L: driver/without_io_failures_the_whole_answer_after_any_history_equals_the_fresh_readers]]
        c.read.env_ok() && fresh.read.env_ok() ==> r.0 == r.1,
{
    let mut c = c;
    let mut fresh = fresh;
    let ghost c0 = c.info;
    replay(&mut c, ops);
    proof {
        lemma_file_answer_ignores_the_caches(c0, c.info, c.read.content(), *q);
        lemma_file_answer_ignores_the_caches(c0, fresh.info, c.read.content(), *q);
    }
    let a = lookup(&mut c, q);
    let b = lookup(&mut fresh, q);
    (a, b)
}

} // verus!
fn main() {}
