//@unit asql_loops
//@serves C19
//@backend verus
// autoSql schema parser (bed::autosql::parse): grammar-level functions over a trusted tokenizer.
// Property clause (C19): "The schema parser terminates on every string, returning declarations
// or an error, without panicking, hanging or growing without bound."
//   terminates / no hang : every loop carries `decreases len - pos`; the call graph
//                          parse_autosql -> parse_declaration_list -> parse_declaration ->
//                          parse_field_list -> FieldType::try_parse -> DeclareName::parse is acyclic
//   no panic             : R6 turns any assert!/panic!/unreachable! into an obligation (none today);
//                          no unwrap/indexing occurs in these functions
//   no unbounded growth  : every Vec returned is no longer than the number of input bytes consumed
use vstd::prelude::*;
verus! {

/// R6 target: panic!/unreachable!/unimplemented!/todo! become a call that must be proved unreachable.
/// (No such macro occurs in the extracted functions today: R6 reports 0 hits.)
#[verifier::external_body]
pub fn vpanic() -> !
    requires false
{ panic!() }

// ---------------------------------------------------------------------------------------------
// Tok: opaque stand-in for the `&'a str` tokens handed out by the tokenizer.  String *content* is
// outside Verus; the only facts kept are "is it empty" and "which literal of the grammar is it".
// ---------------------------------------------------------------------------------------------
#[allow(non_camel_case_types)]
#[derive(Clone, Copy, PartialEq, Eq)]
pub enum Lit {
    Empty, LParen, RParen, LBracket, RBracket, Semi, Comma,
    W_primary, W_index, W_unique, W_auto,
    W_int, W_uint, W_short, W_ushort, W_byte, W_ubyte, W_float, W_double, W_char, W_string,
    W_lstring, W_bigint, W_enum, W_set, W_simple, W_object, W_table,
    Other,
}

#[derive(Clone, Copy)]
pub struct Tok { pub id: usize }

impl Tok {
    /// text == ""
    pub uninterp spec fn empty(&self) -> bool;
    /// the literal of the grammar the text is equal to (Other if none)
    pub uninterp spec fn lit(&self) -> Lit;
    /// str::to_lowercase
    pub uninterp spec fn lower(&self) -> Tok;

    /// `s.is_empty()`
    #[verifier::external_body]
    fn is_empty(&self) -> (b: bool)
        ensures b == self.empty(),
    { unimplemented!() }
    /// `s == "<literal>"`; the literal "" is the only empty one
    #[verifier::external_body]
    fn eq_lit(&self, l: Lit) -> (b: bool)
        ensures b == (self.lit() == l), (self.lit() == Lit::Empty) == self.empty(),
    { unimplemented!() }
    /// comparison with a string literal the grammar units do not name: unknown result (so that an edit that
    /// introduces one is judged by the contracts instead of being rejected by the front end)
    #[verifier::external_body]
    fn eq_other(&self) -> (b: bool) { unimplemented!() }
    /// `s != "<literal>"`
    #[verifier::external_body]
    fn ne_lit(&self, l: Lit) -> (b: bool)
        ensures b == (self.lit() != l), (self.lit() == Lit::Empty) == self.empty(),
    { unimplemented!() }
    /// scrutinee of `match s { "<literal>" => .., _ => .. }`
    #[verifier::external_body]
    fn kind(&self) -> (k: Lit)
        ensures k == self.lit(), (k == Lit::Empty) == self.empty(),
    { unimplemented!() }
    /// `s.to_string()`: the owned copy is the same text
    #[verifier::external_body]
    fn to_string(&self) -> (r: Tok)
        ensures r == *self,
    { unimplemented!() }
    /// `s.to_lowercase()`: "" is the only string whose lower-casing is ""
    #[verifier::external_body]
    fn to_lowercase(&self) -> (r: Tok)
        ensures r == self.lower(), r.empty() == self.empty(),
    { unimplemented!() }
    /// `s.as_bytes()[i]` (not used by the code today; present so that an edit validating names byte-wise is judged):
    /// indexing PANICS past the end -- in particular `[0]` on the empty token the parser returns at end of input
    #[verifier::external_body]
    fn byte_at(&self, i: usize) -> (r: u8)
        requires !self.empty(), i == 0,
    { unimplemented!() }
    /// `s.bytes().any(..)` / `s.bytes().all(..)` with some predicate: nothing known about the answer
    #[verifier::external_body]
    fn any_char_unknown(&self) -> (b: bool) { unimplemented!() }
    /// the characters of the text, in order (`s.chars()`)
    pub uninterp spec fn text(&self) -> Seq<char>;
    /// `s.chars().collect::<Vec<char>>()`: the characters; "" is the text without characters
    #[verifier::external_body]
    fn char_vec(&self) -> (v: Vec<char>)
        ensures v@ == self.text(), self.empty() == (self.text().len() == 0),
    { unimplemented!() }
}

// ---------------------------------------------------------------------------------------------
// `s.chars()` idioms (real contracts, VERIFIED over `char_vec`) and the `char` classification methods
// (uninterpreted predicates + the facts of Unicode that matter here, see `char_facts`).
// ---------------------------------------------------------------------------------------------
/// `s.chars().next()`: the first character, None for ""
fn chars_first(t: &Tok) -> (r: Option<char>)
    ensures
        t.empty() == (t.text().len() == 0),
        t.text().len() == 0 ==> r is None,
        t.text().len() > 0 ==> r == Some(t.text()[0]),
{
    let v = t.char_vec();
    if v.len() > 0 { Some(v[0]) } else { None }
}
/// `s.chars().any(f)`: true iff f answers true for some character (std stops at the first such character; f has no
/// effects here, so the calls it does not make cannot be told apart)
fn chars_any<F: Fn(char) -> bool>(t: &Tok, f: F) -> (r: bool)
    requires forall|c: char| f.requires((c,)),
    ensures
        t.empty() == (t.text().len() == 0),
        r ==> exists|i: int| 0 <= i < t.text().len() && f.ensures((#[trigger] t.text()[i],), true),
        !r ==> forall|i: int| 0 <= i < t.text().len() ==> f.ensures((#[trigger] t.text()[i],), false),
{
    let v = t.char_vec();
    let mut k: usize = 0;
    while k < v.len()
        invariant k <= v.len(), v@ == t.text(), t.empty() == (t.text().len() == 0),
            forall|i: int| 0 <= i < k ==> f.ensures((#[trigger] t.text()[i],), false),
            forall|c: char| f.requires((c,)),
        decreases v.len() - k,
    {
        if f(v[k]) { return true; }
        k = k + 1;
    }
    false
}
/// `s.chars().all(f)`: true iff f answers true for every character (true for "")
fn chars_all<F: Fn(char) -> bool>(t: &Tok, f: F) -> (r: bool)
    requires forall|c: char| f.requires((c,)),
    ensures
        t.empty() == (t.text().len() == 0),
        r ==> forall|i: int| 0 <= i < t.text().len() ==> f.ensures((#[trigger] t.text()[i],), true),
        !r ==> exists|i: int| 0 <= i < t.text().len() && f.ensures((#[trigger] t.text()[i],), false),
{
    let v = t.char_vec();
    let mut k: usize = 0;
    while k < v.len()
        invariant k <= v.len(), v@ == t.text(), t.empty() == (t.text().len() == 0),
            forall|i: int| 0 <= i < k ==> f.ensures((#[trigger] t.text()[i],), true),
            forall|c: char| f.requires((c,)),
        decreases v.len() - k,
    {
        if !f(v[k]) { return false; }
        k = k + 1;
    }
    true
}
/// Unicode `Alphabetic` / numeric (Nd, Nl, No) properties: uninterpreted
pub uninterp spec fn is_alpha(c: char) -> bool;
pub uninterp spec fn is_numeric(c: char) -> bool;
pub open spec fn is_alnum(c: char) -> bool { is_alpha(c) || is_numeric(c) }
pub open spec fn ascii_letter(c: char) -> bool { ('a' <= c && c <= 'z') || ('A' <= c && c <= 'Z') }
pub open spec fn ascii_digit(c: char) -> bool { '0' <= c && c <= '9' }
pub open spec fn ascii_letter_r(c: &char) -> bool { ascii_letter(*c) }
pub open spec fn ascii_digit_r(c: &char) -> bool { ascii_digit(*c) }
pub open spec fn ascii_alnum_r(c: &char) -> bool { ascii_letter(*c) || ascii_digit(*c) }
#[verifier::when_used_as_spec(is_alpha)]
pub assume_specification [char::is_alphabetic] (c: char) -> (b: bool) ensures b == is_alpha(c);
#[verifier::when_used_as_spec(is_numeric)]
pub assume_specification [char::is_numeric] (c: char) -> (b: bool) ensures b == is_numeric(c);
/// std: `self.is_alphabetic() || self.is_numeric()`
#[verifier::when_used_as_spec(is_alnum)]
pub assume_specification [char::is_alphanumeric] (c: char) -> (b: bool) ensures b == is_alnum(c);
#[verifier::when_used_as_spec(ascii_digit_r)]
pub assume_specification [char::is_ascii_digit] (c: &char) -> (b: bool) ensures b == ascii_digit(*c);
#[verifier::when_used_as_spec(ascii_letter_r)]
pub assume_specification [char::is_ascii_alphabetic] (c: &char) -> (b: bool) ensures b == ascii_letter(*c);
#[verifier::when_used_as_spec(ascii_alnum_r)]
pub assume_specification [char::is_ascii_alphanumeric] (c: &char) -> (b: bool) ensures b == (ascii_letter(*c) || ascii_digit(*c));
/// the facts about the uninterpreted classes that matter (all true of Unicode): an ASCII letter is alphabetic (hence
/// alphanumeric) and not numeric; an ASCII digit is numeric (hence alphanumeric) and NOT alphabetic; the blank and the
/// underscore are neither
pub open spec fn char_facts() -> bool {
    &&& forall|c: char| ascii_letter(c) ==> #[trigger] is_alpha(c)
    &&& forall|c: char| ascii_letter(c) ==> !#[trigger] is_numeric(c)
    &&& forall|c: char| ascii_digit(c) ==> #[trigger] is_numeric(c)
    &&& forall|c: char| ascii_digit(c) ==> !#[trigger] is_alpha(c)
    &&& !is_alpha(' ') && !is_numeric(' ') && !is_alpha('_') && !is_numeric('_')
}
#[verifier::external_body]
pub proof fn char_class_facts() ensures char_facts() { }

/// the names the schema generator emits (unit asql_gen `extra_columns_named_standard_then_numbered`: `table bed`, the
/// standard BED names `name`, `thickStart`, .. then `field16`, `field17`, ..) and UCSC-style `name2`: an ASCII letter,
/// then ASCII letters and digits.  C19 "parses every schema the generator emits": `InvalidDeclareName` -- the one error
/// the parser has for a NAME -- is never reported for such a name, be it a table name, a type name or a field name.
/// (The underscore is left out: the declaration-name rule of /repo refuses it, and the generator never emits it.)
pub open spec fn generator_style_name(s: Seq<char>) -> bool {
    &&& s.len() > 0 && ascii_letter(s[0])
    &&& forall|i: int| 0 <= i < s.len() ==> ascii_letter(#[trigger] s[i]) || ascii_digit(s[i])
}

// ---------------------------------------------------------------------------------------------
// VParser: stand-in for parse::parser::Parser<'a> {data, start_cursor, end_cursor}.
//   pos() = start_cursor, end() = end_cursor (end of the last peeked token), len() = data.len().
// TRUSTED TOKENIZER CONTRACT (argued from the real code in NOTES.md; to be checked by the planned
// bounded Kani unit asql_tok):
//   * wf: 0 <= pos <= end <= len is preserved by every public method; len never changes
//   * pos never decreases
//   * peek_*: may skip whitespace (pos' >= pos); the token is data[pos'..end'], so it is
//     non-empty  <=>  end' > pos'
//   * take(): pos' = end' = old end; the token is empty <=> old pos == old end
//   * eat_X = peek_X; take  =>  a non-empty token strictly advances pos
//   * peek_word/eat_word/peek_one/eat_one return "" ONLY at end of input (pos' == len);
//     the quoted-string variants also return "" when the next character is not a quote.
// ---------------------------------------------------------------------------------------------
pub uninterp spec fn str_len(s: &str) -> int;

#[verifier::external_body]
pub struct VParser { _p: u8 }

impl VParser {
    pub uninterp spec fn pos(&self) -> int;
    pub uninterp spec fn end(&self) -> int;
    pub uninterp spec fn len(&self) -> int;
    pub open spec fn wf(&self) -> bool { 0 <= self.pos() <= self.end() <= self.len() }

    #[verifier::external_body]
    fn of(data: &str) -> (p: VParser)
        ensures p.wf(), p.pos() == 0, p.len() == str_len(data), str_len(data) >= 0,
    { unimplemented!() }

    #[verifier::external_body]
    fn take(&mut self) -> (t: Tok)
        requires old(self).wf(),
        ensures final(self).wf(), final(self).len() == old(self).len(),
            final(self).pos() == old(self).end(), final(self).end() == old(self).end(),
            t.empty() == (old(self).pos() == old(self).end()),
    { unimplemented!() }

    #[verifier::external_body]
    fn peek_word(&mut self) -> (t: Tok)
        requires old(self).wf(),
        ensures final(self).wf(), final(self).len() == old(self).len(),
            final(self).pos() >= old(self).pos(),
            t.empty() == (final(self).end() == final(self).pos()),
            t.empty() ==> final(self).pos() == final(self).len(),
    { unimplemented!() }

    #[verifier::external_body]
    fn eat_word(&mut self) -> (t: Tok)
        requires old(self).wf(),
        ensures final(self).wf(), final(self).len() == old(self).len(),
            final(self).pos() >= old(self).pos(), final(self).end() == final(self).pos(),
            !t.empty() ==> final(self).pos() > old(self).pos(),
            t.empty() ==> final(self).pos() == final(self).len(),
    { unimplemented!() }

    #[verifier::external_body]
    fn peek_one(&mut self) -> (t: Tok)
        requires old(self).wf(),
        ensures final(self).wf(), final(self).len() == old(self).len(),
            final(self).pos() >= old(self).pos(),
            t.empty() == (final(self).end() == final(self).pos()),
            t.empty() ==> final(self).pos() == final(self).len(),
    { unimplemented!() }

    #[verifier::external_body]
    fn eat_one(&mut self) -> (t: Tok)
        requires old(self).wf(),
        ensures final(self).wf(), final(self).len() == old(self).len(),
            final(self).pos() >= old(self).pos(), final(self).end() == final(self).pos(),
            !t.empty() ==> final(self).pos() > old(self).pos(),
            t.empty() ==> final(self).pos() == final(self).len(),
    { unimplemented!() }

    #[verifier::external_body]
    fn peek_quoted_string(&mut self) -> (t: Tok)
        requires old(self).wf(),
        ensures final(self).wf(), final(self).len() == old(self).len(),
            final(self).pos() >= old(self).pos(),
            t.empty() == (final(self).end() == final(self).pos()),
    { unimplemented!() }

    #[verifier::external_body]
    fn eat_quoted_string(&mut self) -> (t: Tok)
        requires old(self).wf(),
        ensures final(self).wf(), final(self).len() == old(self).len(),
            final(self).pos() >= old(self).pos(), final(self).end() == final(self).pos(),
            !t.empty() ==> final(self).pos() > old(self).pos(),
    { unimplemented!() }
}

// ---------------------------------------------------------------------------------------------
// Data types of bed::autosql::parse (extracted; String -> Tok; Debug derives dropped by R8).
// ---------------------------------------------------------------------------------------------
//@extract enum bigtools/src/bed/autosql.rs ParseError
//@rule R8
//@sub /\(String\)/ => (Tok) min=7
//@end
//@extract enum bigtools/src/bed/autosql.rs DeclarationType
//@rule R8
//@end
//@extract enum bigtools/src/bed/autosql.rs IndexType
//@rule R8
//@sub /#\[derive\(Clone\)\]\s*\n\s*/ => ""
//@sub /Option<String>/ => Option<Tok>
//@end
//@extract struct bigtools/src/bed/autosql.rs DeclareName
//@rule R8
//@sub /#\[derive\(Clone\)\]\s*\n\s*/ => ""
//@sub /: String,/ => : Tok,
//@end
//@extract struct bigtools/src/bed/autosql.rs Declaration
//@rule R8
//@sub /#\[derive\(Clone\)\]\s*\n\s*/ => ""
//@sub /: String,/ => : Tok,
//@end
//@extract enum bigtools/src/bed/autosql.rs FieldType
//@rule R8
//@sub /#\[derive\(Clone\)\]\s*\n\s*/ => ""
//@sub /Vec<String>/ => Vec<Tok> min=2
//@end
//@extract struct bigtools/src/bed/autosql.rs Field
//@rule R8
//@sub /#\[derive\(Clone\)\]\s*\n\s*/ => ""
//@sub /Option<String>/ => Option<Tok>
//@sub /: String,/ => : Tok, min=2
//@end

/// number of symbolic values of an enum/set field type (0 for the others)
pub open spec fn n_values(ft: FieldType) -> int {
    match ft {
        FieldType::Enum(v) => v@.len() as int,
        FieldType::Set(v) => v@.len() as int,
        _ => 0,
    }
}

/// `u8::is_ascii_alphabetic` and friends: nothing known about the answer
#[verifier::external_body]
fn u8_class(b: u8) -> (r: bool) { unimplemented!() }

impl DeclareName {
//@extract method bigtools/src/bed/autosql.rs parse "impl DeclareName"
//@presub /\s+\.(?=[a-z_0-9])/ => . min=0
//@rule R16
//@rule R6
//@rule R8
//@sub /parser::Parser<'_>/ => VParser
//@sub /(\w+)\.as_bytes\(\)\[(\d+)\]\.is_ascii_\w+\(\)/ => u8_class(\1.byte_at(\2)) min=0
//@sub /(\w+)\.as_bytes\(\)\[(\d+)\]/ => \1.byte_at(\2) min=0
//@sub /(\w+)\.chars\(\)\.next\(\)/ => chars_first(&\1) min=0
//@sub /(\w+)\.chars\(\)\.(any|all)\(\|(\w+)\| ((?:[^()]|\((?:[^()]|\([^()]*\))*\))*)\)/ => chars_\2(&\1, |\3: char| -> (b__: bool) ensures b__ == (\4) { \4 }) min=0
//@sub /(\w+)\.chars\(\)\.(any|all)\(char::(\w+)\)/ => chars_\2(&\1, |c__: char| -> (b__: bool) ensures b__ == c__.\3() { c__.\3() }) min=0
//@sub /\.bytes\(\)\.(?:any|all)\(\|\w+\| (?:[^()]|\([^()]*\))*\)/ => .any_char_unknown() min=0
//@sub /match next_word \{/ => match next_word.kind() {
//@sub /"(\w+)" =>/ => Lit::W_\1 =>
//@sub / == "(\w+)"/ => .eq_lit(Lit::W_\1)
//@sub / == "\["/ => .eq_lit(Lit::LBracket)
//@sub / != "\]"/ => .ne_lit(Lit::RBracket)
//@ret r
//@sig
        requires
            [[L: pre]]
            old(parser).wf(),
        ensures
            [[L: cursor_monotone]]
            final(parser).wf(), final(parser).len() == old(parser).len(),
            final(parser).pos() >= old(parser).pos(),
            [[L: ok_consumes_input]]
            r is Ok ==> final(parser).pos() > old(parser).pos(),
            [[L: accepts/a_declaration_name_like_the_generators_letter_then_letters_and_digits_is_never_refused]]
            r matches Err(ParseError::InvalidDeclareName(t)) ==> !generator_style_name(t.text()),
//@open
            proof { char_class_facts(); }
//@end
}

impl FieldType {
//@extract method bigtools/src/bed/autosql.rs try_parse "impl FieldType"
//@presub /\s+\.(?=[a-z_0-9])/ => . min=0
//@rule R16
//@rule R6
//@rule R8
//@sub /parser::Parser<'_>/ => VParser
//@sub /: &str = &parser/ => = parser
//@sub /match field_type \{/ => match field_type.kind() {
//@sub /"(\w+)" =>/ => Lit::W_\1 =>
//@sub / != "\("/ => .ne_lit(Lit::LParen) min=2
//@sub / == "\("/ => .eq_lit(Lit::LParen) min=0
//@sub / == "\)"/ => .eq_lit(Lit::RParen) min=2
//@sub / == ","/ => .eq_lit(Lit::Comma) min=0
//@sub / == ";"/ => .eq_lit(Lit::Semi) min=0
//@sub /(\w+)\.chars\(\)\.next\(\)/ => chars_first(&\1) min=0
//@sub /(\w+)\.chars\(\)\.(any|all)\(\|(\w+)\| ((?:[^()]|\((?:[^()]|\([^()]*\))*\))*)\)/ => chars_\2(&\1, |\3: char| -> (b__: bool) ensures b__ == (\4) { \4 }) min=0
//@sub /(\w+)\.chars\(\)\.(any|all)\(char::(\w+)\)/ => chars_\2(&\1, |c__: char| -> (b__: bool) ensures b__ == c__.\3() { c__.\3() }) min=0
//@sub / == "[^"]*"/ => .eq_other() min=0
//@sub /vec!\[\]/ => Vec::<Tok>::new() min=2
//@ret r
//@sig
        requires
            [[L: pre]]
            old(parser).wf(),
        ensures
            [[L: cursor_monotone]]
            final(parser).wf(), final(parser).len() == old(parser).len(),
            final(parser).pos() >= old(parser).pos(),
            [[L: some_type_consumes_input]]
            (r is Ok && r->Ok_0 is Some) ==> final(parser).pos() > old(parser).pos(),
            [[L: values_bounded_by_consumed_input]]
            (r is Ok && r->Ok_0 is Some) ==> n_values(r->Ok_0->Some_0) <= final(parser).pos() - old(parser).pos(),
            [[L: accepts/a_type_name_of_a_letter_then_letters_and_digits_is_never_refused]]
            r matches Err(ParseError::InvalidDeclareName(t)) ==> !generator_style_name(t.text()),
//@at /let mut values = / nth=1 after
                    let ghost p0 = parser.pos();
//@loop 1
                        invariant
                            [[L: enum_loop/cursor]]
                            parser.wf(), parser.len() == old(parser).len(),
                            old(parser).pos() < p0 <= parser.pos(),
                            [[L: enum_loop/values_bounded]]
                            values@.len() <= parser.pos() - p0,
                        decreases
                            [[L: enum_loop/termination]]
                            parser.len() - parser.pos(),
//@at /let mut values = / nth=2 after
                    let ghost p0 = parser.pos();
//@loop 2
                        invariant
                            [[L: set_loop/cursor]]
                            parser.wf(), parser.len() == old(parser).len(),
                            old(parser).pos() < p0 <= parser.pos(),
                            [[L: set_loop/values_bounded]]
                            values@.len() <= parser.pos() - p0,
                        decreases
                            [[L: set_loop/termination]]
                            parser.len() - parser.pos(),
//@end
}

//@extract fn bigtools/src/bed/autosql.rs parse_field_list
//@presub /\s+\.(?=[a-z_0-9])/ => . min=0
//@rule R16
//@rule R6
//@rule R8
//@sub /parser::Parser<'_>/ => VParser
//@sub /match next_word \{/ => match next_word.kind() {
//@sub /"(\w+)" =>/ => Lit::W_\1 =>
//@sub / == "(\w+)"/ => .eq_lit(Lit::W_\1)
//@sub / == "\["/ => .eq_lit(Lit::LBracket) min=2
//@sub / != "\]"/ => .ne_lit(Lit::RBracket) min=2
//@sub / != ";"/ => .ne_lit(Lit::Semi)
//@sub / == "\)"/ => .eq_lit(Lit::RParen)
//@sub / == ","/ => .eq_lit(Lit::Comma) min=0
//@sub / == ";"/ => .eq_lit(Lit::Semi) min=0
//@sub /(\w+)\.chars\(\)\.next\(\)/ => chars_first(&\1) min=0
//@sub /(\w+)\.chars\(\)\.(any|all)\(\|(\w+)\| ((?:[^()]|\((?:[^()]|\([^()]*\))*\))*)\)/ => chars_\2(&\1, |\3: char| -> (b__: bool) ensures b__ == (\4) { \4 }) min=0
//@sub /(\w+)\.chars\(\)\.(any|all)\(char::(\w+)\)/ => chars_\2(&\1, |c__: char| -> (b__: bool) ensures b__ == c__.\3() { c__.\3() }) min=0
//@sub / == "[^"]*"/ => .eq_other() min=0
//@sub /vec!\[\]/ => Vec::<Field>::new()
//@ret r
//@sig
    requires
        [[L: pre]]
        old(parser).wf(),
    ensures
        [[L: cursor_monotone]]
        final(parser).wf(), final(parser).len() == old(parser).len(),
        final(parser).pos() >= old(parser).pos(),
        [[L: fields_bounded_by_consumed_input]]
        r is Ok ==> r->Ok_0@.len() <= final(parser).pos() - old(parser).pos(),
        [[L: accepts/a_field_named_like_the_generators_fields_letter_then_letters_and_digits_is_never_refused_for_its_name]]
        r matches Err(ParseError::InvalidDeclareName(t)) ==> !generator_style_name(t.text()),
//@open
        proof { char_class_facts(); }
//@loop 1
            invariant
                [[L: loop/cursor]]
                parser.wf(), parser.len() == old(parser).len(),
                parser.pos() >= old(parser).pos(), char_facts(),
                [[L: loop/fields_bounded]]
                fields@.len() <= parser.pos() - old(parser).pos(),
            decreases
                [[L: loop/termination]]
                parser.len() - parser.pos(),
//@at /let semicolon = / before
            let ghost p_sep = parser.pos();
//@at /let comment = / before
            assert(parser.pos() > p_sep); [[L: loop/separator_consumed]]
//@end

//@extract fn bigtools/src/bed/autosql.rs parse_declaration
//@rule R16
//@rule R6
//@rule R8
//@sub /parser::Parser<'_>/ => VParser
//@sub /match declare_type \{/ => match declare_type.kind() {
//@sub /"(\w+)" =>/ => Lit::W_\1 =>
//@sub /"" =>/ => Lit::Empty =>
//@sub / != "\("/ => .ne_lit(Lit::LParen)
//@sub / != "\)"/ => .ne_lit(Lit::RParen)
//@ret r
//@sig
    requires
        [[L: pre]]
        old(parser).wf(),
    ensures
        [[L: cursor_monotone]]
        final(parser).wf(), final(parser).len() == old(parser).len(),
        final(parser).pos() >= old(parser).pos(),
        [[L: declaration_consumes_input]]
        (r is Ok && r->Ok_0 is Some) ==> final(parser).pos() > old(parser).pos(),
        [[L: fields_bounded_by_consumed_input]]
        (r is Ok && r->Ok_0 is Some) ==> r->Ok_0->Some_0.fields@.len() <= final(parser).pos() - old(parser).pos(),
        [[L: none_only_at_end_of_input]]
        (r is Ok && r->Ok_0 is None) ==> final(parser).pos() == final(parser).len(),
//@end

//@extract fn bigtools/src/bed/autosql.rs parse_declaration_list
//@rule R16
//@rule R6
//@rule R8
//@sub /parser::Parser<'_>/ => VParser
//@sub /vec!\[\]/ => Vec::<Declaration>::new()
//@ret r
//@sig
    requires
        [[L: pre]]
        old(parser).wf(),
    ensures
        [[L: cursor_monotone]]
        final(parser).wf(), final(parser).len() == old(parser).len(),
        final(parser).pos() >= old(parser).pos(),
        [[L: declarations_bounded_by_consumed_input]]
        r is Ok ==> r->Ok_0@.len() <= final(parser).pos() - old(parser).pos(),
        [[L: ok_only_at_end_of_input_or_after_four_declarations]]
        r is Ok ==> (final(parser).pos() == final(parser).len() || r->Ok_0@.len() == 4),
//@loop 1
            invariant_except_break
                [[L: loop/one_declaration_per_round_until_end_of_input]]
                declarations@.len() == i || parser.pos() == parser.len(),
            invariant
                [[L: loop/cursor]]
                parser.wf(), parser.len() == old(parser).len(),
                parser.pos() >= old(parser).pos(),
                [[L: loop/counter_in_range]]
                0 <= i <= 4,
                [[L: loop/declarations_bounded]]
                declarations@.len() <= parser.pos() - old(parser).pos(),
            ensures
                [[L: loop/exit_at_end_of_input_or_cap]]
                parser.pos() == parser.len() || declarations@.len() == 4,
            decreases
                [[L: loop/termination]]
                parser.len() - parser.pos(), 4 - i,
//@end

//@extract fn bigtools/src/bed/autosql.rs parse_autosql
//@rule R16
//@rule R6
//@rule R8
//@sub /parser::Parser::of/ => VParser::of
//@ret r
//@sig
    ensures
        [[L: declarations_bounded_by_input_length]]
        r is Ok ==> r->Ok_0@.len() <= str_len(data),
//@end

} // verus!
fn main() {}
