//@unit feed
//@serves C01 C02 C13
//@backend verus
// beddata::BedParserStreamingIterator::process_to_bbi: the SERIAL feeding protocol.  Every
// per-value contract of this project (bw_batch, bb_batch, bw_zoom, bb_zoom, procs) is stated on
// one `do_process(current, next)` call and relies on "the `next` of one call is the `current`
// of the following call, `None` exactly at the end of the chromosome".  This unit proves that
// the serial source drives the processors that way.
//   C13: empty input is refused (nothing started); with sorted input required, a chromosome
//        switch to a name that is not strictly greater is refused BEFORE the previous
//        chromosome is advanced and before the new one is started; the first error of the
//        source / of the environment is returned and nothing is logged after it; the loop
//        consumes one input item per iteration.
//   C01/C02: every input value reaches a processor exactly once, in input order, under its own
//        chromosome; one Start/Advance pair per maximal run of equal chromosome names.
use vstd::prelude::*;
verus! {

// ---------------- repository types (error enums), generics / derive attributes shimmed ----------------
// thiserror attributes dropped; io::Error -> opaque IoErr
//@extract enum bigtools/src/bbi/bbiwrite.rs ProcessDataError
//@rule R8
//@sub /[ \t]*#\[error\([^\n]*\)\]\n/ => "" min=3
//@sub /#\[from\] io::Error/ => IoErr
//@end
// R11: the generic parameter `SourceError: Error` is instantiated with the serial source's
// `type Error = BedValueError`.
//@extract enum bigtools/src/bbi/bbiwrite.rs BBIProcessError
//@rule R8
//@sub /[ \t]*#\[error\([^\n]*\)\]\n/ => "" min=4
//@sub /#\[from\] io::Error/ => IoErr
//@sub /<SourceError: Error>/ => "" min=1
//@sub /SourceError\(SourceError\)/ => SourceError(BedValueError) min=1
//@end
//@extract enum bigtools/src/bed/bedparser.rs BedValueError
//@rule R8
//@sub /[ \t]*#\[error\([^\n]*\)\]\n/ => "" min=2
//@sub /#\[from\] io::Error/ => IoErr
//@end
// `impl<E: Error> From<ProcessDataError> for BBIProcessError<E>`: the conversion behind the `?`s,
// extracted as a free function (Verus `?` does not go through user `From` impls without extra specs).
//@extract method bigtools/src/bbi/bbiwrite.rs from "From<ProcessDataError> for BBIProcessError"
//@rule R16
//@sub /fn from\(value: ProcessDataError\) -> Self/ => fn pde_into(value: ProcessDataError) -> BBIProcessError min=1
//@end

// ---------------- shims (each one is a listed assumption) ----------------
#[verifier::external_body]
pub struct IoErr { _p: u8 }
/// text of the two error messages (`"..".to_string()`): dropped
#[verifier::external_body]
fn err_msg() -> String { unimplemented!() }

/// One value of the stream (`S::Value`: `Value` for bigWig, `BedEntry` for bigBed).  The feeder is
/// generic in it: it can only move it and lend it.  Not Copy/Clone: it cannot be duplicated.
pub struct Val { pub payload: u64 }

/// Chromosome name (`&str` from the source, `String` once owned).  Bytes with REAL equality
/// (verified below); the order is an uninterpreted relation `ge` on the byte strings.
pub struct Name { pub bytes: Vec<u8> }
/// `a >= b` on `str`: assumed to be a deterministic function of the two byte strings, nothing
/// else (not even reflexivity/totality is used by the proof).
pub uninterp spec fn ge(a: Seq<u8>, b: Seq<u8>) -> bool;
/// strict part of `ge` (what `a > b` means for a preorder); only reachable through a mutant
pub open spec fn gt(a: Seq<u8>, b: Seq<u8>) -> bool { ge(a, b) && !ge(b, a) }
impl Name {
    pub open spec fn view(&self) -> Seq<u8> { self.bytes@ }
    /// `str::to_string` / `String::clone`: same bytes
    fn to_string(&self) -> (r: Name)
        ensures r@ == self@
    {
        let mut v: Vec<u8> = Vec::new();
        let mut i: usize = 0;
        while i < self.bytes.len()
            invariant i <= self.bytes.len(), v@ == self.bytes@.subrange(0, i as int),
            decreases self.bytes.len() - i,
        {
            v.push(self.bytes[i]);
            i = i + 1;
            assert(v@ =~= self.bytes@.subrange(0, i as int));
        }
        assert(v@ =~= self.bytes@);
        Name { bytes: v }
    }
    fn clone(&self) -> (r: Name)
        ensures r@ == self@
    { self.to_string() }
    /// `String::as_str`
    fn as_str(&self) -> (r: &Name)
        ensures r == self
    { self }
}
/// `==` between `&str` / `String` / `&mut String`: byte-sequence equality (verified)
fn name_eq(a: &Name, b: &Name) -> (r: bool)
    ensures r == (a@ == b@)
{
    if a.bytes.len() != b.bytes.len() { return false; }
    let mut i: usize = 0;
    while i < a.bytes.len()
        invariant i <= a.bytes.len(), a.bytes.len() == b.bytes.len(),
            forall|k: int| 0 <= k < i ==> a.bytes@[k] == b.bytes@[k],
        decreases a.bytes.len() - i,
    {
        if a.bytes[i] != b.bytes[i] { return false; }
        i = i + 1;
    }
    assert(a@ =~= b@);
    true
}
#[verifier::external_body]
fn name_ge(a: &Name, b: &Name) -> (r: bool)
    ensures r == ge(a@, b@)
{ unimplemented!() }
#[verifier::external_body]
fn name_gt(a: &Name, b: &Name) -> (r: bool)
    ensures r == gt(a@, b@)
{ unimplemented!() }

/// `S: StreamingBedValues`: assumed contract = a finite queue of parse results handed out in
/// order; `None` when exhausted (and it stays exhausted).
#[verifier::external_body]
pub struct VSource { _p: u8 }
impl VSource {
    pub uninterp spec fn rest(&self) -> Seq<Result<(Name, Val), BedValueError>>;
    #[verifier::external_body]
    pub fn next(&mut self) -> (r: Option<Result<(Name, Val), BedValueError>>)
        ensures
            old(self).rest().len() == 0 ==> r.is_none() && final(self).rest() == old(self).rest(),
            old(self).rest().len() > 0 ==> r == Some(old(self).rest()[0]) && final(self).rest() == old(self).rest().drop_first(),
    { unimplemented!() }
}

/// what the environment observes
pub ghost enum Event {
    Start(Seq<u8>),
    Value(Seq<u8>, Val, Option<Val>),
    Advance(Seq<u8>),
}
pub open spec fn opt_val(o: Option<&Val>) -> Option<Val> {
    match o { Some(v) => Some(*v), None => None }
}
/// The two closures `start_processing: FnMut(String) -> Result<P, ProcessDataError>`,
/// `advance: FnMut(P)` and the processor `P: BBIDataProcessor` are replaced by one environment
/// that logs every SUCCESSFUL call.  `start_processing` and `do_process` may fail (then they log
/// nothing); `reliable()` is the hypothesis "the environment never fails" (a constant of it).
#[verifier::external_body]
pub struct Env { _p: u8 }
#[verifier::external_body]
pub struct Proc { _p: u8 }
impl Env {
    pub uninterp spec fn log(&self) -> Seq<Event>;
    /// number of successful `do_process` calls so far
    pub uninterp spec fn nvalues(&self) -> nat;
    pub uninterp spec fn reliable(&self) -> bool;
    #[verifier::external_body]
    fn start_processing(&mut self, chrom: Name) -> (r: Result<Proc, ProcessDataError>)
        ensures
            final(self).reliable() == old(self).reliable(),
            final(self).nvalues() == old(self).nvalues(),
            old(self).reliable() ==> r.is_ok(),
            r.is_ok() ==> r->Ok_0.name() == chrom@ && final(self).log() == old(self).log().push(Event::Start(chrom@)),
            r.is_err() ==> final(self).log() == old(self).log(),
    { unimplemented!() }
    #[verifier::external_body]
    fn advance(&mut self, p: Proc)
        ensures
            final(self).reliable() == old(self).reliable(),
            final(self).nvalues() == old(self).nvalues(),
            final(self).log() == old(self).log().push(Event::Advance(p.name())),
    { unimplemented!() }
}
impl Proc {
    pub uninterp spec fn name(&self) -> Seq<u8>;
    #[verifier::external_body]
    fn do_process(&mut self, env: &mut Env, val: Val, next: Option<&Val>) -> (r: Result<(), ProcessDataError>)
        ensures
            final(self).name() == old(self).name(),
            final(env).reliable() == old(env).reliable(),
            old(env).reliable() ==> r.is_ok(),
            r.is_ok() ==> final(env).log() == old(env).log().push(Event::Value(old(self).name(), val, opt_val(next)))
                && final(env).nvalues() == old(env).nvalues() + 1,
            r.is_err() ==> final(env).log() == old(env).log() && final(env).nvalues() == old(env).nvalues(),
    { unimplemented!() }
}

// ---------------- specification vocabulary ----------------
pub type Item = Result<(Name, Val), BedValueError>;
pub open spec fn all_ok(q: Seq<Item>, n: int) -> bool { forall|k: int| 0 <= k < n ==> (#[trigger] q[k]) is Ok }
pub open spec fn nm(q: Seq<Item>, k: int) -> Seq<u8> { q[k]->Ok_0.0@ }
pub open spec fn vl(q: Seq<Item>, k: int) -> Val { q[k]->Ok_0.1 }
/// THE FEEDING PROTOCOL: the `next` handed over with item k is the following item iff that one
/// exists, parsed, and is on the same chromosome
pub open spec fn nxt(q: Seq<Item>, k: int) -> Option<Val> {
    if k + 1 < q.len() && q[k + 1] is Ok && nm(q, k + 1) == nm(q, k) { Some(vl(q, k + 1)) } else { None }
}
/// the log after the first n items have been handed to a processor (left-associated, in the
/// order the events happen): one `Value` per item, in input order, under the item's own
/// chromosome; a new maximal run of equal names closes the previous one and starts the next
pub open spec fn elog(base: Seq<Event>, q: Seq<Item>, n: int) -> Seq<Event>
    decreases n
{
    if n <= 0 { base } else {
        let i = n - 1;
        let prev = elog(base, q, i);
        if i == 0 {
            prev.push(Event::Start(nm(q, 0))).push(Event::Value(nm(q, 0), vl(q, 0), nxt(q, 0)))
        } else if nm(q, i) == nm(q, i - 1) {
            prev.push(Event::Value(nm(q, i), vl(q, i), nxt(q, i)))
        } else {
            prev.push(Event::Advance(nm(q, i - 1))).push(Event::Start(nm(q, i))).push(Event::Value(nm(q, i), vl(q, i), nxt(q, i)))
        }
    }
}
/// complete run: the last chromosome is advanced too
pub open spec fn full(base: Seq<Event>, q: Seq<Item>) -> Seq<Event> {
    elog(base, q, q.len() as int).push(Event::Advance(nm(q, q.len() - 1)))
}
/// items k-1 and k are on the same chromosome, or the name strictly increases (C13)
pub open spec fn switch_ok(q: Seq<Item>, k: int) -> bool {
    nm(q, k) == nm(q, k - 1) || !ge(nm(q, k - 1), nm(q, k))
}
pub open spec fn switches_ok(q: Seq<Item>, n: int) -> bool { forall|k: int| 1 <= k < n ==> #[trigger] switch_ok(q, k) }
/// the log at an error return, i = number of values handed over successfully: exactly the
/// protocol prefix for i items, possibly followed by the Advance / Start of the switch that was
/// under way — and that Advance only if the order check had passed
pub open spec fn err_shape(base: Seq<Event>, q: Seq<Item>, i: int, allow: bool, lg: Seq<Event>) -> bool {
    &&& 0 <= i <= q.len()
    &&& all_ok(q, i)
    &&& {
        ||| lg == elog(base, q, i)
        ||| (i == 0 && q.len() > 0 && q[0] is Ok && lg == base.push(Event::Start(nm(q, 0))))
        ||| (1 <= i < q.len() && q[i] is Ok && nm(q, i) != nm(q, i - 1) && (allow || !ge(nm(q, i - 1), nm(q, i)))
            && (lg == elog(base, q, i).push(Event::Advance(nm(q, i - 1)))
                || lg == elog(base, q, i).push(Event::Advance(nm(q, i - 1))).push(Event::Start(nm(q, i)))))
    }
}


// ---------------- consequences of the protocol (what C01/C02 read off the log) ----------------
/// the values handed to processors, in log order
pub open spec fn values_of(lg: Seq<Event>) -> Seq<Val>
    decreases lg.len()
{
    if lg.len() == 0 { Seq::empty() } else {
        let p = values_of(lg.drop_last());
        match lg.last() { Event::Value(_, v, _) => p.push(v), _ => p }
    }
}
/// chromosome under which the k-th handed-over value was processed
pub open spec fn value_chroms_of(lg: Seq<Event>) -> Seq<Seq<u8>>
    decreases lg.len()
{
    if lg.len() == 0 { Seq::empty() } else {
        let p = value_chroms_of(lg.drop_last());
        match lg.last() { Event::Value(c, _, _) => p.push(c), _ => p }
    }
}
/// names started / advanced, in log order
pub open spec fn starts_of(lg: Seq<Event>) -> Seq<Seq<u8>>
    decreases lg.len()
{
    if lg.len() == 0 { Seq::empty() } else {
        let p = starts_of(lg.drop_last());
        match lg.last() { Event::Start(c) => p.push(c), _ => p }
    }
}
pub open spec fn advances_of(lg: Seq<Event>) -> Seq<Seq<u8>>
    decreases lg.len()
{
    if lg.len() == 0 { Seq::empty() } else {
        let p = advances_of(lg.drop_last());
        match lg.last() { Event::Advance(c) => p.push(c), _ => p }
    }
}
/// first names of the maximal runs of equal names among the first n items, in input order
pub open spec fn run_names(q: Seq<Item>, n: int) -> Seq<Seq<u8>>
    decreases n
{
    if n <= 0 { Seq::empty() } else if n == 1 || nm(q, n - 1) != nm(q, n - 2) { run_names(q, n - 1).push(nm(q, n - 1)) } else { run_names(q, n - 1) }
}
proof fn lemma_push(s: Seq<Event>, e: Event)
    ensures
        values_of(s.push(e)) == (match e { Event::Value(_, v, _) => values_of(s).push(v), _ => values_of(s) }),
        value_chroms_of(s.push(e)) == (match e { Event::Value(c, _, _) => value_chroms_of(s).push(c), _ => value_chroms_of(s) }),
        starts_of(s.push(e)) == (match e { Event::Start(c) => starts_of(s).push(c), _ => starts_of(s) }),
        advances_of(s.push(e)) == (match e { Event::Advance(c) => advances_of(s).push(c), _ => advances_of(s) }),
{
    assert(s.push(e).drop_last() =~= s);
    assert(s.push(e).last() == e);
}
/// C01/C02: the values handed over are exactly the input values, each once, in input order, each
/// under its own chromosome; one Start per maximal run; before the final Advance every run but
/// the last has been advanced, in order
proof fn lemma_protocol_delivers_input(base: Seq<Event>, q: Seq<Item>, n: int)
    requires 0 <= n <= q.len(),
    ensures
        [[L: lemma/every_value_exactly_once_in_input_order]]
        values_of(elog(base, q, n)) == values_of(base) + Seq::new(n as nat, |k: int| vl(q, k)),
        [[L: lemma/each_value_under_its_own_chromosome]]
        value_chroms_of(elog(base, q, n)) == value_chroms_of(base) + Seq::new(n as nat, |k: int| nm(q, k)),
        [[L: lemma/one_start_per_maximal_run]]
        starts_of(elog(base, q, n)) == starts_of(base) + run_names(q, n),
        [[L: lemma/every_run_but_the_current_is_advanced]]
        n >= 1 ==> advances_of(elog(base, q, n)).push(nm(q, n - 1)) == advances_of(base) + run_names(q, n),
        n == 0 ==> advances_of(elog(base, q, n)) == advances_of(base),
    decreases n
{
    if n <= 0 {
        assert(values_of(base) + Seq::new(0 as nat, |k: int| vl(q, k)) =~= values_of(base));
        assert(value_chroms_of(base) + Seq::new(0 as nat, |k: int| nm(q, k)) =~= value_chroms_of(base));
        assert(starts_of(base) + run_names(q, 0) =~= starts_of(base));
    } else {
        let i = n - 1;
        lemma_protocol_delivers_input(base, q, i);
        let prev = elog(base, q, i);
        let ev = Event::Value(nm(q, i), vl(q, i), nxt(q, i));
        assert((values_of(base) + Seq::new(i as nat, |k: int| vl(q, k))).push(vl(q, i)) =~= values_of(base) + Seq::new(n as nat, |k: int| vl(q, k)));
        assert((value_chroms_of(base) + Seq::new(i as nat, |k: int| nm(q, k))).push(nm(q, i)) =~= value_chroms_of(base) + Seq::new(n as nat, |k: int| nm(q, k)));
        if i == 0 {
            let a = prev.push(Event::Start(nm(q, 0)));
            lemma_push(prev, Event::Start(nm(q, 0)));
            lemma_push(a, ev);
            assert((starts_of(base) + run_names(q, 0)).push(nm(q, 0)) =~= starts_of(base) + run_names(q, 1));
            assert(advances_of(base).push(nm(q, 0)) =~= advances_of(base) + run_names(q, 1));
        } else if nm(q, i) == nm(q, i - 1) {
            lemma_push(prev, ev);
        } else {
            let a = prev.push(Event::Advance(nm(q, i - 1)));
            let b = a.push(Event::Start(nm(q, i)));
            lemma_push(prev, Event::Advance(nm(q, i - 1)));
            lemma_push(a, Event::Start(nm(q, i)));
            lemma_push(b, ev);
            assert((starts_of(base) + run_names(q, i)).push(nm(q, i)) =~= starts_of(base) + run_names(q, n));
            assert((advances_of(base) + run_names(q, i)).push(nm(q, i)) =~= advances_of(base) + run_names(q, n));
        }
    }
}
/// the complete run: as many Advances as Starts, same names, same order
proof fn lemma_full_run_is_balanced(base: Seq<Event>, q: Seq<Item>)
    requires q.len() > 0,
    ensures
        [[L: lemma/full_values_are_the_input]]
        values_of(full(base, q)) == values_of(base) + Seq::new(q.len(), |k: int| vl(q, k)),
        [[L: lemma/full_every_started_run_is_advanced_in_order]]
        starts_of(full(base, q)) == starts_of(base) + run_names(q, q.len() as int),
        advances_of(full(base, q)) == advances_of(base) + run_names(q, q.len() as int),
{
    let n = q.len() as int;
    lemma_protocol_delivers_input(base, q, n);
    lemma_push(elog(base, q, n), Event::Advance(nm(q, n - 1)));
}

//@extract struct bigtools/src/bbi/beddata.rs BedParserStreamingIterator
//@rule R8
//@sub /<S: StreamingBedValues>/ => "" min=1
//@sub /bed_data: S,/ => bed_data: VSource, min=1
//@end

// What is done to the cut text of process_to_bbi (all R11, reported per run):
// -- signature normalisation (R11): generics + runtime + the two closures -> `env: &mut Env`
// -- `runtime.block_on(async move { BODY })` -> `{ BODY }` (the future is driven to completion on the spot)
// -- structural rewrite of `match (&mut curr_state, next_val) { ((_, _), None) => A, ((curr_chrom, curr_state), Some((chrom, val))) if chrom == curr_chrom => B, (_, Some((chrom, val))) => C }`
//    into `match next_val { None => A, Some((chrom, val)) => if chrom == curr_state.0 { let (curr_chrom, curr_state) = &mut curr_state; B' } else C }`
//    (arm bodies A, B', C verbatim: B' is B's block without its opening brace)
// -- the callables
// -- `?` with From<ProcessDataError>
// -- name comparisons (`str`/`String` operators -> Name functions)
impl BedParserStreamingIterator {
//@extract method bigtools/src/bbi/beddata.rs process_to_bbi "BBIDataSource for BedParserStreamingIterator"
//@rule R16
//@presub /fn process_to_bbi<.*?>\(\s*&mut self,.*?\) -> Result<\(\), BBIProcessError<Self::Error>> \{/ => fn process_to_bbi(&mut self, env: &mut Env) -> Result<(), BBIProcessError> { min=1 count=1
//@presub /runtime\.block_on\(async move \{/ => { min=1 count=1
//@presub /\}\)(\s*\}\s*)\Z/ => }\1 min=1 count=1
//@rule R1
//@sub /match \(&mut curr_state, next_val\) \{/ => match next_val { min=1 count=1
//@sub /\(\(_, _\), None\) => \{/ => None => { min=1 count=1
//@sub /\(\(curr_chrom, curr_state\), Some\(\(chrom, val\)\)\) if chrom == curr_chrom => \{/ => Some((chrom, val)) => if name_eq(&chrom, &curr_state.0) { let (curr_chrom, curr_state) = &mut curr_state; min=1 count=1
//@sub /\(_, Some\(\(chrom, val\)\)\) => \{/ => else { min=1 count=1
//@sub /(?<![\w\.])start_processing\(/ => env.start_processing( min=0
//@sub /(?<![\w\.])advance\(/ => env.advance( min=0
//@sub /\.do_process\(/ => .do_process(env,  min=0
//@sub /([\w\.]+\([^;\n]*\))\?;/ => (match \1 { Ok(v__) => v__, Err(e__) => return Err(pde_into(e__)) }); min=0
//@sub /v\.0 == chrom\b/ => name_eq(&v.0, &chrom) min=0
//@sub /v\.0 == curr_chrom\b/ => name_eq(&v.0, curr_chrom) min=0
//@sub /v\.0 == (\w+)\b/ => name_eq(&v.0, (\1).as_str()) min=0
//@sub /prev_chrom\.as_str\(\) >= chrom/ => name_ge(prev_chrom.as_str(), &chrom) min=0
//@sub /prev_chrom\.as_str\(\) > chrom/ => name_gt(prev_chrom.as_str(), &chrom) min=0
//@sub /"[^"\n]*"\s*\.to_string\(\)/ => err_msg() min=0
//@ret r
//@sig
    ensures
        [[L: empty_input_is_refused_nothing_started]]
        old(self).bed_data.rest().len() == 0 ==> r.is_err() && final(env).log() == old(env).log(),
        [[L: ok_means_whole_protocol_was_logged]]
        r.is_ok() ==> old(self).bed_data.rest().len() > 0
            && all_ok(old(self).bed_data.rest(), old(self).bed_data.rest().len() as int)
            && final(env).log() == full(old(env).log(), old(self).bed_data.rest()),
        [[L: ok_means_input_consumed]]
        r.is_ok() ==> final(self).bed_data.rest().len() == 0
            && final(env).nvalues() == old(env).nvalues() + old(self).bed_data.rest().len(),
        [[L: ok_means_chromosomes_strictly_increase_when_required]]
        r.is_ok() && !old(self).allow_out_of_order_chroms
            ==> switches_ok(old(self).bed_data.rest(), old(self).bed_data.rest().len() as int),
        [[L: succeeds_when_nothing_fails_and_order_is_fine]]
        old(self).bed_data.rest().len() > 0
            && all_ok(old(self).bed_data.rest(), old(self).bed_data.rest().len() as int)
            && old(env).reliable()
            && (old(self).allow_out_of_order_chroms || switches_ok(old(self).bed_data.rest(), old(self).bed_data.rest().len() as int))
            ==> r.is_ok(),
        [[L: out_of_order_switch_refused_before_advance_and_start]]
        r.is_err() && old(self).bed_data.rest().len() > 0
            && all_ok(old(self).bed_data.rest(), old(self).bed_data.rest().len() as int)
            && old(env).reliable()
            ==> ({
                let q = old(self).bed_data.rest();
                let i = final(env).nvalues() - old(env).nvalues();
                &&& !old(self).allow_out_of_order_chroms
                &&& 1 <= i < q.len()
                &&& switches_ok(q, i)
                &&& !switch_ok(q, i)
                &&& final(env).log() == elog(old(env).log(), q, i)
            }),
        [[L: first_error_is_returned_nothing_logged_after]]
        r.is_err() ==> err_shape(old(env).log(), old(self).bed_data.rest(), final(env).nvalues() - old(env).nvalues(),
            old(self).allow_out_of_order_chroms, final(env).log()),
        [[L: frame]]
        final(self).allow_out_of_order_chroms == old(self).allow_out_of_order_chroms,
        final(env).reliable() == old(env).reliable(),
//@open
    let ghost q = self.bed_data.rest();
    let ghost len = q.len() as int;
    let ghost log0 = env.log();
    let ghost nv0 = env.nvalues();
    let ghost i: int = 1;
    proof { reveal_with_fuel(elog, 2); }
//@at /let next_val = self\.bed_data\.next\(\);/ nth=1 after
    proof {
        assert(q.drop_first() =~= q.subrange(1, len));
        if len > 1 {
            assert(q.subrange(1, len)[0] == q[1]);
            assert(q.subrange(1, len).drop_first() =~= q.subrange(2, len));
        }
    }
//@loop 1
        invariant
            [[L: loop/progress]]
            1 <= i <= len, q == old(self).bed_data.rest(), len == q.len(),
            log0 == old(env).log(), nv0 == old(env).nvalues(),
            self.allow_out_of_order_chroms == old(self).allow_out_of_order_chroms,
            env.reliable() == old(env).reliable(),
            [[L: loop/pending_item_is_input_item_i]]
            match next_val {
                Some(nv) => i < len && q[i] == Ok::<(Name, Val), BedValueError>(nv) && self.bed_data.rest() == q.subrange(i + 1, len),
                None => i == len && self.bed_data.rest().len() == 0,
            },
            all_ok(q, i),
            [[L: loop/log_is_protocol_prefix]]
            env.log() == elog(log0, q, i),
            env.nvalues() == nv0 + i,
            [[L: loop/current_processor_is_for_last_item]]
            curr_state.0@ == nm(q, i - 1), curr_state.1.name() == nm(q, i - 1),
            [[L: loop/switches_checked_so_far]]
            self.allow_out_of_order_chroms || switches_ok(q, i),
        decreases
            [[L: loop/termination]]
            len - i,
//@at /let next_val = self\.bed_data\.next\(\);/ nth=2 after
                        proof {
                            if i + 1 < len {
                                assert(q.subrange(i + 1, len)[0] == q[i + 1]);
                                assert(q.subrange(i + 1, len).drop_first() =~= q.subrange(i + 2, len));
                            }
                        }
//@at /let next_val = self\.bed_data\.next\(\);/ nth=3 after
                        proof {
                            if i + 1 < len {
                                assert(q.subrange(i + 1, len)[0] == q[i + 1]);
                                assert(q.subrange(i + 1, len).drop_first() =~= q.subrange(i + 2, len));
                            }
                        }
//@at /^\s*else \{\s*$/ after
                        proof { assert(switches_ok(q, len) ==> switch_ok(q, i)); }
//@at /^\s*next_val\s*$/ nth=1 before
                        proof { i = i + 1; }
//@at /^\s*next_val\s*$/ nth=2 before
                        proof { i = i + 1; }
//@end
}

} // verus!
fn main() {}
