// bbiread::read_node, cir_tree_leaf_items, cir_tree_non_leaf_items: reading one R-tree node.
// C10 ("R-trees of any fan-out, depth and node placement"): a node that is stored completely
// inside the file is read successfully wherever it lies (in particular at the very end of the
// file), exactly its own bytes are consumed (4 + 32*count for a leaf, 4 + 24*count for a
// non-leaf), the item bytes are handed to the item decoders unchanged, the count is decoded in
// the file's byte order.
use vstd::prelude::*;
verus! {
// ---- shared byte-level prelude ---------------------------------------------
// Format vocabulary written from the published BBI layout (Kent et al. 2010),
// as arithmetic on byte values - not as calls to from_le_bytes/to_le_bytes.
/// k-th base-256 digit of x (opaque: the div/mod arithmetic is only unfolded inside the codec lemmas)
#[verifier::opaque]
pub open spec fn byte_of(x: int, k: int) -> u8 {
    if k == 0 { (x % 256) as u8 } else if k == 1 { (x / 256 % 256) as u8 } else if k == 2 { (x / 65536 % 256) as u8 }
    else if k == 3 { (x / 16777216 % 256) as u8 } else if k == 4 { (x / 4294967296 % 256) as u8 }
    else if k == 5 { (x / 1099511627776 % 256) as u8 } else if k == 6 { (x / 281474976710656 % 256) as u8 }
    else { (x / 72057594037927936 % 256) as u8 }
}
pub open spec fn le16(x: u16) -> Seq<u8> { seq![byte_of(x as int, 0), byte_of(x as int, 1)] }
pub open spec fn le32(x: u32) -> Seq<u8> { seq![byte_of(x as int, 0), byte_of(x as int, 1), byte_of(x as int, 2), byte_of(x as int, 3)] }
pub open spec fn le64(x: u64) -> Seq<u8> {
    seq![byte_of(x as int, 0), byte_of(x as int, 1), byte_of(x as int, 2), byte_of(x as int, 3),
         byte_of(x as int, 4), byte_of(x as int, 5), byte_of(x as int, 6), byte_of(x as int, 7)]
}
pub open spec fn be16(x: u16) -> Seq<u8> { seq![byte_of(x as int, 1), byte_of(x as int, 0)] }
pub open spec fn be32(x: u32) -> Seq<u8> { seq![byte_of(x as int, 3), byte_of(x as int, 2), byte_of(x as int, 1), byte_of(x as int, 0)] }
pub open spec fn be64(x: u64) -> Seq<u8> {
    seq![byte_of(x as int, 7), byte_of(x as int, 6), byte_of(x as int, 5), byte_of(x as int, 4),
         byte_of(x as int, 3), byte_of(x as int, 2), byte_of(x as int, 1), byte_of(x as int, 0)]
}
// decode: value of the little-/big-endian integer stored at s[i..]
pub open spec fn dle16(s: Seq<u8>, i: int) -> int { s[i] as int + 256 * (s[i + 1] as int) }
pub open spec fn dle32(s: Seq<u8>, i: int) -> int {
    s[i] as int + 256 * (s[i + 1] as int) + 65536 * (s[i + 2] as int) + 16777216 * (s[i + 3] as int)
}
pub open spec fn dle64(s: Seq<u8>, i: int) -> int { dle32(s, i) + 4294967296 * dle32(s, i + 4) }
pub open spec fn dbe16(s: Seq<u8>, i: int) -> int { 256 * (s[i] as int) + s[i + 1] as int }
pub open spec fn dbe32(s: Seq<u8>, i: int) -> int {
    16777216 * (s[i] as int) + 65536 * (s[i + 1] as int) + 256 * (s[i + 2] as int) + s[i + 3] as int
}
pub open spec fn dbe64(s: Seq<u8>, i: int) -> int { 4294967296 * dbe32(s, i) + dbe32(s, i + 4) }
/// integer at s[i..] in byte order `big`
pub open spec fn d16(big: bool, s: Seq<u8>, i: int) -> int { if big { dbe16(s, i) } else { dle16(s, i) } }
pub open spec fn d32(big: bool, s: Seq<u8>, i: int) -> int { if big { dbe32(s, i) } else { dle32(s, i) } }
pub open spec fn d64(big: bool, s: Seq<u8>, i: int) -> int { if big { dbe64(s, i) } else { dle64(s, i) } }
pub open spec fn e16(big: bool, x: u16) -> Seq<u8> { if big { be16(x) } else { le16(x) } }
pub open spec fn e32(big: bool, x: u32) -> Seq<u8> { if big { be32(x) } else { le32(x) } }
pub open spec fn e64(big: bool, x: u64) -> Seq<u8> { if big { be64(x) } else { le64(x) } }

// Floats on disk: IEEE bit patterns.  `to_bits`/`from_bits` are uninterpreted; the only
// assumed fact is that they are inverse (true of Rust's f32::to_bits/from_bits bit-for-bit).
pub uninterp spec fn f32_bits(x: f32) -> u32;
pub uninterp spec fn f32_of_bits(b: u32) -> f32;
pub uninterp spec fn f64_bits(x: f64) -> u64;
pub uninterp spec fn f64_of_bits(b: u64) -> f64;
pub broadcast axiom fn ax_f32_bits_inv(x: f32) ensures #[trigger] f32_of_bits(f32_bits(x)) == x;
pub broadcast axiom fn ax_f64_bits_inv(x: f64) ensures #[trigger] f64_of_bits(f64_bits(x)) == x;

#[verifier::external_body]
#[derive(Debug)]
pub struct IoError { _p: u8 }

#[verifier::external_body]
pub fn vpanic() -> !
    requires false
{ panic!() }

// ---- Sink: append-only in-memory writer (`Vec<u8>` used through byteorder::WriteBytesExt / io::Write).
// Assumed contracts: NativeEndian == LittleEndian (x86-64 / aarch64 targets); writes to a Vec never
// fail, the io::Result plumbing is kept so that `?` in the code typechecks.
pub struct Sink { pub bytes: Vec<u8> }
impl Sink {
    pub open spec fn view(&self) -> Seq<u8> { self.bytes@ }
    #[verifier::external_body]
    pub fn with_capacity(n: usize) -> (r: Sink) ensures r@.len() == 0 { Sink { bytes: Vec::with_capacity(n) } }
    pub fn len(&self) -> (r: usize) ensures r == self@.len() { self.bytes.len() }
    #[verifier::external_body]
    pub fn put_u8(&mut self, v: u8) -> (r: Result<(), IoError>)
        ensures r.is_ok(), final(self)@ == old(self)@.push(v) { unimplemented!() }
    #[verifier::external_body]
    pub fn put_u16(&mut self, v: u16) -> (r: Result<(), IoError>)
        ensures r.is_ok(), final(self)@ == old(self)@ + le16(v) { unimplemented!() }
    #[verifier::external_body]
    pub fn put_u32(&mut self, v: u32) -> (r: Result<(), IoError>)
        ensures r.is_ok(), final(self)@ == old(self)@ + le32(v) { unimplemented!() }
    #[verifier::external_body]
    pub fn put_u64(&mut self, v: u64) -> (r: Result<(), IoError>)
        ensures r.is_ok(), final(self)@ == old(self)@ + le64(v) { unimplemented!() }
    #[verifier::external_body]
    pub fn put_f32(&mut self, v: f32) -> (r: Result<(), IoError>)
        ensures r.is_ok(), final(self)@ == old(self)@ + le32(f32_bits(v)) { unimplemented!() }
    #[verifier::external_body]
    pub fn put_f64(&mut self, v: f64) -> (r: Result<(), IoError>)
        ensures r.is_ok(), final(self)@ == old(self)@ + le64(f64_bits(v)) { unimplemented!() }
    #[verifier::external_body]
    pub fn put_bytes(&mut self, b: &[u8]) -> (r: Result<(), IoError>)
        ensures r.is_ok(), final(self)@ == old(self)@ + b@ { unimplemented!() }
}

// ---- FSink: seekable destination (`BufWriter<W: Write + Seek>`).  Ghost image `data()` and
// position `pos()`.  A put at `pos` overwrites/extends the image; any operation may fail, in
// which case nothing is promised about the image (callers must propagate the error).
#[verifier::external_body]
pub struct FSink { _p: u8 }
pub open spec fn splice(d: Seq<u8>, at: int, b: Seq<u8>) -> Seq<u8>
    recommends 0 <= at <= d.len()
{
    if at + b.len() >= d.len() { d.subrange(0, at) + b } else { d.subrange(0, at) + b + d.subrange(at + b.len(), d.len() as int) }
}
impl FSink {
    pub uninterp spec fn data(&self) -> Seq<u8>;
    pub uninterp spec fn pos(&self) -> int;
    pub open spec fn wf(&self) -> bool { 0 <= self.pos() <= self.data().len() }
    #[verifier::external_body]
    pub fn tell(&mut self) -> (r: Result<u64, IoError>)
        requires old(self).wf(), old(self).pos() <= u64::MAX
        ensures final(self).data() == old(self).data(), final(self).pos() == old(self).pos(), r.is_ok() ==> r.unwrap() == old(self).pos()
    { unimplemented!() }
    #[verifier::external_body]
    pub fn seek_start(&mut self, p: u64) -> (r: Result<u64, IoError>)
        requires old(self).wf(), p <= old(self).data().len()
        ensures final(self).data() == old(self).data(), r.is_ok() ==> (final(self).pos() == p && r.unwrap() == p), final(self).wf()
    { unimplemented!() }
    #[verifier::external_body]
    pub fn seek_end0(&mut self) -> (r: Result<u64, IoError>)
        requires old(self).wf()
        ensures final(self).data() == old(self).data(), r.is_ok() ==> (final(self).pos() == old(self).data().len() && r.unwrap() == old(self).data().len()), final(self).wf()
    { unimplemented!() }
    #[verifier::external_body]
    pub fn put(&mut self, b: &[u8]) -> (r: Result<(), IoError>)
        requires old(self).wf()
        ensures r.is_ok() ==> (final(self).data() == splice(old(self).data(), old(self).pos(), b@) && final(self).pos() == old(self).pos() + b@.len()), final(self).wf()
    { unimplemented!() }
    #[verifier::external_body]
    pub fn put_u8(&mut self, v: u8) -> (r: Result<(), IoError>)
        requires old(self).wf()
        ensures r.is_ok() ==> (final(self).data() == splice(old(self).data(), old(self).pos(), seq![v]) && final(self).pos() == old(self).pos() + 1), final(self).wf()
    { unimplemented!() }
    #[verifier::external_body]
    pub fn put_u16(&mut self, v: u16) -> (r: Result<(), IoError>)
        requires old(self).wf()
        ensures r.is_ok() ==> (final(self).data() == splice(old(self).data(), old(self).pos(), le16(v)) && final(self).pos() == old(self).pos() + 2), final(self).wf()
    { unimplemented!() }
    #[verifier::external_body]
    pub fn put_u32(&mut self, v: u32) -> (r: Result<(), IoError>)
        requires old(self).wf()
        ensures r.is_ok() ==> (final(self).data() == splice(old(self).data(), old(self).pos(), le32(v)) && final(self).pos() == old(self).pos() + 4), final(self).wf()
    { unimplemented!() }
    #[verifier::external_body]
    pub fn put_u64(&mut self, v: u64) -> (r: Result<(), IoError>)
        requires old(self).wf()
        ensures r.is_ok() ==> (final(self).data() == splice(old(self).data(), old(self).pos(), le64(v)) && final(self).pos() == old(self).pos() + 8), final(self).wf()
    { unimplemented!() }
    #[verifier::external_body]
    pub fn put_f64(&mut self, v: f64) -> (r: Result<(), IoError>)
        requires old(self).wf()
        ensures r.is_ok() ==> (final(self).data() == splice(old(self).data(), old(self).pos(), le64(f64_bits(v))) && final(self).pos() == old(self).pos() + 8), final(self).wf()
    { unimplemented!() }
}

// ---- Cur: consuming reader over a byte buffer (`bytes::BytesMut` used through `bytes::Buf`).
// `rem()` = bytes not yet consumed.  The `requires` are the real panics of the `bytes` crate
// (reading past the end / split_to past the end).
#[verifier::external_body]
pub struct Cur { _p: u8 }
impl Cur {
    pub uninterp spec fn rem(&self) -> Seq<u8>;
    #[verifier::external_body]
    pub fn from_vec(v: &Vec<u8>) -> (r: Cur) ensures r.rem() == v@ { unimplemented!() }
    #[verifier::external_body]
    pub fn len(&self) -> (r: usize) ensures r == self.rem().len() { unimplemented!() }
    #[verifier::external_body]
    pub fn split_to(&mut self, n: usize) -> (r: Cur)
        requires n <= old(self).rem().len()
        ensures r.rem() == old(self).rem().subrange(0, n as int), final(self).rem() == old(self).rem().subrange(n as int, old(self).rem().len() as int)
    { unimplemented!() }
    #[verifier::external_body]
    pub fn advance(&mut self, n: usize)
        requires n <= old(self).rem().len()
        ensures final(self).rem() == old(self).rem().subrange(n as int, old(self).rem().len() as int)
    { unimplemented!() }
    #[verifier::external_body]
    pub fn get_u8(&mut self) -> (r: u8)
        requires old(self).rem().len() >= 1
        ensures r == old(self).rem()[0], final(self).rem() == old(self).rem().subrange(1, old(self).rem().len() as int)
    { unimplemented!() }
    #[verifier::external_body]
    pub fn get_u16(&mut self) -> (r: u16)
        requires old(self).rem().len() >= 2
        ensures r == dbe16(old(self).rem(), 0), final(self).rem() == old(self).rem().subrange(2, old(self).rem().len() as int)
    { unimplemented!() }
    #[verifier::external_body]
    pub fn get_u16_le(&mut self) -> (r: u16)
        requires old(self).rem().len() >= 2
        ensures r == dle16(old(self).rem(), 0), final(self).rem() == old(self).rem().subrange(2, old(self).rem().len() as int)
    { unimplemented!() }
    #[verifier::external_body]
    pub fn get_u32(&mut self) -> (r: u32)
        requires old(self).rem().len() >= 4
        ensures r == dbe32(old(self).rem(), 0), final(self).rem() == old(self).rem().subrange(4, old(self).rem().len() as int)
    { unimplemented!() }
    #[verifier::external_body]
    pub fn get_u32_le(&mut self) -> (r: u32)
        requires old(self).rem().len() >= 4
        ensures r == dle32(old(self).rem(), 0), final(self).rem() == old(self).rem().subrange(4, old(self).rem().len() as int)
    { unimplemented!() }
    #[verifier::external_body]
    pub fn get_u64(&mut self) -> (r: u64)
        requires old(self).rem().len() >= 8
        ensures r == dbe64(old(self).rem(), 0), final(self).rem() == old(self).rem().subrange(8, old(self).rem().len() as int)
    { unimplemented!() }
    #[verifier::external_body]
    pub fn get_u64_le(&mut self) -> (r: u64)
        requires old(self).rem().len() >= 8
        ensures r == dle64(old(self).rem(), 0), final(self).rem() == old(self).rem().subrange(8, old(self).rem().len() as int)
    { unimplemented!() }
    #[verifier::external_body]
    pub fn get_f32(&mut self) -> (r: f32)
        requires old(self).rem().len() >= 4
        ensures r == f32_of_bits(dbe32(old(self).rem(), 0) as u32), final(self).rem() == old(self).rem().subrange(4, old(self).rem().len() as int)
    { unimplemented!() }
    #[verifier::external_body]
    pub fn get_f32_le(&mut self) -> (r: f32)
        requires old(self).rem().len() >= 4
        ensures r == f32_of_bits(dle32(old(self).rem(), 0) as u32), final(self).rem() == old(self).rem().subrange(4, old(self).rem().len() as int)
    { unimplemented!() }
}
// `uN::from_{le,be}_bytes([..])` (rule R4) with arithmetic contracts
#[verifier::external_body]
pub fn u32_from_le(b: [u8; 4]) -> (r: u32) ensures r == dle32(b@, 0) { u32::from_le_bytes(b) }
#[verifier::external_body]
pub fn u32_from_be(b: [u8; 4]) -> (r: u32) ensures r == dbe32(b@, 0) { u32::from_be_bytes(b) }
#[verifier::external_body]
pub fn u64_from_le(b: [u8; 8]) -> (r: u64) ensures r == dle64(b@, 0) { u64::from_le_bytes(b) }
#[verifier::external_body]
pub fn u64_from_be(b: [u8; 8]) -> (r: u64) ensures r == dbe64(b@, 0) { u64::from_be_bytes(b) }
#[verifier::external_body]
pub fn f32_from_le(b: [u8; 4]) -> (r: f32) ensures r == f32_of_bits(dle32(b@, 0) as u32) { f32::from_le_bytes(b) }
#[verifier::external_body]
pub fn f32_from_be(b: [u8; 4]) -> (r: f32) ensures r == f32_of_bits(dbe32(b@, 0) as u32) { f32::from_be_bytes(b) }

#[derive(Copy, Clone)]
pub enum Endianness { Big, Little }
pub open spec fn is_big(e: Endianness) -> bool { e is Big }

pub struct CirTreeLeafItemIterator {
pub endianness: Endianness,
pub i: usize,
pub count: usize,
pub bytes: Vec<u8>,
}
pub struct CirTreeNonLeafItemsIterator {
pub endianness: Endianness,
pub i: usize,
pub count: usize,
pub bytes: Vec<u8>,
}
pub enum CirTreeNodeIterator {
    Leaf(CirTreeLeafItemIterator),
    NonLeaf(CirTreeNonLeafItemsIterator),
}

// The file (any `Read + Seek`): ghost content, OS position, and an environment flag saying whether
// the next operations fail for reasons outside the program.  Assumed contract of std:
// `seek(Start(p))` moves to p (seeking past the end is allowed); `read_exact(buf)` fails iff fewer
// than buf.len() bytes remain or the environment fails; on success it fills buf with the next bytes.
#[verifier::external_body]
pub struct VRead { _p: u8 }
impl VRead {
    pub uninterp spec fn content(&self) -> Seq<u8>;
    pub uninterp spec fn pos(&self) -> int;
    pub uninterp spec fn env_ok(&self) -> bool;
    #[verifier::external_body]
    pub fn seek_start(&mut self, p: u64) -> (r: Result<u64, IoError>)
        ensures final(self).content() == old(self).content(), final(self).env_ok() == old(self).env_ok(),
            old(self).env_ok() ==> r.is_ok(), r.is_ok() ==> final(self).pos() == p,
    { unimplemented!() }
    #[verifier::external_body]
    pub fn read_exact(&mut self, buf: &mut Vec<u8>) -> (r: Result<(), IoError>)
        requires old(self).pos() >= 0,
        ensures final(self).content() == old(self).content(), final(self).env_ok() == old(self).env_ok(),
            final(buf)@.len() == old(buf)@.len(),
            (old(self).env_ok() && old(self).pos() + old(buf)@.len() <= old(self).content().len()) ==> r.is_ok(),
            old(self).pos() + old(buf)@.len() > old(self).content().len() ==> r.is_err(),
            r.is_ok() ==> final(self).pos() == old(self).pos() + old(buf)@.len()
                && final(buf)@ == old(self).content().subrange(old(self).pos(), old(self).pos() + old(buf)@.len()),
    { unimplemented!() }
    /// `Read::read` (0 hits on /repo; lets an edit that replaces `read_exact` by a single `read` reach the
    /// verifier) with its REAL contract: Ok(n) with 0 <= n <= buf.len() and n no more than what is left; the first
    /// n bytes of buf are the next n bytes of the file, the rest of buf is unchanged, the position advances by n;
    /// n MAY be smaller than buf.len() even when more bytes are available (short read); it fails only for
    /// reasons of the environment.  Nothing is said about position/buffer after an Err.
    #[verifier::external_body]
    pub fn read(&mut self, buf: &mut Vec<u8>) -> (r: Result<usize, IoError>)
        requires old(self).pos() >= 0,
        ensures final(self).content() == old(self).content(), final(self).env_ok() == old(self).env_ok(),
            final(buf)@.len() == old(buf)@.len(),
            old(self).env_ok() ==> r.is_ok(),
            r matches Ok(n) ==> {
                &&& n <= old(buf)@.len()
                &&& final(self).pos() == old(self).pos() + n
                &&& n == 0 ==> final(buf)@ == old(buf)@
                &&& n > 0 ==> old(self).pos() + n <= old(self).content().len()
                        && final(buf)@ == old(self).content().subrange(old(self).pos(), old(self).pos() + n)
                            + old(buf)@.subrange(n as int, old(buf)@.len() as int)
            },
    { unimplemented!() }
    /// `let mut b = BytesMut::zeroed(n); file.read_exact(&mut b)` as one step
    #[verifier::external_body]
    pub fn read_cur(&mut self, n: usize) -> (r: Result<Cur, IoError>)
        requires old(self).pos() >= 0,
        ensures final(self).content() == old(self).content(), final(self).env_ok() == old(self).env_ok(),
            (old(self).env_ok() && old(self).pos() + n <= old(self).content().len()) ==> r.is_ok(),
            old(self).pos() + n > old(self).content().len() ==> r.is_err(),
            r.is_ok() ==> final(self).pos() == old(self).pos() + n
                && r.unwrap().rem() == old(self).content().subrange(old(self).pos(), old(self).pos() + n),
    { unimplemented!() }
}
pub fn zeros(n: usize) -> (r: Vec<u8>) ensures r@.len() == n
{
    let mut v: Vec<u8> = Vec::new();
    let mut i: usize = 0;
    while i < n invariant i <= n, v@.len() == i decreases n - i { v.push(0u8); i = i + 1; }
    v
}

/// a node of `count` items of `isz` bytes each is stored completely inside the file at `at`
pub open spec fn node_stored(c: Seq<u8>, at: int, isleaf: u8, count: int, big: bool) -> bool {
    &&& 0 <= at && at + 4 <= c.len()
    &&& c[at] == isleaf && (isleaf == 0 || isleaf == 1)
    &&& d16(big, c, at + 2) == count
    &&& at + 4 + (if isleaf == 1 { 32int } else { 24int }) * count <= c.len()
}

fn cir_tree_leaf_items(
    file: &mut VRead,
    endianness: Endianness,
    count: usize,
) -> (r: Result<CirTreeLeafItemIterator, IoError>)
    requires
        
        old(file).pos() >= 0, count <= 65535,
    ensures
        
        r.is_ok() ==> final(file).pos() == old(file).pos() + 32 * count,
        
        (old(file).env_ok() && old(file).pos() + 32 * count <= old(file).content().len()) ==> r.is_ok(),
        
        r.is_ok() ==> r.unwrap().bytes@ == old(file).content().subrange(old(file).pos(), old(file).pos() + 32 * count)
            && r.unwrap().i == 0 && r.unwrap().count == count && r.unwrap().endianness == endianness,
        
        final(file).content() == old(file).content() && final(file).env_ok() == old(file).env_ok(),
{
    let mut bytes = zeros(count * 32);
    file.read_exact(&mut bytes)?;

    Ok(CirTreeLeafItemIterator {
        endianness,
        i: 0,
        count,
        bytes,
    })
}

fn cir_tree_non_leaf_items(
    file: &mut VRead,
    endianness: Endianness,
    count: usize,
) -> (r: Result<CirTreeNonLeafItemsIterator, IoError>)
    requires
        
        old(file).pos() >= 0, count <= 65535,
    ensures
        
        r.is_ok() ==> final(file).pos() == old(file).pos() + 24 * count,
        
        (old(file).env_ok() && old(file).pos() + 24 * count <= old(file).content().len()) ==> r.is_ok(),
        
        r.is_ok() ==> r.unwrap().bytes@ == old(file).content().subrange(old(file).pos(), old(file).pos() + 24 * count)
            && r.unwrap().i == 0 && r.unwrap().count == count && r.unwrap().endianness == endianness,
        
        final(file).content() == old(file).content() && final(file).env_ok() == old(file).env_ok(),
{
    let mut bytes = zeros((count as usize) * 24);
    file.read_exact(&mut bytes)?;

    Ok(CirTreeNonLeafItemsIterator {
        endianness,
        i: 0,
        count,
        bytes,
    })
}

pub fn read_node(
    file: &mut VRead,
    node_offset: u64,
    endianness: Endianness,
) -> (r: Result<CirTreeNodeIterator, IoError>)
    requires
        
        node_offset + 4 <= old(file).content().len() ==> (old(file).content()[node_offset as int] == 0 || old(file).content()[node_offset as int] == 1),
    ensures
        
        forall|isleaf: u8, count: int| (old(file).env_ok() && #[trigger] node_stored(old(file).content(), node_offset as int, isleaf, count, is_big(endianness))) ==> r.is_ok(),
        
        forall|count: int| (r.is_ok() && #[trigger] node_stored(old(file).content(), node_offset as int, 1, count, is_big(endianness))) ==>
            (r.unwrap() matches CirTreeNodeIterator::Leaf(it) && it.count == count && it.i == 0 && it.endianness == endianness
            && it.bytes@ == old(file).content().subrange(node_offset + 4, node_offset + 4 + 32 * count)),
        
        forall|count: int| (r.is_ok() && #[trigger] node_stored(old(file).content(), node_offset as int, 0, count, is_big(endianness))) ==>
            (r.unwrap() matches CirTreeNodeIterator::NonLeaf(it) && it.count == count && it.i == 0 && it.endianness == endianness
            && it.bytes@ == old(file).content().subrange(node_offset + 4, node_offset + 4 + 24 * count)),
        
        final(file).content() == old(file).content(),
{
    match file.seek_start(node_offset) {
        Err(e) => return Err(e),
        Ok(_) => {}
    };

    let mut header_data = match file.read_cur(4) { Err(e) => return Err(e), Ok(c) => c };


    let ghost hdr = header_data.rem();
    proof {
        let c = file.content(); let k = node_offset as int;
        assert(hdr[0] == c[k] && hdr[1] == c[k + 1] && hdr[2] == c[k + 2] && hdr[3] == c[k + 3]);
    }
    let isleaf: u8 = header_data.get_u8();
    assert(isleaf == 1 || isleaf == 0);
    let _reserved = header_data.get_u8();

    let count = match endianness {
        Endianness::Big => header_data.get_u16(),
        Endianness::Little => header_data.get_u16_le(),
    };

    let iter = if isleaf == 1 {
        let iter = match cir_tree_leaf_items(file, endianness, count as usize) {
            Ok(v) => v,
            Err(e) => return Err(e),
        };
        CirTreeNodeIterator::Leaf(iter)
    } else {
        let iter = match cir_tree_non_leaf_items(file, endianness, count as usize) {
            Ok(v) => v,
            Err(e) => return Err(e),
        };
        CirTreeNodeIterator::NonLeaf(iter)
    };
    Ok(iter)
}

} // verus!
fn main() {}

