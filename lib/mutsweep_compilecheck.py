# development tool: cargo-check the undecided mutants of the last mutsweep run (reads /var/tmp/mutsweep-all.json); not part of any registered check
import json, os, re, shutil, subprocess, sys, threading, concurrent.futures as cf
res = json.load(open('/var/tmp/mutsweep-all.json'))
und = [r for r in res if r[0] == 2]
# need (rel, line, new): recompute sites via mutsweep's sites_for
sys.path.insert(0, '/verif/lib')
src = open('/verif/lib/mutsweep.py').read().split("local = threading.local()")[0].replace("a = sys.argv[1:]", "a = []").replace("HERE = os.path.dirname(os.path.abspath(__file__))", "HERE = '/verif/lib'")
exec(src)
allm = {}
for u in units:
    try: s_ = sites_for(u)
    except Exception as e: continue
    for rel, i, new, desc in s_: allm[desc] = (rel, i, new)
jobs = [(d, allm[d]) for rc, d, vs in und if d in allm]
print('undecided', len(und), 'located', len(jobs), flush=True)
local = threading.local(); wid = [0]; lock = threading.Lock()
def scratch():
    if not hasattr(local, 'd'):
        with lock: wid[0] += 1; local.d = '/var/tmp/cc-w%d' % wid[0]
        shutil.rmtree(local.d, ignore_errors=True)
        subprocess.check_call(['rsync', '-a', '--exclude', 'target', '--exclude', '.git', '/repo/', local.d + '/'])
        subprocess.run(['cargo', 'check', '--offline', '--workspace', '-q'], cwd=local.d, env=dict(os.environ, CARGO_NET_OFFLINE='true'), stdout=subprocess.DEVNULL, stderr=subprocess.DEVNULL)
    return local.d
def run(job):
    desc, (rel, i, new) = job
    d = scratch(); p = os.path.join(d, rel); orig = open(os.path.join('/repo', rel)).read()
    lines = orig.split('\n'); lines[i] = new; open(p, 'w').write('\n'.join(lines))
    pkg = 'pybigtools' if rel.startswith('pybigtools') else 'bigtools'
    r = subprocess.run(['cargo', 'check', '--offline', '-q', '-p', pkg, '--bins', '--lib'] if pkg == 'bigtools' else ['cargo', 'check', '--offline', '-q', '-p', pkg], cwd=d, env=dict(os.environ, CARGO_NET_OFFLINE='true'), stdout=subprocess.PIPE, stderr=subprocess.STDOUT, text=True)
    open(p, 'w').write(orig)
    ok = r.returncode == 0
    print('COMPILES' if ok else 'no', desc[:150], flush=True)
    return ok, desc
with cf.ThreadPoolExecutor(4) as ex: out = list(ex.map(run, jobs))
for w in range(1, wid[0] + 1): shutil.rmtree('/var/tmp/cc-w%d' % w, ignore_errors=True)
json.dump(out, open('/var/tmp/compilecheck.json', 'w'))
print('compiles', sum(1 for o in out if o[0]), 'of', len(out))
