// Reader plumbing of bigwigread.rs / bigbedread.rs / bbiread.rs: the small functions between `open` and a query.
//   BigWigRead / BigBedRead: `with_info`, `into_inner`, `inner_read`, `info`, `chroms` (inherent and `BBIRead`),
//       `reader` (`BBIReadInternal`), `cached`, `reopen` (`impl Reopen`)
//   GenericBBIRead: `open`, `info`, `chroms`, `reader`, `reader_and_info`, `bigwig`, `bigbed`
//   the four `Into<BigWigRead<R>>` / `Into<BigBedRead<R>>` impls of the `_move` iterators (hand the reader back)
//   `open_file` (x3) and `ReopenableFile::reopen` (utils/file/reopen.rs)
//   the error conversions (`From` impls) of the reader error enums.
// C03/C04/C10 "The answer is the same through the caching reader, through a reopened reader, and after any sequence
// of earlier queries": every query contract of this project (query_glue, tree_offsets, rt_search, cache, bw_dec, ...)
// is stated on a reader value `{ info, read }` where `info` is what `read_info` made of the file under `read`.
// The plumbing must hand that pair on UNCHANGED:
//   * `cached()` keeps the info and wraps THE SAME reader in a fresh cache (unit cache: a fresh cache is coherent);
//   * `reopen()` yields a reader over the same file content whose info states the same facts about the file; the
//     lazily cached R-tree positions (`full_index_tree_offset`, `index_tree_offset`: positions in that same file) are
//     either taken over or dropped -- both keep unit tree_offsets' `offsets_ok` invariant, and the answer of a tree
//     lookup does not depend on them (tree_offsets: `full/answer_is_full_index_offset_plus_48_whatever_the_caches_hold`);
//   * `info()` / `chroms()` report the reader's own info / chromosome table (C10 "Chromosome table ... match the
//     encoded content");
//   * `GenericBBIRead::open` opens a bigWig as `BigWig` and a bigBed as `BigBed` (C10 `observe_at`: "BigWigRead/
//     BigBedRead/GenericBBIRead::open");
//   * a refusal keeps its kind through every conversion behind `?`: an unknown chromosome stays
//     `InvalidChromosome(that name)`, an I/O error stays that I/O error, a bad magic stays a bad-magic refusal, a
//     missing reduction level stays `ReductionLevelNotFound` (query_glue states WHEN a query fails; which error the
//     caller then sees is decided here).
use vstd::prelude::*;
verus! {

// ---------------- shims (each one is a listed assumption) ----------------
/// byteordered::Endianness (external crate; only copied)
#[derive(Clone, Copy)]
pub enum Endianness { Big, Little }
/// std::io::Error (opaque)
#[verifier::external_body]
pub struct IoError { _p: u8 }
/// bed::bedparser::BedValueError (opaque; never constructed here)
#[verifier::external_body]
pub struct BedValueError { _p: u8 }
/// a chromosome name / message (`String`): opaque, with real equality
#[verifier::external_body]
pub struct Name { _s: String }
impl Name {
    /// `String::clone` / `to_owned` / `to_string`: the same text
    #[verifier::external_body]
    pub fn clone(&self) -> (r: Name) ensures r == *self, { unimplemented!() }
    #[verifier::external_body]
    pub fn to_owned(&self) -> (r: Name) ensures r == *self, { unimplemented!() }
    #[verifier::external_body]
    pub fn to_string(&self) -> (r: Name) ensures r == *self, { unimplemented!() }
}
/// `"..".to_owned()` / `String::new()` / `format!(..)`: SOME text (nothing promised; only reachable through an edit)
#[verifier::external_body]
pub fn some_text() -> (r: Name) { unimplemented!() }
/// `&[]` (0 hits on /repo): the empty slice
#[verifier::external_body]
pub fn empty_slice<'a, T>() -> (r: &'a [T]) ensures r@.len() == 0, { unimplemented!() }
// std stand-ins that only matter for CHANGED code (0 hits on /repo)
pub assume_specification<T, E>[Result::<T, E>::unwrap_or](x: Result<T, E>, d: T) -> (v: T)
    ensures x matches Ok(y) ==> v == y, x is Err ==> v == d;

#[derive(Copy, Clone)]
pub enum BBIFile {
    BigWig,
    BigBed,
}
#[derive(Copy, Clone)]
pub struct ZoomHeader {
    pub reduction_level: u32,
    pub data_offset: u64,
    pub index_offset: u64,
    pub index_tree_offset: Option<u64>,
}
#[derive(Copy, Clone)]
pub struct BBIHeader {
    pub endianness: Endianness,
    pub version: u16,
    pub field_count: u16,
    pub defined_field_count: u16,

    pub zoom_levels: u16,
    pub chromosome_tree_offset: u64,
    pub full_data_offset: u64,
    pub full_index_offset: u64,
    pub full_index_tree_offset: Option<u64>,
    pub auto_sql_offset: u64,
    pub total_summary_offset: u64,
    pub uncompress_buf_size: u32,
}
// R11: `name: String` -> `name: Name`
pub struct ChromInfo {
    pub name: Name,
    pub length: u32,
    pub id: u32,
}
pub struct BBIFileInfo {
    pub filetype: BBIFile,
    pub header: BBIHeader,
    pub zoom_headers: Vec<ZoomHeader>,
    pub chrom_info: Vec<ChromInfo>,
}
/// `#[derive(Clone)]` of `BBIFileInfo` (compiler-generated, not repository text).  ASSUMED: field by field --
/// `BBIFile`, `BBIHeader`, `ZoomHeader` are `Copy`; `Vec::clone` clones element by element; `ChromInfo`'s derived clone
/// clones the `String` (same text) and copies the two numbers.
impl Clone for BBIFileInfo {
    #[verifier::external_body]
    fn clone(&self) -> (r: Self)
        ensures r.filetype == self.filetype, r.header == self.header, r.zoom_headers@ == self.zoom_headers@,
            r.chrom_info@ == self.chrom_info@,
    { unimplemented!() }
}
pub struct ChromIdNotFound(pub Name);
// thiserror attributes dropped; io::Error -> opaque IoError; String payloads -> Name
pub enum BBIFileReadInfoError {
    UnknownMagic,
    InvalidChroms,
    IoError(IoError),
}
pub enum CirTreeSearchError {
    InvalidChromosome(Name),
    IoError(IoError),
}
pub enum BBIReadError {
    InvalidChromosome(Name),
    UnknownMagic,
    InvalidFile(Name),
    BedValueError(BedValueError),
    IoError(IoError),
}
pub enum ZoomIntervalError {
    ReductionLevelNotFound,
    BBIReadError(BBIReadError),
}
    pub enum FullDataCirTreeError {
        UnknownMagic,
        IoError(IoError),
    }
    pub enum ZoomDataCirTreeError {
        UnknownMagic,
        ReductionLevelNotFound,
        IoError(IoError),
    }
pub enum GenericBBIFileOpenError {
    NotABBIFile,
    InvalidChroms,
    IoError(IoError),
}
pub enum BigWigReadOpenError {
    NotABigWig,
    InvalidChroms,
    IoError(IoError),
}

// =====================================================================================
// (1) the conversions behind `?`: each keeps the KIND of the refusal and its payload
// =====================================================================================
// `impl From<A> for B { fn from(x: A) -> Self }` -> free function `a_to_b(x: A) -> B` (Verus `?` does not go through
// user `From` impls); the bodies are the repository's.
pub fn cinf_to_read(e: ChromIdNotFound) -> (r: BBIReadError)
    ensures
        
        r == BBIReadError::InvalidChromosome(e.0),
{
        BBIReadError::InvalidChromosome(e.0)
    }
pub fn cts_to_read(value: CirTreeSearchError) -> (r: BBIReadError)
    ensures
        
        value matches CirTreeSearchError::InvalidChromosome(n) ==> r == BBIReadError::InvalidChromosome(n),
        
        value matches CirTreeSearchError::IoError(x) ==> r == BBIReadError::IoError(x),
{
        match value {
            CirTreeSearchError::InvalidChromosome(chrom) => BBIReadError::InvalidChromosome(chrom),
            CirTreeSearchError::IoError(e) => BBIReadError::IoError(e),
        }
    }
pub fn fdct_to_read(value: FullDataCirTreeError) -> (r: BBIReadError)
    ensures
        
        value is UnknownMagic ==> r is UnknownMagic,
        
        value matches FullDataCirTreeError::IoError(x) ==> r == BBIReadError::IoError(x),
{
        match value {
            FullDataCirTreeError::UnknownMagic => BBIReadError::UnknownMagic,
            FullDataCirTreeError::IoError(e) => BBIReadError::IoError(e),
        }
    }
pub fn cinf_to_zoom(e: ChromIdNotFound) -> (r: ZoomIntervalError)
    ensures
        
        r == ZoomIntervalError::BBIReadError(BBIReadError::InvalidChromosome(e.0)),
{
        ZoomIntervalError::BBIReadError(BBIReadError::InvalidChromosome(e.0))
    }
pub fn cts_to_zoom(e: CirTreeSearchError) -> (r: ZoomIntervalError)
    ensures
        
        e matches CirTreeSearchError::InvalidChromosome(n) ==> r == ZoomIntervalError::BBIReadError(BBIReadError::InvalidChromosome(n)),
        
        e matches CirTreeSearchError::IoError(x) ==> r == ZoomIntervalError::BBIReadError(BBIReadError::IoError(x)),
{
        ZoomIntervalError::BBIReadError(cts_to_read(e))
    }
pub fn zdct_to_zoom(value: ZoomDataCirTreeError) -> (r: ZoomIntervalError)
    ensures
        
        value is UnknownMagic ==> r == ZoomIntervalError::BBIReadError(BBIReadError::UnknownMagic),
        
        value is ReductionLevelNotFound <==> r is ReductionLevelNotFound,
        
        value matches ZoomDataCirTreeError::IoError(x) ==> r == ZoomIntervalError::BBIReadError(BBIReadError::IoError(x)),
{
        match value {
            ZoomDataCirTreeError::UnknownMagic => {
                ZoomIntervalError::BBIReadError(BBIReadError::UnknownMagic)
            }
            ZoomDataCirTreeError::ReductionLevelNotFound => {
                ZoomIntervalError::ReductionLevelNotFound
            }
            ZoomDataCirTreeError::IoError(e) => {
                ZoomIntervalError::BBIReadError(BBIReadError::IoError(e))
            }
        }
    }
pub fn info_to_generic_open(error: BBIFileReadInfoError) -> (r: GenericBBIFileOpenError)
    ensures
        
        error is UnknownMagic <==> r is NotABBIFile,
        
        error is InvalidChroms <==> r is InvalidChroms,
        
        error matches BBIFileReadInfoError::IoError(x) ==> r == GenericBBIFileOpenError::IoError(x),
{
        match error {
            BBIFileReadInfoError::UnknownMagic => GenericBBIFileOpenError::NotABBIFile,
            BBIFileReadInfoError::InvalidChroms => GenericBBIFileOpenError::InvalidChroms,
            BBIFileReadInfoError::IoError(e) => GenericBBIFileOpenError::IoError(e),
        }
    }
pub fn io_to_bigwig_open(error: IoError) -> (r: BigWigReadOpenError)
    ensures
        
        r == BigWigReadOpenError::IoError(error),
{
        BigWigReadOpenError::IoError(error)
    }

// =====================================================================================
// (2) the readers
// =====================================================================================
/// R11 shim for the reader `R` (`R: BBIFileRead`, `R: SeekableRead`, `R: Reopen`): ghost file content, OS position and
/// an environment flag (as in units asql_read / tree_offsets)
#[verifier::external_body]
pub struct VRead { _p: u8 }
impl VRead {
    pub uninterp spec fn content(&self) -> Seq<u8>;
    pub uninterp spec fn pos(&self) -> int;
    pub uninterp spec fn env_ok(&self) -> bool;
    /// WHICH read position (cursor) this handle reads through.  Two handles with the same `cursor_id` share one
    /// position: a seek/read on one moves the other (what `File::try_clone` / `dup` gives); handles with different
    /// ids are independent.
    pub uninterp spec fn cursor_id(&self) -> int;
    /// ASSUMED contract of `R::reopen` (trait Reopen, utils/file/reopen.rs: "reopening should be independent with
    /// respect to seeks and reads from the original object"): may fail; the new handle is over the SAME file content,
    /// at position 0, through a cursor of its OWN.  For `ReopenableFile` this is what `file_reopen/*` below proves from
    /// `File::open`'s contract ("the path still names the same, unmodified file"; a fresh open file description); for
    /// `CachedBBIFileRead<R>` it is what unit cache proves from R's (`reopen/reopened_reader_is_coherent_for_the_same_file`).
    #[verifier::external_body]
    pub fn reopen(&self) -> (r: Result<VRead, IoError>)
        ensures r matches Ok(f) ==> f.content() == self.content() && f.pos() == 0 && f.cursor_id() != self.cursor_id(),
    { unimplemented!() }
}
/// R11 shim for `CachedBBIFileRead<R>` (R = VRead).  ASSUMED contract of `CachedBBIFileRead::new(read)`: wraps the
/// given reader, both memo tables empty (unit cache verifies the real text:
/// `new/fresh_reader_is_coherent_and_wraps_the_given_file`).
#[verifier::external_body]
pub struct CachedRead { _p: u8 }
impl CachedRead {
    pub uninterp spec fn inner(&self) -> VRead;
    pub uninterp spec fn fresh(&self) -> bool;
    #[verifier::external_body]
    pub fn new(read: VRead) -> (r: CachedRead) ensures r.inner() == read, r.fresh(), { unimplemented!() }
}

// ---------------- what "the same info" means across a reopen ----------------
/// `b` states the same facts about the file as `a`: everything equal except possibly the two kinds of lazily cached
/// R-tree positions
pub open spec fn same_file_facts(a: BBIFileInfo, b: BBIFileInfo) -> bool {
    &&& b.filetype == a.filetype
    &&& b.chrom_info@ == a.chrom_info@
    &&& b.header == BBIHeader { full_index_tree_offset: b.header.full_index_tree_offset, ..a.header }
    &&& b.zoom_headers@.len() == a.zoom_headers@.len()
    &&& forall|i: int| 0 <= i < a.zoom_headers@.len() ==>
            (#[trigger] b.zoom_headers@[i]) == ZoomHeader { index_tree_offset: b.zoom_headers@[i].index_tree_offset, ..a.zoom_headers@[i] }
}
/// every cached tree position of `b` is `a`'s (taken over) -- or dropped
pub open spec fn caches_taken_over_or_dropped(a: BBIFileInfo, b: BBIFileInfo) -> bool {
    &&& b.header.full_index_tree_offset is Some ==> b.header.full_index_tree_offset == a.header.full_index_tree_offset
    &&& b.zoom_headers@.len() == a.zoom_headers@.len()
    &&& forall|i: int| 0 <= i < a.zoom_headers@.len() ==>
            ((#[trigger] b.zoom_headers@[i]).index_tree_offset is Some ==> b.zoom_headers@[i].index_tree_offset == a.zoom_headers@[i].index_tree_offset)
}
/// unit tree_offsets' cache-coherence invariant, word for word
pub open spec fn offsets_ok(info: BBIFileInfo) -> bool {
    &&& info.header.full_index_tree_offset matches Some(x) ==> x == info.header.full_index_offset + 48
    &&& forall|i: int| 0 <= i < info.zoom_headers@.len() ==>
            ((#[trigger] info.zoom_headers@[i]).index_tree_offset matches Some(x) ==> x == info.zoom_headers@[i].index_offset + 48)
}
/// the cached positions are positions in the same file: tree_offsets' invariant carries over to the reopened reader
pub proof fn lemma_reopened_info_keeps_offsets_ok(a: BBIFileInfo, b: BBIFileInfo)
    requires same_file_facts(a, b), caches_taken_over_or_dropped(a, b), offsets_ok(a),
    ensures
        
        offsets_ok(b),
{
    assert forall|i: int| 0 <= i < b.zoom_headers@.len() implies
        ((#[trigger] b.zoom_headers@[i]).index_tree_offset matches Some(x) ==> x == b.zoom_headers@[i].index_offset + 48) by {
        let _ = a.zoom_headers@[i];
    }
}

pub struct BigWigRead<R> {
    pub info: BBIFileInfo,
    pub read: R,
}
pub struct BigBedRead<R> {
    pub info: BBIFileInfo,
    pub read: R,
}

// ---------------- BigWigRead ----------------
impl<R> BigWigRead<R> {
pub fn info(&self) -> (r: &BBIFileInfo)
    ensures
        
        *r == self.info,
{
        &self.info
    }
pub fn chroms(&self) -> (r: &[ChromInfo])
    ensures
        
        r@ == self.info.chrom_info@,
{
        &self.info.chrom_info
    }
pub fn into_inner(self) -> (r: R)
    ensures
        
        r == self.read,
{
        self.read
    }
// `impl<R: BBIFileRead> BBIRead for BigWigRead<R>`: the trait methods as inherent methods under another name
pub fn bbiread_info(&self) -> (r: &BBIFileInfo)
    ensures
        
        *r == self.info,
{
        &self.info
    }
pub fn bbiread_chroms(&self) -> (r: &[ChromInfo])
    ensures
        
        r@ == self.info.chrom_info@,
{
        &self.info.chrom_info
    }
// `impl<R: BBIFileRead> BBIReadInternal for BigWigRead<R>`
pub fn reader(&mut self) -> (r: &mut R)
    ensures
        
        *r == old(self).read && *final(r) == final(self).read && final(self).info == old(self).info,
{
        &mut self.read
    }
pub fn reader_and_info(&mut self) -> (r: (&mut R, &mut BBIFileInfo))
    ensures
        
        *r.0 == old(self).read && *final(r.0) == final(self).read && *r.1 == old(self).info && *final(r.1) == final(self).info,
{
        (&mut self.read, &mut self.info)
    }
// `impl<R> BigWigRead<R> where R: BBIFileRead`
pub fn with_info(info: BBIFileInfo, read: R) -> (r: Self)
    ensures
        
        r.info == info && r.read == read,
{
        BigWigRead { info, read }
    }
pub fn inner_read(&self) -> (r: &R)
    ensures
        
        *r == self.read,
{
        &self.read
    }
}

impl BigWigRead<VRead> {
// `impl<R> BigWigRead<R> where R: SeekableRead`, R = VRead; `CachedBBIFileRead<R>` -> `CachedRead`
pub fn cached(self) -> (r: BigWigRead<CachedRead>)
    ensures
        
        r.info == self.info,
        
        r.read.inner() == self.read && r.read.fresh(),
{
        let read = CachedRead::new(self.read);
        BigWigRead {
            read,
            info: self.info,
        }
    }
// `impl<R: Reopen> Reopen for BigWigRead<R>`, R = VRead; `io::Result<Self>` -> `Result<Self, IoError>`
pub fn reopen(&self) -> (r: Result<Self, IoError>)
    ensures
        
        r matches Ok(c) ==> c.read.content() == self.read.content(),
        
        r matches Ok(c) ==> same_file_facts(self.info, c.info),
        
        r matches Ok(c) ==> caches_taken_over_or_dropped(self.info, c.info),
        
        r matches Ok(c) ==> c.read.cursor_id() != self.read.cursor_id(),
        
        r matches Ok(c) ==> c.read.pos() == 0,
        
        r matches Ok(c) ==> c.info.header == self.info.header && c.info.zoom_headers@ == self.info.zoom_headers@,
{
        Ok(BigWigRead {
            info: self.info.clone(),
            read: self.read.reopen()?,
        })
    }
}

// ---------------- BigBedRead ----------------
impl<R> BigBedRead<R> {
pub fn info(&self) -> (r: &BBIFileInfo)
    ensures
        
        *r == self.info,
{
        &self.info
    }
pub fn chroms(&self) -> (r: &[ChromInfo])
    ensures
        
        r@ == self.info.chrom_info@,
{
        &self.info.chrom_info
    }
pub fn into_inner(self) -> (r: R)
    ensures
        
        r == self.read,
{
        self.read
    }
pub fn bbiread_info(&self) -> (r: &BBIFileInfo)
    ensures
        
        *r == self.info,
{
        &self.info
    }
pub fn bbiread_chroms(&self) -> (r: &[ChromInfo])
    ensures
        
        r@ == self.info.chrom_info@,
{
        &self.info.chrom_info
    }
// `impl<R: BBIFileRead> BBIReadInternal for BigBedRead<R>`
pub fn reader(&mut self) -> (r: &mut R)
    ensures
        
        *r == old(self).read && *final(r) == final(self).read && final(self).info == old(self).info,
{
        &mut self.read
    }
pub fn reader_and_info(&mut self) -> (r: (&mut R, &mut BBIFileInfo))
    ensures
        
        *r.0 == old(self).read && *final(r.0) == final(self).read && *r.1 == old(self).info && *final(r.1) == final(self).info,
{
        (&mut self.read, &mut self.info)
    }
pub fn with_info(info: BBIFileInfo, read: R) -> (r: Self)
    ensures
        
        r.info == info && r.read == read,
{
        BigBedRead { info, read }
    }
pub fn inner_read(&self) -> (r: &R)
    ensures
        
        *r == self.read,
{
        &self.read
    }
}

impl BigBedRead<VRead> {
pub fn cached(self) -> (r: BigBedRead<CachedRead>)
    ensures
        
        r.info == self.info,
        
        r.read.inner() == self.read && r.read.fresh(),
{
        let read = CachedRead::new(self.read);
        BigBedRead {
            read,
            info: self.info,
        }
    }
pub fn reopen(&self) -> (r: Result<Self, IoError>)
    ensures
        
        r matches Ok(c) ==> c.read.content() == self.read.content(),
        
        r matches Ok(c) ==> same_file_facts(self.info, c.info),
        
        r matches Ok(c) ==> caches_taken_over_or_dropped(self.info, c.info),
        
        r matches Ok(c) ==> c.read.cursor_id() != self.read.cursor_id(),
        
        r matches Ok(c) ==> c.read.pos() == 0,
        
        r matches Ok(c) ==> c.info.header == self.info.header && c.info.zoom_headers@ == self.info.zoom_headers@,
{
        Ok(BigBedRead {
            info: self.info.clone(),
            read: self.read.reopen()?,
        })
    }
}

// ---------------- the `_move` iterators hand their reader back (`Into<BigWigRead<R>>` / `Into<BigBedRead<R>>`) ----------------
// C03/C04 "after any sequence of earlier queries": `get_interval_move` / `get_zoom_interval_move` consume the reader;
// the caller continues on what `.into()` hands back -- the iterator's own reader, whole.
// Structs as in unit query_glue: `<R, B>` -> `<B>`, the `PhantomData<R>` field dropped, `std::vec::IntoIter<T>` -> `Vec<T>`.
#[derive(Copy, Clone)]
pub struct Block {
    pub offset: u64,
    pub size: u64,
}
#[derive(Copy, Clone)]
pub struct Value {
    pub start: u32,
    pub end: u32,
    pub value: f32,
}
#[derive(Copy, Clone)]
pub struct Summary {
    pub total_items: u64,
    pub bases_covered: u64,
    pub min_val: f64,
    pub max_val: f64,
    pub sum: f64,
    pub sum_squares: f64,
}
#[derive(Copy, Clone)]
pub struct ZoomRecord {
    pub chrom: u32,
    pub start: u32,
    pub end: u32,
    pub summary: Summary,
}
pub struct BedEntry {
    pub start: u32,
    pub end: u32,
    pub rest: Name,
}
pub struct BigWigIntervalIter<B> {
pub bigwig: B,
pub known_offset: u64,
pub blocks: Vec<Block>,
pub vals: Option<Vec<Value>>,
pub chrom: u32,
pub start: u32,
pub end: u32,
}
pub struct BigBedIntervalIter<B> {
pub bigbed: B,
pub known_offset: u64,
pub blocks: Vec<Block>,
pub vals: Option<Vec<BedEntry>>,
pub expected_chrom: u32,
pub start: u32,
pub end: u32,
}
pub struct ZoomIntervalIter<B> {
pub bbifile: B,
pub known_offset: u64,
pub blocks: Vec<Block>,
pub vals: Option<Vec<ZoomRecord>>,
pub chrom: u32,
pub start: u32,
pub end: u32,
}
impl<R> BigWigIntervalIter<BigWigRead<R>> {
pub fn into_reader(self) -> (r: BigWigRead<R>)
    ensures
        
        r == self.bigwig,
{
        self.bigwig
    }
}
impl<R> BigBedIntervalIter<BigBedRead<R>> {
pub fn into_reader(self) -> (r: BigBedRead<R>)
    ensures
        
        r == self.bigbed,
{
        self.bigbed
    }
}
impl<R> ZoomIntervalIter<BigWigRead<R>> {
pub fn into_reader(self) -> (r: BigWigRead<R>)
    ensures
        
        r == self.bbifile,
{
        self.bbifile
    }
}
impl<R> ZoomIntervalIter<BigBedRead<R>> {
pub fn into_reader(self) -> (r: BigBedRead<R>)
    ensures
        
        r == self.bbifile,
{
        self.bbifile
    }
}

// ---------------- GenericBBIRead ----------------
pub enum GenericBBIRead<R> {
    BigWig(BigWigRead<R>),
    BigBed(BigBedRead<R>),
}
/// the info / the reader of whichever kind it is
pub open spec fn ginfo<R>(g: GenericBBIRead<R>) -> BBIFileInfo {
    match g { GenericBBIRead::BigWig(b) => b.info, GenericBBIRead::BigBed(b) => b.info }
}
pub open spec fn gread<R>(g: GenericBBIRead<R>) -> R {
    match g { GenericBBIRead::BigWig(b) => b.read, GenericBBIRead::BigBed(b) => b.read }
}
/// what `read_info` makes of a file (units info + chrom_rd own its contract; as in unit asql_read: it reads, it does
/// not write, and its result is a function of the file content)
pub uninterp spec fn info_of(c: Seq<u8>) -> Option<BBIFileInfo>;
#[verifier::external_body]
pub fn read_info(file: &mut VRead) -> (r: Result<BBIFileInfo, BBIFileReadInfoError>)
    ensures final(file).content() == old(file).content(), final(file).env_ok() == old(file).env_ok(),
        r matches Ok(i) ==> info_of(old(file).content()) == Some(i),
        (old(file).env_ok() && info_of(old(file).content()) is Some) ==> r is Ok,
        (r matches Err(e) && e is UnknownMagic) ==> info_of(old(file).content()) is None,
{ unimplemented!() }

impl<R> GenericBBIRead<R> {
// `impl<R: SeekableRead> BBIRead for GenericBBIRead<R>`
pub fn info(&self) -> (r: &BBIFileInfo)
    ensures
        
        *r == ginfo(*self),
{
        match self {
            GenericBBIRead::BigWig(b) => b.info(),
            GenericBBIRead::BigBed(b) => b.info(),
        }
    }
pub fn chroms(&self) -> (r: &[ChromInfo])
    ensures
        
        r@ == ginfo(*self).chrom_info@,
{
        match self {
            GenericBBIRead::BigWig(b) => b.chroms(),
            GenericBBIRead::BigBed(b) => b.chroms(),
        }
    }
// `impl<R: SeekableRead> BBIReadInternal for GenericBBIRead<R>`
pub fn reader(&mut self) -> (r: &mut R)
    ensures
        
        *r == gread(*old(self)) && *final(r) == gread(*final(self)) && ginfo(*final(self)) == ginfo(*old(self))
            && (*final(self) is BigWig <==> *old(self) is BigWig),
{
        match self {
            GenericBBIRead::BigWig(b) => b.reader(),
            GenericBBIRead::BigBed(b) => b.reader(),
        }
    }
pub fn reader_and_info(&mut self) -> (r: (&mut R, &mut BBIFileInfo))
    ensures
        
        *r.0 == gread(*old(self)) && *final(r.0) == gread(*final(self)) && *r.1 == ginfo(*old(self)) && *final(r.1) == ginfo(*final(self))
            && (*final(self) is BigWig <==> *old(self) is BigWig),
{
        match self {
            GenericBBIRead::BigWig(b) => b.reader_and_info(),
            GenericBBIRead::BigBed(b) => b.reader_and_info(),
        }
    }
pub fn bigwig(self) -> (r: Option<BigWigRead<R>>)
    ensures
        
        self matches GenericBBIRead::BigWig(b) ==> r == Some(b),
        self is BigBed ==> r is None,
{
        match self {
            GenericBBIRead::BigWig(b) => Some(b),
            GenericBBIRead::BigBed(_) => None,
        }
    }
pub fn bigbed(self) -> (r: Option<BigBedRead<R>>)
    ensures
        
        self matches GenericBBIRead::BigBed(b) ==> r == Some(b),
        self is BigWig ==> r is None,
{
        match self {
            GenericBBIRead::BigBed(b) => Some(b),
            GenericBBIRead::BigWig(_) => None,
        }
    }
}

impl GenericBBIRead<VRead> {
// `impl<R: BBIFileRead> GenericBBIRead<R>`, R = VRead; `read_info(&mut read)?` -> explicit match with the extracted
// conversion `info_to_generic_open`; 0 hits on /repo: `read_info(..).map_err(|_| E)?` -> match (definition of map_err + `?`)
pub fn open(mut read: VRead) -> (r: Result<Self, GenericBBIFileOpenError>)
    ensures
        
        r matches Ok(g) ==> info_of(read.content()) == Some(ginfo(g)) && gread(g).content() == read.content(),
        
        r matches Ok(g) ==> (g is BigWig <==> ginfo(g).filetype is BigWig),
        
        (read.env_ok() && info_of(read.content()) is Some) ==> r is Ok,
        
        (r matches Err(e) && e is NotABBIFile) ==> info_of(read.content()) is None,
{
        let info = (match read_info(&mut read) { Ok(i__) => i__, Err(e__) => return Err(info_to_generic_open(e__)) });
        match info.filetype {
            BBIFile::BigWig => Ok(GenericBBIRead::BigWig(BigWigRead { info, read })),
            BBIFile::BigBed => Ok(GenericBBIRead::BigBed(BigBedRead { info, read })),
        }
    }
}

// =====================================================================================
// (3) opening by path: `open_file` x3 and `ReopenableFile::reopen` (utils/file/reopen.rs)
// =====================================================================================
// C03/C04/C10 "through a reopened reader": `open_file` must remember THE path it opened (a later `reopen()` opens
// that path again) and must hand back exactly what `open` made of exactly that file.
/// a path (`impl AsRef<Path>`, `&str`, `PathBuf`): opaque, with real equality; conversions keep the path
#[verifier::external_body]
pub struct PathV { _p: u8 }
impl PathV {
    #[verifier::external_body] pub fn as_ref(&self) -> (r: &PathV) ensures *r == *self, { unimplemented!() }
    #[verifier::external_body] pub fn to_owned(&self) -> (r: PathV) ensures r == *self, { unimplemented!() }
    #[verifier::external_body] pub fn to_path_buf(&self) -> (r: PathV) ensures r == *self, { unimplemented!() }
    #[verifier::external_body] pub fn clone(&self) -> (r: PathV) ensures r == *self, { unimplemented!() }
    #[verifier::external_body] pub fn into(&self) -> (r: PathV) ensures r == *self, { unimplemented!() }
    /// `PathBuf::new()` (0 hits on /repo): SOME path, nothing promised
    #[verifier::external_body] pub fn new() -> (r: PathV) { unimplemented!() }
}
/// `std::io::SeekFrom` (R11: `io::SeekFrom` -> `SeekFrom`)
pub enum SeekFrom { Start(u64), End(i64), Current(i64) }
/// `std::io::IoSliceMut<'_>` (opaque; only handed on)
#[verifier::external_body]
pub struct IoSliceMut { _p: u8 }
/// `std::fs::File`: an opaque handle = WHICH file it is on (`node`: the file the OS resolved, content included), WHICH
/// open file description it reads through (`cursor_id`: the kernel object that holds the read position) and where
/// that position stands.
#[verifier::external_body]
pub struct VFile { _p: u8 }
impl VFile {
    pub uninterp spec fn node(&self) -> int;
    pub uninterp spec fn cursor_id(&self) -> int;
    pub uninterp spec fn pos(&self) -> int;
    /// `File::try_clone` (std: "Creates a new File instance that shares the same underlying file handle ... Reads,
    /// writes, and seeks will affect both File instances simultaneously" -- `dup`): may fail; the new handle is on the
    /// same file and reads through THE SAME cursor (shared position).  0 hits on /repo.
    #[verifier::external_body]
    pub fn try_clone(&self) -> (r: Result<VFile, IoError>)
        ensures r matches Ok(f) ==> f.node() == self.node() && f.cursor_id() == self.cursor_id() && f.pos() == self.pos(),
    { unimplemented!() }
    // The seven `Seek` / `Read` methods of `File`.  ASSUMED: nothing about WHAT they answer (short reads, EINTR, ...):
    // only a name for "an outcome this call can have on this handle" (`*_out`: handle and buffer before, handle and
    // buffer after, result), and that the handle stays on its file and cursor.
    pub uninterp spec fn seek_out(before: VFile, pos: SeekFrom, after: VFile, r: Result<u64, IoError>) -> bool;
    pub uninterp spec fn read_out(before: VFile, buf: Seq<u8>, after: VFile, buf_after: Seq<u8>, r: Result<usize, IoError>) -> bool;
    pub uninterp spec fn read_vectored_out(before: VFile, bufs: Seq<IoSliceMut>, after: VFile, bufs_after: Seq<IoSliceMut>, r: Result<usize, IoError>) -> bool;
    pub uninterp spec fn read_to_end_out(before: VFile, buf: Seq<u8>, after: VFile, buf_after: Seq<u8>, r: Result<usize, IoError>) -> bool;
    pub uninterp spec fn read_to_string_out(before: VFile, buf: Name, after: VFile, buf_after: Name, r: Result<usize, IoError>) -> bool;
    pub uninterp spec fn read_exact_out(before: VFile, buf: Seq<u8>, after: VFile, buf_after: Seq<u8>, r: Result<(), IoError>) -> bool;
    #[verifier::external_body]
    pub fn seek(&mut self, pos: SeekFrom) -> (r: Result<u64, IoError>)
        ensures VFile::seek_out(*old(self), pos, *final(self), r),
            final(self).node() == old(self).node(), final(self).cursor_id() == old(self).cursor_id(),
    { unimplemented!() }
    #[verifier::external_body]
    pub fn read(&mut self, buf: &mut [u8]) -> (r: Result<usize, IoError>)
        ensures VFile::read_out(*old(self), old(buf)@, *final(self), final(buf)@, r),
            final(self).node() == old(self).node(), final(self).cursor_id() == old(self).cursor_id(),
    { unimplemented!() }
    #[verifier::external_body]
    pub fn read_vectored(&mut self, bufs: &mut [IoSliceMut]) -> (r: Result<usize, IoError>)
        ensures VFile::read_vectored_out(*old(self), old(bufs)@, *final(self), final(bufs)@, r),
            final(self).node() == old(self).node(), final(self).cursor_id() == old(self).cursor_id(),
    { unimplemented!() }
    #[verifier::external_body]
    pub fn read_to_end(&mut self, buf: &mut Vec<u8>) -> (r: Result<usize, IoError>)
        ensures VFile::read_to_end_out(*old(self), old(buf)@, *final(self), final(buf)@, r),
            final(self).node() == old(self).node(), final(self).cursor_id() == old(self).cursor_id(),
    { unimplemented!() }
    #[verifier::external_body]
    pub fn read_to_string(&mut self, buf: &mut Name) -> (r: Result<usize, IoError>)
        ensures VFile::read_to_string_out(*old(self), *old(buf), *final(self), *final(buf), r),
            final(self).node() == old(self).node(), final(self).cursor_id() == old(self).cursor_id(),
    { unimplemented!() }
    #[verifier::external_body]
    pub fn read_exact(&mut self, buf: &mut [u8]) -> (r: Result<(), IoError>)
        ensures VFile::read_exact_out(*old(self), old(buf)@, *final(self), final(buf)@, r),
            final(self).node() == old(self).node(), final(self).cursor_id() == old(self).cursor_id(),
    { unimplemented!() }
}
/// WHICH file the file system resolves a path to, or the refusal (ASSUMED deterministic while the program runs: "the
/// path keeps naming the same, unmodified file" -- the hypothesis under which a reopened reader can give the same
/// answers at all).  The HANDLE that an `open` returns is new each time: see `file_open`.
pub uninterp spec fn fs_open(p: PathV) -> Result<int, IoError>;
/// `File::open(path)`: refusal as the file system says; else a handle on the file the path names, at position 0,
/// reading through a NEW open file description (nothing is claimed here about how its cursor relates to others:
/// there is no other handle in sight where this shim is used)
#[verifier::external_body]
pub fn file_open(p: &PathV) -> (r: Result<VFile, IoError>)
    ensures fs_open(*p) matches Err(e) ==> r == Err::<VFile, IoError>(e),
        fs_open(*p) matches Ok(n) ==> (r matches Ok(f) && f.node() == n && f.pos() == 0),
{ unimplemented!() }
/// `File::open(path)` while the handle `existing` is alive (inside `ReopenableFile::reopen`: `self.file`): as
/// `file_open`, and the new open file description is not the one any existing handle reads through -- `open(2)`
/// always creates a new one; only `dup`/`try_clone`/`fork` share one.
#[verifier::external_body]
pub fn file_open_beside(existing: &VFile, p: &PathV) -> (r: Result<VFile, IoError>)
    ensures fs_open(*p) matches Err(e) ==> r == Err::<VFile, IoError>(e),
        fs_open(*p) matches Ok(n) ==> (r matches Ok(f) && f.node() == n && f.pos() == 0),
        r matches Ok(f) ==> f.cursor_id() != existing.cursor_id(),
{ unimplemented!() }
/// `eprintln!(..)`: diagnostics only
pub fn eprint_note() {}

// R11: `PathBuf` -> `PathV`, `File` -> `VFile`
pub struct ReopenableFile {
    pub path: PathV,
    pub file: VFile,
}
impl ReopenableFile {
// `impl Reopen for ReopenableFile`; `io::Result<Self>` -> `Result<Self, IoError>`, `File::open(&` -> `file_open_beside(&self.file, &`
// C03/C04/C10/C16 "the answer is the same ... through a reopened reader" / "independent of thread count": every reader
// that a worker thread gets is a `reopen()` of the caller's; the query contracts are stated for a reader whose position
// only its own seeks and reads move.  So the reopened handle must be on the same file AND read through a cursor of its
// own: with a shared cursor (`try_clone`) another reader's seek lands between this reader's seek and its read.
pub fn reopen(&self) -> (r: Result<Self, IoError>)
    ensures
        
        fs_open(self.path) matches Ok(n) ==> (r matches Ok(c) && c.path == self.path && (c.file.node() == n || c.file.node() == self.file.node())),
        
        fs_open(self.path) matches Err(e) ==> r == Err::<ReopenableFile, IoError>(e),
        
        r matches Ok(c) ==> c.file.cursor_id() != self.file.cursor_id(),
        
        r matches Ok(c) ==> c.file.pos() == 0,
{
        Ok(ReopenableFile {
            path: self.path.clone(),
            file: file_open_beside(&self.file, &self.path)?,
        })
    }
// `impl Seek for ReopenableFile` / `impl Read for ReopenableFile`: seven one-line delegations.  Each must be THE
// file's own method of the same name on the reader's own handle (the outcome is one that call can have), the path kept.
pub fn seek(&mut self, pos: SeekFrom) -> (r: Result<u64, IoError>)
    ensures
        
        VFile::seek_out(old(self).file, pos, final(self).file, r),
        
        final(self).path == old(self).path,
{
        self.file.seek(pos)
    }
pub fn read(&mut self, buf: &mut [u8]) -> (r: Result<usize, IoError>)
    ensures
        
        VFile::read_out(old(self).file, old(buf)@, final(self).file, final(buf)@, r),
        
        final(self).path == old(self).path,
{
        self.file.read(buf)
    }
pub fn read_vectored(&mut self, bufs: &mut [IoSliceMut]) -> (r: Result<usize, IoError>)
    ensures
        
        VFile::read_vectored_out(old(self).file, old(bufs)@, final(self).file, final(bufs)@, r),
        
        final(self).path == old(self).path,
{
        self.file.read_vectored(bufs)
    }
pub fn read_to_end(&mut self, buf: &mut Vec<u8>) -> (r: Result<usize, IoError>)
    ensures
        
        VFile::read_to_end_out(old(self).file, old(buf)@, final(self).file, final(buf)@, r),
        
        final(self).path == old(self).path,
{
        self.file.read_to_end(buf)
    }
pub fn read_to_string(&mut self, buf: &mut Name) -> (r: Result<usize, IoError>)
    ensures
        
        VFile::read_to_string_out(old(self).file, *old(buf), final(self).file, *final(buf), r),
        
        final(self).path == old(self).path,
{
        self.file.read_to_string(buf)
    }
pub fn read_exact(&mut self, buf: &mut [u8]) -> (r: Result<(), IoError>)
    ensures
        
        VFile::read_exact_out(old(self).file, old(buf)@, final(self).file, final(buf)@, r),
        
        final(self).path == old(self).path,
{
        self.file.read_exact(buf)
    }
}

/// `BigWigRead::open` / `BigBedRead::open` / `GenericBBIRead::open` on a `ReopenableFile` (under contract in unit
/// asql_read resp. above for R = VRead): here only "the result is a function of the reader handed in"
pub uninterp spec fn bw_open_of(read: ReopenableFile) -> Result<BigWigRead<ReopenableFile>, BigWigReadOpenError>;
pub uninterp spec fn bb_open_of(read: ReopenableFile) -> Result<BigBedRead<ReopenableFile>, BigBedReadOpenError>;
pub uninterp spec fn generic_open_of(read: ReopenableFile) -> Result<GenericBBIRead<ReopenableFile>, GenericBBIFileOpenError>;
pub enum BigBedReadOpenError {
    NotABigBed,
    InvalidChroms,
    IoError(IoError),
}
/// the `From<io::Error>` impls that thiserror's `#[from]` generates (compiler-generated, not repository text;
/// ASSUMED: they wrap, nothing else)
pub fn io_to_bigbed_open(e: IoError) -> (r: BigBedReadOpenError) ensures r == BigBedReadOpenError::IoError(e), { BigBedReadOpenError::IoError(e) }
pub fn io_to_generic_open(e: IoError) -> (r: GenericBBIFileOpenError) ensures r == GenericBBIFileOpenError::IoError(e), { GenericBBIFileOpenError::IoError(e) }

impl BigWigRead<ReopenableFile> {
    #[verifier::external_body]
    pub fn open(read: ReopenableFile) -> (r: Result<Self, BigWigReadOpenError>) ensures r == bw_open_of(read), { unimplemented!() }
// R11: `path: impl AsRef<Path>` -> `PathV`; `File::open(&path)?` -> explicit match with the extracted conversion
// `io_to_bigwig_open`; `eprintln!(..)` -> `eprint_note()`
pub fn open_file(path: PathV) -> (r: Result<Self, BigWigReadOpenError>)
    ensures
        
        fs_open(path) matches Err(e) ==> r == Err::<Self, BigWigReadOpenError>(BigWigReadOpenError::IoError(e)),
        
        fs_open(path) matches Ok(n) ==> exists|f: VFile| f.node() == n && f.pos() == 0 && r == #[trigger] bw_open_of(ReopenableFile { path: path, file: f }),
{
        let reopen = ReopenableFile {
            file: (match file_open(&path) { Ok(f__) => f__, Err(e__) => return Err(io_to_bigwig_open(e__)) }),
            path: path.as_ref().to_owned(),
        };
        let b = BigWigRead::open(reopen);
        if b.is_err() {
            eprint_note();
        }
        b
    }
}
impl BigBedRead<ReopenableFile> {
    #[verifier::external_body]
    pub fn open(read: ReopenableFile) -> (r: Result<Self, BigBedReadOpenError>) ensures r == bb_open_of(read), { unimplemented!() }
pub fn open_file(path: PathV) -> (r: Result<Self, BigBedReadOpenError>)
    ensures
        
        fs_open(path) matches Err(e) ==> r == Err::<Self, BigBedReadOpenError>(BigBedReadOpenError::IoError(e)),
        
        fs_open(path) matches Ok(n) ==> exists|f: VFile| f.node() == n && f.pos() == 0 && r == #[trigger] bb_open_of(ReopenableFile { path: path, file: f }),
{
        let reopen = ReopenableFile {
            file: (match file_open(&path) { Ok(f__) => f__, Err(e__) => return Err(io_to_bigbed_open(e__)) }),
            path: path.as_ref().to_owned(),
        };
        let b = BigBedRead::open(reopen);
        if b.is_err() {
            eprint_note();
        }
        b
    }
}
impl GenericBBIRead<ReopenableFile> {
    #[verifier::external_body]
    pub fn open_reopenable(read: ReopenableFile) -> (r: Result<Self, GenericBBIFileOpenError>) ensures r == generic_open_of(read), { unimplemented!() }
// R11: `path: &str` -> `&PathV`; `GenericBBIRead::open(` -> the shim above (the verified `open` is the R = VRead instance)
pub fn open_file(path: &PathV) -> (r: Result<Self, GenericBBIFileOpenError>)
    ensures
        
        fs_open(*path) matches Err(e) ==> r == Err::<Self, GenericBBIFileOpenError>(GenericBBIFileOpenError::IoError(e)),
        
        fs_open(*path) matches Ok(n) ==> exists|f: VFile| f.node() == n && f.pos() == 0 && r == #[trigger] generic_open_of(ReopenableFile { path: *path, file: f }),
{
        let reopen = ReopenableFile {
            file: (match file_open(path) { Ok(f__) => f__, Err(e__) => return Err(io_to_generic_open(e__)) }),
            path: path.into(),
        };
        let b = GenericBBIRead::open_reopenable(reopen);
        if b.is_err() {
            eprint_note();
        }
        b
    }
}

} // verus!
fn main() {}

