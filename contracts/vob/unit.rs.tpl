//@unit vob
//@serves C17
//@backend verus
// bigwigvaluesoverbed: the per-region fill of `write` -- from `let size = end - start;` to the end of the
// `for val in interval { for i in val.start..val.end { vals[(i - start) as usize] = val.value; } }` nest.
//   C17: "... and the values-over-bed tool reports the per-base values of each region": for a region
//   [start,end) the tool emits end-start numbers; the number for base p is the value of the (unique) stored
//   value, clipped to the region, that contains p, and 0 where there is no data -- for EVERY region, whatever
//   was processed before (a fresh buffer per region).
// NOT covered: BED line parsing, the reader call `get_interval(..)?.collect()`, `to_string`/`join`, output.
use vstd::prelude::*;
verus! {

//@extract struct bigtools/src/bbi.rs Value
//@rule R8
//@end

// ---------------- specification vocabulary (written from the property) ----------------
/// C03 answer shape (same assumed contract as unit stats): inside [s, e), ascending, non-overlapping
pub open spec fn clipped_ordered(v: Seq<Value>, s: u32, e: u32) -> bool {
    &&& forall|i: int| 0 <= i < v.len() ==> s <= (#[trigger] v[i]).start && v[i].start <= v[i].end && v[i].end <= e
    &&& forall|i: int| 0 <= i < v.len() - 1 ==> (#[trigger] v[i]).end <= v[i + 1].start
}
/// base p lies inside value x
pub open spec fn inside(x: Value, p: int) -> bool { x.start <= p < x.end }
/// none of the first n values contains base p
pub open spec fn uncovered(v: Seq<Value>, n: int, p: int) -> bool {
    forall|j: int| 0 <= j < n ==> !inside(#[trigger] v[j], p)
}

// ---------------- lemmas ----------------
/// adjacent ordering + well-formedness ==> every earlier value ends before every later one starts
proof fn lemma_pairwise(v: Seq<Value>, s: u32, e: u32, j: int, k: int)
    requires clipped_ordered(v, s, e), 0 <= j < k < v.len(),
    ensures v[j].end <= v[k].start,
    decreases k - j,
{
    if j + 1 < k {
        lemma_pairwise(v, s, e, j, k - 1);
        assert(v[k - 1].end <= v[k - 1 + 1].start);
        assert(v[k - 1].start <= v[k - 1].end);
    } else {
        assert(v[j].end <= v[j + 1].start);
    }
}

// The carve-out.  `vals` comes IN as a parameter with ARBITRARY content (it stands for whatever a buffer that
// outlives the region would hold) and is rebound `let mut vals = vals;`; the repository text then declares its
// own fresh `let mut vals: Vec<f32> = vec![0f32; size as usize];`, which shadows it.  An edit that hoists the
// buffer out of the per-line loop and only `resize`s it works on the incoming content and is judged here.
//@extract fn bigtools/src/utils/cli/bigwigvaluesoverbed.rs write
//@rule R16
//@presub /\A.*?\n([ \t]*let size = [^;\n]*;.*?)\n[ \t]*let vals_strings\b.*\Z/ => fn fill_region(vals: Vec<f32>, interval: Vec<Value>, start: u32, end: u32) -> Vec<f32> {\n    let mut vals = vals;\n\1\n    vals\n} min=1 count=1
//@sub /for (\w+) in interval \{/ => for i__1 in 0..interval.len() { let \1 = &interval[i__1]; min=0
//@sub /\bvals\[([^\]]*)\] = ([^;]*);/ => vals.set(\1, \2); min=0
//@ret r
//@sig
    requires
        [[L: pre_region_not_inverted]]
        // `let size = end - start` is an unchecked u32 subtraction; the tool does not check it (see NOTES)
        start <= end,
        [[L: pre_query_contract]]
        // ASSUMED C03 contract of `bigwigin.get_interval(chrom, start, end)?.collect()`
        clipped_ordered(interval@, start, end),
    ensures
        [[L: one_number_per_base]]
        r@.len() == end - start,
        [[L: covered_bases_hold_their_value]]
        forall|q: int, j: int| 0 <= q < r@.len() && 0 <= j < interval@.len() && inside(#[trigger] interval@[j], start + q)
            ==> #[trigger] r@[q] == interval@[j].value,
        [[L: uncovered_bases_are_zero_whatever_the_buffer_held]]
        forall|q: int| 0 <= q < r@.len() && uncovered(interval@, interval@.len() as int, start + q)
            ==> #[trigger] r@[q] == 0.0f32,
//@loop 1
            invariant
                [[L: loop/frame]]
                start <= end, clipped_ordered(interval@, start, end),
                vals@.len() == end - start,
                [[L: loop/covered_so_far]]
                forall|q: int, j: int| 0 <= q < vals@.len() && 0 <= j < i__1 && inside(#[trigger] interval@[j], start + q)
                    ==> #[trigger] vals@[q] == interval@[j].value,
                [[L: loop/rest_still_zero]]
                forall|q: int| 0 <= q < vals@.len() && uncovered(interval@, i__1 as int, start + q)
                    ==> #[trigger] vals@[q] == 0.0f32,
//@loop 2
                invariant
                    [[L: inner/frame]]
                    start <= end, clipped_ordered(interval@, start, end),
                    vals@.len() == end - start,
                    0 <= i__1 < interval@.len(), *val == interval@[i__1 as int],
                    [[L: inner/earlier_values_not_overwritten]]
                    forall|q: int, j: int| 0 <= q < vals@.len() && 0 <= j < i__1 && inside(#[trigger] interval@[j], start + q)
                        ==> #[trigger] vals@[q] == interval@[j].value,
                    [[L: inner/this_value_filled_up_to_i]]
                    forall|q: int| 0 <= q < vals@.len() && val.start <= start + q < i
                        ==> #[trigger] vals@[q] == val.value,
                    [[L: inner/rest_still_zero]]
                    forall|q: int| 0 <= q < vals@.len() && uncovered(interval@, i__1 as int, start + q) && !(val.start <= start + q < i)
                        ==> #[trigger] vals@[q] == 0.0f32,
//@at /\bvals\.set\(/ before
                proof {
                    assert(start <= interval@[i__1 as int].start && interval@[i__1 as int].end <= end); [[L: inner/index_in_bounds]]
                    assert forall|j: int| 0 <= j < i__1 implies !inside(#[trigger] interval@[j], i as int) by {
                        lemma_pairwise(interval@, start, end, j, i__1 as int);
                    }
                }
//@end

} // verus!
fn main() {}
