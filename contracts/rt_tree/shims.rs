// ================= ASSUMED iterator shims (R11) =================
/// `VIter<T>`: any FINITE Rust iterator over `T` (the generic `S: Iterator<Item = Section>`, `vec::IntoIter`,
/// itertools' `Chunks` and `Chunk`), seen through two ghost values:
///   `all()`  everything it yields between its creation and exhaustion, in order (never changes);
///   `pos()`  how many of those have been yielded so far.
/// ASSUMED: the iterator protocol (`next` yields `all()[pos()]` and advances, `None` when exhausted and from then
/// on), and that the stream is finite.  Nothing about laziness / side effects of producing an element.
#[verifier::external_body]
#[verifier::reject_recursive_types(T)]
pub struct VIter<T> { _p: core::marker::PhantomData<T> }
/// itertools `IntoChunks` (the value returned by `.chunks(size)`; `.into_iter()` on it yields the groups)
#[verifier::external_body]
#[verifier::reject_recursive_types(T)]
pub struct IntoChunks<T> { _p: core::marker::PhantomData<T> }

impl<T> VIter<T> {
    uninterp spec fn all(&self) -> Seq<T>;
    uninterp spec fn pos(&self) -> nat;
    /// what is still to come
    spec fn rest(&self) -> Seq<T> {
        if self.pos() <= self.all().len() { self.all().subrange(self.pos() as int, self.all().len() as int) } else { Seq::empty() }
    }
    /// `Iterator::next`
    #[verifier::external_body]
    fn next(&mut self) -> (r: Option<T>)
        ensures
            final(self).all() == old(self).all(),
            old(self).pos() < old(self).all().len() ==> r == Some(old(self).all()[old(self).pos() as int]) && final(self).pos() == old(self).pos() + 1,
            old(self).pos() >= old(self).all().len() ==> r is None && final(self).pos() == old(self).pos(),
    { unimplemented!() }
    /// `Iterator::collect::<Vec<_>>()`: everything not yet yielded, in order
    #[verifier::external_body]
    fn collect(self) -> (r: Vec<T>)
        ensures
            self.pos() <= self.all().len() ==> r@ == self.all().subrange(self.pos() as int, self.all().len() as int),
            self.pos() == 0 ==> r@ == self.all(),
    { unimplemented!() }
    /// `Vec::into_iter()`: the elements of the vector, in order
    #[verifier::external_body]
    fn of_vec(v: Vec<T>) -> (r: VIter<T>)
        ensures r.all() == v@, r.pos() == 0,
    { unimplemented!() }
    /// itertools `Itertools::chunks(size)` (of what the iterator has not yielded yet).  ASSUMED contract (itertools docs: "Return an
    /// iterable that can chunk the iterator.  Yield subiterators (chunks) that each yield a fixed number elements,
    /// determined by size.  The last chunk will be shorter if there aren't enough elements." -- and `size == 0`
    /// panics): see `chunked`.  The groups are modelled eagerly; itertools produces them lazily from a shared
    /// buffer, which is the same sequence of groups as long as every group is drained before the next one is
    /// requested -- the two `map(|chunk| ..)` closures do that (`chunk.collect()`, `chunk.map(..).collect()`).
    #[verifier::external_body]
    fn chunks(self, size: usize) -> (r: IntoChunks<T>)
        requires
            size > 0,
        ensures
            chunked(r.groups(), self.rest(), size as int),
            flat(r.groups(), r.groups().len() as int) == self.rest(),
            self.pos() == 0 ==> chunked(r.groups(), self.all(), size as int) && flat(r.groups(), r.groups().len() as int) == self.all(),
    { unimplemented!() }
}
/// adaptor spellings a plausible edit might start calling (`skip`, `take`, `step_by`, `rev`, `filter`-like
/// truncations of the stream or of a chunk): accepted with NO postcondition -- judged by the contract, not rejected
impl<T> VIter<T> {
    #[verifier::external_body] fn skip(self, n: usize) -> (r: VIter<T>) { unimplemented!() }
    #[verifier::external_body] fn take(self, n: usize) -> (r: VIter<T>) { unimplemented!() }
    #[verifier::external_body] fn step_by(self, n: usize) -> (r: VIter<T>) { unimplemented!() }
    #[verifier::external_body] fn rev(self) -> (r: VIter<T>) { unimplemented!() }
    #[verifier::external_body] fn peekable(self) -> (r: VIter<T>) { unimplemented!() }
}
impl<T> IntoChunks<T> {
    uninterp spec fn groups(&self) -> Seq<Seq<T>>;
    /// `(&IntoChunks).into_iter()`: an iterator over the groups, each group a fresh iterator over its members
    #[verifier::external_body]
    fn into_iter(&self) -> (r: VIter<VIter<T>>)
        ensures
            r.pos() == 0,
            r.all().len() == self.groups().len(),
            forall|g: int| 0 <= g < self.groups().len() ==> (#[trigger] r.all()[g]).all() == self.groups()[g] && r.all()[g].pos() == 0,
    { unimplemented!() }
}
/// `Option::unwrap` on the popped root, with a NAMED precondition (vstd's own `unwrap` would report a panic on
/// `None` as an anonymous obligation).  Verified.
fn unwrap_node(o: Option<RTreeChildren>) -> (r: RTreeChildren)
    requires
        [[L: empty_input_gives_one_empty_leaf_and_zero_levels/no_panic_when_there_is_no_node_to_pop]]
        o is Some,
    ensures o == Some(r),
{
    o.unwrap()
}
