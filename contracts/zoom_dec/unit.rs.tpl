//@unit zoom_dec
//@serves C07 C08 C10
//@backend verus
// bbiread::get_zoom_block_values: one uncompressed zoom block (32-byte records) -> the records of
// the queried chromosome that touch the query range.  C07: "a zoom range query returns every
// record intersecting the range"; C10: either byte order.  The contract states the whole result:
// it is the stored records, decoded arithmetically at their published offsets, filtered by
// (chrom == q && end >= s && start <= e), in stored order.
use vstd::prelude::*;
use vstd::std_specs::ops::*;
use vstd::std_specs::convert::FromSpec;
verus! {
//@include ../_shared/floats.rs
//@include ../_shared/bytes.rs

//@extract struct bigtools/src/bbi.rs Summary
//@rule R8
//@end
//@extract struct bigtools/src/bbi.rs ZoomRecord
//@rule R8
//@end

/// shim for byteordered::Endianness (external crate, a plain 2-variant enum)
#[derive(Clone, Copy)]
pub enum Endianness { Big, Little }
pub open spec fn is_big(e: Endianness) -> bool { e is Big }

// ---- format spec (from the published zoom-record layout; shares no code with the reader) ----
/// the single-precision float stored at s[k..k+4] in byte order `big`, widened to f64
pub open spec fn f_at(big: bool, s: Seq<u8>, k: int) -> f64 {
    f64::from_spec(f32_of_bits(d32(big, s, k) as u32))
}
/// record i of a zoom block: chromId, chromStart, chromEnd, validCount (u32), min, max, sum, sumSquares (f32)
pub open spec fn rec_at(big: bool, s: Seq<u8>, i: int) -> ZoomRecord {
    ZoomRecord {
        chrom: d32(big, s, 32 * i) as u32,
        start: d32(big, s, 32 * i + 4) as u32,
        end: d32(big, s, 32 * i + 8) as u32,
        summary: Summary {
            total_items: 0,
            bases_covered: d32(big, s, 32 * i + 12) as u64,
            min_val: f_at(big, s, 32 * i + 16),
            max_val: f_at(big, s, 32 * i + 20),
            sum: f_at(big, s, 32 * i + 24),
            sum_squares: f_at(big, s, 32 * i + 28),
        },
    }
}
/// the reader's selection rule (closed on both sides: a superset of "intersects [start, end)")
pub open spec fn keep(r: ZoomRecord, chrom: u32, start: u32, end: u32) -> bool {
    r.chrom == chrom && r.end >= start && r.start <= end
}
/// the first n records of the block, filtered, in stored order
pub open spec fn zoom_sel(big: bool, s: Seq<u8>, n: int, chrom: u32, start: u32, end: u32) -> Seq<ZoomRecord>
    decreases n
{
    if n <= 0 { Seq::empty() } else {
        let p = zoom_sel(big, s, n - 1, chrom, start, end);
        let r = rec_at(big, s, n - 1);
        if keep(r, chrom, start, end) { p.push(r) } else { p }
    }
}
/// C07: every stored record that intersects [start, end) on the chromosome is in the selection
pub proof fn lemma_sel_complete(big: bool, s: Seq<u8>, n: int, chrom: u32, start: u32, end: u32, i: int)
    requires 0 <= i < n, keep(rec_at(big, s, i), chrom, start, end),
    ensures zoom_sel(big, s, n, chrom, start, end).contains(rec_at(big, s, i)),
    decreases n
{
    let p = zoom_sel(big, s, n - 1, chrom, start, end);
    let r = rec_at(big, s, n - 1);
    if i == n - 1 {
        assert(p.push(r)[p.len() as int] == r);
    } else {
        lemma_sel_complete(big, s, n - 1, chrom, start, end, i);
        let x = rec_at(big, s, i);
        let j = choose|j: int| 0 <= j < p.len() && p[j] == x;
        if keep(r, chrom, start, end) { assert(p.push(r)[j] == x); }
    }
}
/// every selected record is a stored record that satisfies the rule (nothing invented, nothing
/// from another chromosome), and the selection is no longer than the block
pub proof fn lemma_sel_sound(big: bool, s: Seq<u8>, n: int, chrom: u32, start: u32, end: u32)
    requires 0 <= n,
    ensures
        zoom_sel(big, s, n, chrom, start, end).len() <= n,
        forall|j: int| 0 <= j < zoom_sel(big, s, n, chrom, start, end).len() ==> {
            let x = #[trigger] zoom_sel(big, s, n, chrom, start, end)[j];
            &&& keep(x, chrom, start, end) && x.summary.total_items == 0
            &&& exists|i: int| 0 <= i < n && x == rec_at(big, s, i)
        },
    decreases n
{
    if n > 0 {
        lemma_sel_sound(big, s, n - 1, chrom, start, end);
        let p = zoom_sel(big, s, n - 1, chrom, start, end);
        let r = rec_at(big, s, n - 1);
        let q = zoom_sel(big, s, n, chrom, start, end);
        assert forall|j: int| 0 <= j < q.len() implies ({
            let x = #[trigger] q[j];
            &&& keep(x, chrom, start, end) && x.summary.total_items == 0
            &&& exists|i: int| 0 <= i < n && x == rec_at(big, s, i)
        }) by {
            if j < p.len() {
                assert(q[j] == p[j]);
                let i0 = choose|i: int| 0 <= i < n - 1 && p[j] == rec_at(big, s, i);
                assert(0 <= i0 < n && q[j] == rec_at(big, s, i0));
            } else {
                assert(q[j] == r);
                assert(0 <= n - 1 < n && q[j] == rec_at(big, s, n - 1));
            }
        }
    }
}
/// "intersects the half-open query range" implies the reader's (closed) rule
pub open spec fn intersects(r: ZoomRecord, chrom: u32, start: u32, end: u32) -> bool {
    r.chrom == chrom && r.start < end && r.end > start
}

//@extract fn bigtools/src/bbi/bbiread.rs get_zoom_block_values
//@rule R16
//@rule R6 min=1
//@rule R8
//@sub /<B: BBIRead>\(\s*bbifile: &mut B,\s*block: Block,\s*known_offset: &mut u64,/ => (data: Vec<u8>, endianness: Endianness, min=1
//@sub /let \(read, info\) = bbifile\.reader_and_info\(\);\s*let data = read\.get_block_data\(info, &block\)\?;\s*let mut bytes = BytesMut::with_capacity\(data\.len\(\)\);\s*bytes\.extend_from_slice\(&data\);/ => let mut bytes = Cur::from_vec(&data); min=1
//@sub /let endianness = bbifile\.info\(\)\.header\.endianness;\n/ => "" min=1
//@sub /\*known_offset = block\.offset \+ block\.size;\n/ => "" min=1
//@sub /Result<std::vec::IntoIter<ZoomRecord>, BBIReadError>/ => Result<Vec<ZoomRecord>, IoError> min=1
//@sub /Ok\(records\.into_iter\(\)\)/ => Ok(records) min=1
//@sub /assert\(\(len % \((\d+) \* (\d+)\)\) (==|!=) \((\d+)\)\)/ => assert(((len as int) % (\1int * \2)) \3 (\4)) min=1
//@sub /for _ in 0\.\.itemcount/ => for k__ in 0..itemcount min=2
//@ret r
//@sig
    requires
        [[L: pre_whole_records]]
        data@.len() % 32 == 0,
    ensures
        [[L: never_fails_on_whole_records]]
        r is Ok,
        [[L: result_is_filtered_decode_in_stored_order]]
        r.unwrap()@ == zoom_sel(is_big(endianness), data@, data@.len() as int / 32, chrom, start, end),
        [[L: every_intersecting_record_returned]]
        forall|i: int| 0 <= i < data@.len() as int / 32 && intersects(#[trigger] rec_at(is_big(endianness), data@, i), chrom, start, end)
            ==> r.unwrap()@.contains(rec_at(is_big(endianness), data@, i)),
        [[L: only_stored_records_of_that_chromosome]]
        forall|j: int| 0 <= j < r.unwrap()@.len() ==> (#[trigger] r.unwrap()@[j]).chrom == chrom
            && r.unwrap()@[j].end >= start && r.unwrap()@[j].start <= end
            && exists|i: int| 0 <= i < data@.len() as int / 32 && r.unwrap()@[j] == rec_at(is_big(endianness), data@, i),
        [[L: total_items_zero]]
        forall|j: int| 0 <= j < r.unwrap()@.len() ==> (#[trigger] r.unwrap()@[j]).summary.total_items == 0,
        [[L: no_more_than_stored]]
        r.unwrap()@.len() <= data@.len() as int / 32,
//@loop 1
                invariant
                    [[L: loop_be/cursor_at_record_boundary]]
                    bytes.rem() == data@.subrange(32 * k__ as int, data@.len() as int),
                    [[L: loop_be/itemcount_is_len_div_32]]
                    itemcount == data@.len() / 32, data@.len() % 32 == 0,
                    [[L: loop_be/prefix_filtered]]
                    records@ == zoom_sel(true, data@, k__ as int, chrom, start, end),
//@loop 2
                invariant
                    [[L: loop_le/cursor_at_record_boundary]]
                    bytes.rem() == data@.subrange(32 * k__ as int, data@.len() as int),
                    [[L: loop_le/itemcount_is_len_div_32]]
                    itemcount == data@.len() / 32, data@.len() % 32 == 0,
                    [[L: loop_le/prefix_filtered]]
                    records@ == zoom_sel(false, data@, k__ as int, chrom, start, end),
//@at /let chrom_id = bytes\.get_u32\(\);/ before
                proof { float_ax::float_det(); }
//@at /let chrom_id = bytes\.get_u32_le\(\);/ before
                proof { float_ax::float_det(); }
//@at /^\s*if .*\{\s*$/ nth=1 before
                proof {
                    [[L: loop_be/record_is_32_bytes]]
                    assert(bytes.rem() =~= data@.subrange(32 * (k__ + 1), data@.len() as int));
                    let ghost rr = rec_at(true, data@, k__ as int);
                    [[L: loop_be/key_fields_at_published_offsets]]
                    assert(chrom_id == rr.chrom && chrom_start == rr.start && chrom_end == rr.end);
                    [[L: loop_be/summary_fields_at_published_offsets]]
                    assert(bases_covered == rr.summary.bases_covered && min_val == rr.summary.min_val && max_val == rr.summary.max_val
                        && sum == rr.summary.sum && sum_squares == rr.summary.sum_squares);
                }
//@at /^\s*if .*\{\s*$/ nth=2 before
                proof {
                    [[L: loop_le/record_is_32_bytes]]
                    assert(bytes.rem() =~= data@.subrange(32 * (k__ + 1), data@.len() as int));
                    let ghost rr = rec_at(false, data@, k__ as int);
                    [[L: loop_le/key_fields_at_published_offsets]]
                    assert(chrom_id == rr.chrom && chrom_start == rr.start && chrom_end == rr.end);
                    [[L: loop_le/summary_fields_at_published_offsets]]
                    assert(bases_covered == rr.summary.bases_covered && min_val == rr.summary.min_val && max_val == rr.summary.max_val
                        && sum == rr.summary.sum && sum_squares == rr.summary.sum_squares);
                }
//@at /Ok\(records\)/ before
    proof {
        let big = is_big(endianness);
        let n = data@.len() as int / 32;
        lemma_sel_sound(big, data@, n, chrom, start, end);
        assert forall|i: int| 0 <= i < n && intersects(#[trigger] rec_at(big, data@, i), chrom, start, end)
            implies zoom_sel(big, data@, n, chrom, start, end).contains(rec_at(big, data@, i)) by {
            lemma_sel_complete(big, data@, n, chrom, start, end, i);
        }
    }
//@end

} // verus!
fn main() {}
