// bbiwrite::get_rtreeindex -- the WHOLE builder of the in-memory R-tree: leaf level, level loop, return tuple.
//   C04/C05/C09 "every R-tree [is] structurally valid with spans that contain everything beneath them"; C01-C03,
//   C07, C08, C13: every data/zoom section written is reachable through the index.
// For ALL section counts n and all block_size >= 2 the function terminates and returns (tree, levels, total) with
//   tree   `wf(tree, levels, block_size, true)`  -- literally the precondition of rt_layout's write_rtreeindex,
//          `cover_all(tree)`                     -- the builder's side of rt_search's `span_cover` (for an input sorted
//                                                    by (chrom, start); everything else holds for ANY input order),
//          `leaves_of(tree) == the input`        -- every section once, in order,
//   levels == height(tree), total == n; n == 0 gives the single empty leaf with levels 0 (fix 2360e59).
// The loop skeleton, the break condition, `levels += 1`, the `unwrap_or_else` default, the node constructor and the
// return tuple are the REAL text; only the itertools / iterator plumbing is replaced by loops over ASSUMED iterator
// shims (shims.rs) through the structural substitutions listed in NOTES.md, with the closure bodies spliced in.
// Files: spans.rs (copy of rt_spans' vocabulary), spec.rs (copy of rt_layout's wf + leaves_of, cover_all, chunked,
// level_ok), shims.rs (VIter, IntoChunks), lemmas.rs.
use vstd::prelude::*;
verus! {

#[derive(Copy, Clone)]
pub struct Section {
    pub chrom: u32,
    pub start: u32,
    pub end: u32,
    pub offset: u64,
    pub size: u64,
}
pub struct RTreeNode {
    start_chrom_idx: u32,
    start_base: u32,
    end_chrom_idx: u32,
    end_base: u32,
    children: RTreeChildren,
}
pub enum RTreeChildren {
    DataSections(Vec<Section>),
    Nodes(Vec<RTreeNode>),
}
#[derive(Copy, Clone)]
pub enum InputSortType {
    ALL,
    START,
    // TODO
    //NONE,
}
pub struct BBIWriteOptions {
    pub compress: bool,
    pub items_per_slot: u32,
    pub block_size: u32,
    pub initial_zoom_size: u32,
    pub max_zooms: u32,
    pub manual_zoom_sizes: Option<Vec<u32>>,
    pub input_sort_type: InputSortType,
    pub channel_size: usize,
    pub inmemory: bool,
}

// ================= span vocabulary and closure stand-ins: COPY of contracts/rt_spans/unit.rs.tpl =================
// (that directory has no includable file; the text between the two rulers of rt_spans -- `pos_le`, `contains`,
//  `node_lo/node_hi`, `secs_sorted`, `nodes_sorted`, `max_end_*`, `lemma_max_*`, the verified stand-ins for
//  `.iter().map(..).max()` / `.first()`, `child_ok`, `covers`, `tight` -- is reproduced verbatim by
//  sync_from_rt_spans.py so that `node_of_child` is judged with the SAME vocabulary here as in rt_spans.)
// ---------------- specification vocabulary (from the property text) ----------------
/// (chrom, base) positions are ordered lexicographically
spec fn pos_le(a: (u32, u32), b: (u32, u32)) -> bool { a.0 < b.0 || (a.0 == b.0 && a.1 <= b.1) }
/// the span [lo, hi] contains the span [s, e]
spec fn contains(lo: (u32, u32), hi: (u32, u32), s: (u32, u32), e: (u32, u32)) -> bool {
    pos_le(lo, s) && pos_le(e, hi)
}
spec fn node_lo(n: RTreeNode) -> (u32, u32) { (n.start_chrom_idx, n.start_base) }
spec fn node_hi(n: RTreeNode) -> (u32, u32) { (n.end_chrom_idx, n.end_base) }
/// data sections arrive sorted by (chrom, start) -- what the writers' input validation guarantees
spec fn secs_sorted(s: Seq<Section>) -> bool {
    forall|i: int, j: int| 0 <= i <= j < s.len() ==> pos_le((#[trigger] s[i].chrom, s[i].start), (#[trigger] s[j].chrom, s[j].start))
}
spec fn nodes_sorted(s: Seq<RTreeNode>) -> bool {
    forall|i: int, j: int| 0 <= i <= j < s.len() ==> pos_le(node_lo(#[trigger] s[i]), node_lo(#[trigger] s[j]))
}
/// lexicographic maximum of the (chrom, end) pairs of the first n sections
spec fn max_end_secs(s: Seq<Section>, n: int) -> (u32, u32)
    decreases n
{
    if n <= 0 || n > s.len() { (0u32, 0u32) } else {
        let m = max_end_secs(s, n - 1);
        let e = (s[n - 1].chrom, s[n - 1].end);
        if n == 1 || pos_le(m, e) { e } else { m }
    }
}
spec fn max_end_nodes(s: Seq<RTreeNode>, n: int) -> (u32, u32)
    decreases n
{
    if n <= 0 || n > s.len() { (0u32, 0u32) } else {
        let m = max_end_nodes(s, n - 1);
        let e = node_hi(s[n - 1]);
        if n == 1 || pos_le(m, e) { e } else { m }
    }
}
proof fn lemma_max_secs(s: Seq<Section>, n: int)
    requires 0 < n <= s.len(),
    ensures
        forall|i: int| 0 <= i < n ==> pos_le((#[trigger] s[i].chrom, s[i].end), max_end_secs(s, n)),
        exists|i: int| 0 <= i < n && max_end_secs(s, n) == (#[trigger] s[i].chrom, s[i].end),
    decreases n
{
    if n > 1 {
        lemma_max_secs(s, n - 1);
        let w = choose|i: int| 0 <= i < n - 1 && max_end_secs(s, n - 1) == (#[trigger] s[i].chrom, s[i].end);
        assert(0 <= w < n);
    }
    assert(max_end_secs(s, n) == (s[n - 1].chrom, s[n - 1].end) || max_end_secs(s, n) == max_end_secs(s, n - 1));
}
proof fn lemma_max_nodes(s: Seq<RTreeNode>, n: int)
    requires 0 < n <= s.len(),
    ensures
        forall|i: int| 0 <= i < n ==> pos_le(node_hi(#[trigger] s[i]), max_end_nodes(s, n)),
        exists|i: int| 0 <= i < n && max_end_nodes(s, n) == node_hi(#[trigger] s[i]),
    decreases n
{
    if n > 1 {
        lemma_max_nodes(s, n - 1);
        let w = choose|i: int| 0 <= i < n - 1 && max_end_nodes(s, n - 1) == node_hi(#[trigger] s[i]);
        assert(0 <= w < n);
    }
    assert(max_end_nodes(s, n) == node_hi(s[n - 1]) || max_end_nodes(s, n) == max_end_nodes(s, n - 1));
}

// ---------------- stand-ins for the iterator-adaptor expressions of the closure ----------------
// ASSUMED (std): `.iter().map(|x| (a, b)).max()` is `Some(lexicographic maximum of the pairs)` on a
// non-empty slice and `None` on an empty one (Ord for tuples; of equal maxima the last is returned, which
// is the same pair); `.first()` is `Some(&v[0])` / `None`.  The stand-ins are VERIFIED loops with that spec;
// the assumption is that they agree with std.
fn pos_le_exec(a: (u32, u32), b: (u32, u32)) -> (r: bool)
    ensures r == pos_le(a, b),
{
    a.0 < b.0 || (a.0 == b.0 && a.1 <= b.1)
}
fn max_end_of_sections(v: &Vec<Section>) -> (r: Option<(u32, u32)>)
    ensures
        
        v@.len() == 0 ==> r is None,
        v@.len() > 0 ==> r == Some(max_end_secs(v@, v@.len() as int)),
{
    if v.len() == 0 { return None; }
    let mut m: (u32, u32) = (v[0].chrom, v[0].end);
    let mut i: usize = 1;
    while i < v.len()
        invariant 1 <= i <= v.len(), m == max_end_secs(v@, i as int),
        decreases v.len() - i,
    {
        let e = (v[i].chrom, v[i].end);
        if pos_le_exec(m, e) { m = e; }
        i = i + 1;
    }
    Some(m)
}
fn max_end_of_children(v: &Vec<RTreeNode>) -> (r: Option<(u32, u32)>)
    ensures
        
        v@.len() == 0 ==> r is None,
        v@.len() > 0 ==> r == Some(max_end_nodes(v@, v@.len() as int)),
{
    if v.len() == 0 { return None; }
    let mut m: (u32, u32) = (v[0].end_chrom_idx, v[0].end_base);
    let mut i: usize = 1;
    while i < v.len()
        invariant 1 <= i <= v.len(), m == max_end_nodes(v@, i as int),
        decreases v.len() - i,
    {
        let e = (v[i].end_chrom_idx, v[i].end_base);
        if pos_le_exec(m, e) { m = e; }
        i = i + 1;
    }
    Some(m)
}
/// foreign spellings an edit might use (`.last()`, `.min()`, any other `.iter().map(|x| ..).ADAPTOR()` over the
/// child list): accepted with NO postcondition (judged, not rejected)
#[verifier::external_body] fn last_end_of_sections(v: &Vec<Section>) -> (r: Option<(u32, u32)>) { unimplemented!() }
#[verifier::external_body] fn last_end_of_children(v: &Vec<RTreeNode>) -> (r: Option<(u32, u32)>) { unimplemented!() }
#[verifier::external_body] fn min_end_of_sections(v: &Vec<Section>) -> (r: Option<(u32, u32)>) { unimplemented!() }
#[verifier::external_body] fn min_end_of_children(v: &Vec<RTreeNode>) -> (r: Option<(u32, u32)>) { unimplemented!() }
fn first_section(v: &Vec<Section>) -> (r: Option<&Section>)
    ensures v@.len() == 0 ==> r is None, v@.len() > 0 ==> r == Some(&v@[0]),
{
    if v.len() == 0 { None } else { Some(&v[0]) }
}
fn first_child(v: &Vec<RTreeNode>) -> (r: Option<&RTreeNode>)
    ensures v@.len() == 0 ==> r is None, v@.len() > 0 ==> r == Some(&v@[0]),
{
    if v.len() == 0 { None } else { Some(&v[0]) }
}
/// `X.iter().max_by_key(|e| e.FIELD)` (not used by the code today): ASSUMED std contract -- an element whose key is
/// maximal (the last such element), None on an empty slice.  Present so that an edit using it is judged: a maximum
/// over the BASE alone is not the maximum over (chrom, base).
#[verifier::external_body] fn max_by_key_sections_end(v: &Vec<Section>) -> (r: Option<&Section>)
    ensures v@.len() == 0 ==> r is None,
        v@.len() > 0 ==> r is Some && v@.contains(*r->Some_0) && forall|i: int| 0 <= i < v@.len() ==> (#[trigger] v@[i]).end <= r->Some_0.end,
{ unimplemented!() }
#[verifier::external_body] fn max_by_key_children_end_base(v: &Vec<RTreeNode>) -> (r: Option<&RTreeNode>)
    ensures v@.len() == 0 ==> r is None,
        v@.len() > 0 ==> r is Some && v@.contains(*r->Some_0) && forall|i: int| 0 <= i < v@.len() ==> (#[trigger] v@[i]).end_base <= r->Some_0.end_base,
{ unimplemented!() }
/// any other key: some element, nothing else known
#[verifier::external_body] fn max_by_key_sections_other(v: &Vec<Section>) -> (r: Option<&Section>)
    ensures v@.len() > 0 ==> r is Some && v@.contains(*r->Some_0),
{ unimplemented!() }
#[verifier::external_body] fn max_by_key_children_other(v: &Vec<RTreeNode>) -> (r: Option<&RTreeNode>)
    ensures v@.len() > 0 ==> r is Some && v@.contains(*r->Some_0),
{ unimplemented!() }
/// `None.unwrap()`
fn unwrap_none_pair() -> (r: (u32, u32)) requires false { (0, 0) }
#[verifier::external_body] fn last_section(v: &Vec<Section>) -> (r: Option<&Section>) { unimplemented!() }
#[verifier::external_body] fn last_child(v: &Vec<RTreeNode>) -> (r: Option<&RTreeNode>) { unimplemented!() }

/// what the closure is given: a non-empty child produced by the level below (chunks are never empty;
/// the single possibly-empty leaf is the ROOT and is never passed here because the loop stops at len <= 1)
spec fn child_ok(c: RTreeChildren) -> bool {
    match c {
        RTreeChildren::DataSections(s) => s@.len() > 0 && secs_sorted(s@),
        RTreeChildren::Nodes(k) => k@.len() > 0 && nodes_sorted(k@),
    }
}
/// "spans contain everything beneath them", one level down
spec fn covers(n: RTreeNode) -> bool {
    match n.children {
        RTreeChildren::DataSections(s) =>
            forall|i: int| 0 <= i < s@.len() ==> contains(node_lo(n), node_hi(n), (#[trigger] s@[i].chrom, s@[i].start), (s@[i].chrom, s@[i].end)),
        RTreeChildren::Nodes(k) =>
            forall|i: int| 0 <= i < k@.len() ==> contains(node_lo(n), node_hi(n), node_lo(#[trigger] k@[i]), node_hi(k@[i])),
    }
}
/// ... and no wider than needed: both ends are attained beneath (tight spans keep the search selective;
/// C05 "reads no more than the blocks a linear scan selects" is about blocks, so tightness is stated
/// but only the two equalities below, not minimality of reads)
spec fn tight(n: RTreeNode) -> bool {
    match n.children {
        RTreeChildren::DataSections(s) =>
            s@.len() > 0 && node_lo(n) == (s@[0].chrom, s@[0].start)
            && exists|i: int| 0 <= i < s@.len() && node_hi(n) == (#[trigger] s@[i].chrom, s@[i].end),
        RTreeChildren::Nodes(k) =>
            k@.len() > 0 && node_lo(n) == node_lo(k@[0])
            && exists|i: int| 0 <= i < k@.len() && node_hi(n) == node_hi(#[trigger] k@[i]),
    }
}
// ================= specification vocabulary of unit rt_tree =================
// Levels as in unit rt_layout: leaves (DataSections) are level 0, the root is level `levels`.

// ---------------- well-formedness: VERBATIM COPY of contracts/rt_layout/spec.rs (`len_ok`, `wf`, `kids_wf`) ----------------
// The postcondition `tree_is_well_formed_for_the_layout_writer` of get_rtreeindex below is literally the
// precondition `wf(nodes, levels, block_size, true)` of rt_layout's write_rtreeindex.
/// a node holds at most b items, and exactly b unless it is the last node of its level
spec fn len_ok(n: int, b: int, last: bool) -> bool { n <= b && (!last ==> n == b) }
/// uniform depth (DataSections exactly at level 0), 1..=b children per non-leaf node, 0..=b items per leaf,
/// fullness of every node that is not on the right spine (`last` = this node is the last of its level)
spec fn wf(t: RTreeChildren, lvl: int, b: int, last: bool) -> bool
    decreases lvl, 0int
{
    match t {
        RTreeChildren::DataSections(v) => lvl == 0 && len_ok(v@.len() as int, b, last),
        RTreeChildren::Nodes(v) => lvl > 0 && v@.len() >= 1 && len_ok(v@.len() as int, b, last) && kids_wf(v@, lvl - 1, b, last),
    }
}
spec fn kids_wf(s: Seq<RTreeNode>, kl: int, b: int, plast: bool) -> bool
    decreases kl, 1int
{
    kl >= 0 && forall|i: int| 0 <= i < s.len() ==> wf((#[trigger] s[i]).children, kl, b, plast && i == s.len() - 1)
}
// ---------------- end of the copy ----------------

/// the data sections beneath t, left to right (in-order concatenation of the DataSections)
spec fn leaves_of(t: RTreeChildren) -> Seq<Section>
    decreases t
{
    match t {
        RTreeChildren::DataSections(v) => v@,
        RTreeChildren::Nodes(v) => leaves_of_kids(v@, v@.len() as int),
    }
}
/// ... beneath the first n items of a non-leaf node
spec fn leaves_of_kids(s: Seq<RTreeNode>, n: int) -> Seq<Section>
    decreases s, n
{
    if n <= 0 || n > s.len() { Seq::empty() } else { leaves_of_kids(s, n - 1) + leaves_of(s[n - 1].children) }
}
/// rt_spans' `covers` (one level) lifted to the whole tree: EVERY RTreeNode at EVERY depth covers its child list
/// -- the builder's side of rt_search's `span_cover` ("the span recorded for a child pointer covers the span of
/// every item stored in the child node")
spec fn cover_all(t: RTreeChildren) -> bool
    decreases t
{
    match t {
        RTreeChildren::DataSections(_) => true,
        RTreeChildren::Nodes(v) => forall|i: int| 0 <= i < v@.len() ==> covers(#[trigger] v@[i]) && cover_all(v@[i].children),
    }
}
/// every section of s lies inside [lo, hi]
spec fn secs_inside(s: Seq<Section>, lo: (u32, u32), hi: (u32, u32)) -> bool {
    forall|i: int| 0 <= i < s.len() ==> contains(lo, hi, ((#[trigger] s[i]).chrom, s[i].start), (s[i].chrom, s[i].end))
}
/// the literal reading of "spans that contain everything beneath them": the span of EVERY RTreeNode contains EVERY
/// data section in its subtree, however deep (a consequence of cover_all by transitivity: corollary_deep_cover)
spec fn deep_cover(t: RTreeChildren) -> bool
    decreases t
{
    match t {
        RTreeChildren::DataSections(_) => true,
        RTreeChildren::Nodes(v) => forall|i: int| 0 <= i < v@.len() ==>
            secs_inside(leaves_of((#[trigger] v@[i]).children), node_lo(v@[i]), node_hi(v@[i])) && deep_cover(v@[i].children),
    }
}
/// number of non-leaf levels on the leftmost path (uniform depth is part of `wf`)
spec fn height(t: RTreeChildren) -> nat
    decreases t
{
    match t {
        RTreeChildren::DataSections(_) => 0,
        RTreeChildren::Nodes(v) => if v@.len() == 0 { 1 } else { 1 + height(v@[0].children) },
    }
}
/// no node anywhere holds zero items (true of every tree built from at least one section; the empty input gives the
/// single empty leaf, the only tree with an empty node)
spec fn nonempty_all(t: RTreeChildren) -> bool
    decreases t
{
    match t {
        RTreeChildren::DataSections(s) => s@.len() > 0,
        RTreeChildren::Nodes(k) => k@.len() > 0 && forall|i: int| 0 <= i < k@.len() ==> nonempty_all((#[trigger] k@[i]).children),
    }
}
/// (chrom, start) of the first item of a node ((0,0) for an empty one)
spec fn lo_of(t: RTreeChildren) -> (u32, u32) {
    match t {
        RTreeChildren::DataSections(s) => if s@.len() > 0 { (s@[0].chrom, s@[0].start) } else { (0u32, 0u32) },
        RTreeChildren::Nodes(k) => if k@.len() > 0 { node_lo(k@[0]) } else { (0u32, 0u32) },
    }
}

// ---------------- itertools `chunks(b)` ----------------
/// concatenation of the first n groups
spec fn flat<T>(gs: Seq<Seq<T>>, n: int) -> Seq<T>
    decreases n
{
    if n <= 0 { Seq::empty() } else { flat(gs, n - 1) + gs[n - 1] }
}
/// `gs` is what `v.chunks(b)` yields: consecutive groups whose concatenation is the input, none empty, none
/// longer than b, every group but the last exactly b long (for an empty input: no group at all).
/// Stated WITHOUT division: "ceil(n / b) groups" is a consequence (lemma_count), not part of the contract.
#[verifier::opaque]
spec fn chunked<T>(gs: Seq<Seq<T>>, v: Seq<T>, b: int) -> bool {
    &&& flat(gs, gs.len() as int) == v
    &&& forall|g: int| 0 <= g < gs.len() ==> 1 <= (#[trigger] gs[g]).len() <= b
    &&& forall|g: int| 0 <= g < gs.len() - 1 ==> (#[trigger] gs[g]).len() == b
}

// ---------------- one level of the tree under construction ----------------
/// leaves beneath the first n nodes of a level
spec fn cat_leaves(cur: Seq<RTreeChildren>, n: int) -> Seq<Section>
    decreases n
{
    if n <= 0 { Seq::empty() } else { cat_leaves(cur, n - 1) + leaves_of(cur[n - 1]) }
}
/// THE INVARIANT of the level loop: `cur` is the list of all nodes of level `lvl`, left to right.
/// Unconditionally (whatever the order of the input):
///  * every node is `wf` at depth lvl, full unless it is the last of the list; no node beneath is empty;
///  * the leaves beneath them, concatenated, are the input sections: each once, in order.
/// For an input sorted by (chrom, start) also `span_ok`.
#[verifier::opaque]
spec fn level_ok(cur: Seq<RTreeChildren>, lvl: int, b: int, secs: Seq<Section>) -> bool {
    &&& lvl >= 0
    &&& forall|i: int| 0 <= i < cur.len() ==> wf(#[trigger] cur[i], lvl, b, i == cur.len() - 1)
    &&& forall|i: int| 0 <= i < cur.len() ==> nonempty_all(#[trigger] cur[i])
    &&& forall|i: int| 0 <= i < cur.len() ==> height(#[trigger] cur[i]) == lvl
    &&& cat_leaves(cur, cur.len() as int) == secs
    &&& secs_sorted(secs) ==> span_ok(cur)
}
/// the span part of the invariant (needs the sorted input):
///  * every RTreeNode beneath covers its child list;
///  * every node is a chunk sorted by start (`child_ok`: what makes the node constructor's span a covering one);
///  * the nodes of the level are sorted by the start of their first item.
spec fn span_ok(cur: Seq<RTreeChildren>) -> bool {
    &&& forall|i: int| 0 <= i < cur.len() ==> cover_all(#[trigger] cur[i])
    &&& forall|i: int| 0 <= i < cur.len() ==> child_ok(#[trigger] cur[i])
    &&& forall|i: int, j: int| 0 <= i <= j < cur.len() ==> pos_le(lo_of(#[trigger] cur[i]), lo_of(#[trigger] cur[j]))
}
/// what the leaf closure `|chunk| DataSections(chunk.collect())` makes of one group
spec fn leaf_of(t: RTreeChildren, grp: Seq<Section>) -> bool {
    t matches RTreeChildren::DataSections(v) && v@ == grp
}
/// what the node constructor is handed: a non-empty node (`first().unwrap()` / `max().unwrap()` panic on an empty one)
spec fn child_nonempty(c: RTreeChildren) -> bool {
    match c {
        RTreeChildren::DataSections(s) => s@.len() > 0,
        RTreeChildren::Nodes(k) => k@.len() > 0,
    }
}
/// the contract of node_of_child for one member c of a group: keeps the child, both span ends attained beneath,
/// and a COVERING span when the child is sorted by start
spec fn item_of(n: RTreeNode, c: RTreeChildren) -> bool {
    n.children == c && tight(n) && (child_ok(c) ==> covers(n))
}
/// what the node closure `|chunk| Nodes(chunk.map(node_of_child).collect())` makes of one group, GIVEN the contract
/// of node_of_child
spec fn built_from(t: RTreeChildren, grp: Seq<RTreeChildren>) -> bool {
    t matches RTreeChildren::Nodes(v) && v@.len() == grp.len()
        && forall|k: int| 0 <= k < grp.len() ==> item_of(#[trigger] v@[k], grp[k])
}
/// every member of every group may be handed to the node constructor
spec fn groups_nonempty(gs: Seq<Seq<RTreeChildren>>) -> bool {
    forall|g: int, k: int| 0 <= g < gs.len() && 0 <= k < gs[g].len() ==> child_nonempty(#[trigger] gs[g][k])
}
// ================= ASSUMED iterator shims (R11) =================
/// `VIter<T>`: any FINITE Rust iterator over `T` (the generic `S: Iterator<Item = Section>`, `vec::IntoIter`,
/// itertools' `Chunks` and `Chunk`), seen through two ghost values:
///   `all()`  everything it yields between its creation and exhaustion, in order (never changes);
///   `pos()`  how many of those have been yielded so far.
/// ASSUMED: the iterator protocol (`next` yields `all()[pos()]` and advances, `None` when exhausted and from then
/// on), and that the stream is finite.  Nothing about laziness / side effects of producing an element.
#[verifier::external_body]
#[verifier::reject_recursive_types(T)]
pub struct VIter<T> { _p: core::marker::PhantomData<T> }
/// itertools `IntoChunks` (the value returned by `.chunks(size)`; `.into_iter()` on it yields the groups)
#[verifier::external_body]
#[verifier::reject_recursive_types(T)]
pub struct IntoChunks<T> { _p: core::marker::PhantomData<T> }

impl<T> VIter<T> {
    uninterp spec fn all(&self) -> Seq<T>;
    uninterp spec fn pos(&self) -> nat;
    /// what is still to come
    spec fn rest(&self) -> Seq<T> {
        if self.pos() <= self.all().len() { self.all().subrange(self.pos() as int, self.all().len() as int) } else { Seq::empty() }
    }
    /// `Iterator::next`
    #[verifier::external_body]
    fn next(&mut self) -> (r: Option<T>)
        ensures
            final(self).all() == old(self).all(),
            old(self).pos() < old(self).all().len() ==> r == Some(old(self).all()[old(self).pos() as int]) && final(self).pos() == old(self).pos() + 1,
            old(self).pos() >= old(self).all().len() ==> r is None && final(self).pos() == old(self).pos(),
    { unimplemented!() }
    /// `Iterator::collect::<Vec<_>>()`: everything not yet yielded, in order
    #[verifier::external_body]
    fn collect(self) -> (r: Vec<T>)
        ensures
            self.pos() <= self.all().len() ==> r@ == self.all().subrange(self.pos() as int, self.all().len() as int),
            self.pos() == 0 ==> r@ == self.all(),
    { unimplemented!() }
    /// `Vec::into_iter()`: the elements of the vector, in order
    #[verifier::external_body]
    fn of_vec(v: Vec<T>) -> (r: VIter<T>)
        ensures r.all() == v@, r.pos() == 0,
    { unimplemented!() }
    /// itertools `Itertools::chunks(size)` (of what the iterator has not yielded yet).  ASSUMED contract (itertools docs: "Return an
    /// iterable that can chunk the iterator.  Yield subiterators (chunks) that each yield a fixed number elements,
    /// determined by size.  The last chunk will be shorter if there aren't enough elements." -- and `size == 0`
    /// panics): see `chunked`.  The groups are modelled eagerly; itertools produces them lazily from a shared
    /// buffer, which is the same sequence of groups as long as every group is drained before the next one is
    /// requested -- the two `map(|chunk| ..)` closures do that (`chunk.collect()`, `chunk.map(..).collect()`).
    #[verifier::external_body]
    fn chunks(self, size: usize) -> (r: IntoChunks<T>)
        requires
            size > 0,
        ensures
            chunked(r.groups(), self.rest(), size as int),
            flat(r.groups(), r.groups().len() as int) == self.rest(),
            self.pos() == 0 ==> chunked(r.groups(), self.all(), size as int) && flat(r.groups(), r.groups().len() as int) == self.all(),
    { unimplemented!() }
}
/// adaptor spellings a plausible edit might start calling (`skip`, `take`, `step_by`, `rev`, `filter`-like
/// truncations of the stream or of a chunk): accepted with NO postcondition -- judged by the contract, not rejected
impl<T> VIter<T> {
    #[verifier::external_body] fn skip(self, n: usize) -> (r: VIter<T>) { unimplemented!() }
    #[verifier::external_body] fn take(self, n: usize) -> (r: VIter<T>) { unimplemented!() }
    #[verifier::external_body] fn step_by(self, n: usize) -> (r: VIter<T>) { unimplemented!() }
    #[verifier::external_body] fn rev(self) -> (r: VIter<T>) { unimplemented!() }
    #[verifier::external_body] fn peekable(self) -> (r: VIter<T>) { unimplemented!() }
}
impl<T> IntoChunks<T> {
    uninterp spec fn groups(&self) -> Seq<Seq<T>>;
    /// `(&IntoChunks).into_iter()`: an iterator over the groups, each group a fresh iterator over its members
    #[verifier::external_body]
    fn into_iter(&self) -> (r: VIter<VIter<T>>)
        ensures
            r.pos() == 0,
            r.all().len() == self.groups().len(),
            forall|g: int| 0 <= g < self.groups().len() ==> (#[trigger] r.all()[g]).all() == self.groups()[g] && r.all()[g].pos() == 0,
    { unimplemented!() }
}
/// `Option::unwrap` on the popped root, with a NAMED precondition (vstd's own `unwrap` would report a panic on
/// `None` as an anonymous obligation).  Verified.
fn unwrap_node(o: Option<RTreeChildren>) -> (r: RTreeChildren)
    requires
        
        o is Some,
    ensures o == Some(r),
{
    o.unwrap()
}
// ================= lemmas of unit rt_tree (all verified) =================

// ---------------- groups and their concatenation (generic, linear arithmetic only) ----------------
proof fn lemma_flat_prefix<T>(gs: Seq<Seq<T>>, g: int, n: int)
    requires 0 <= g <= n <= gs.len(),
    ensures
        flat(gs, g).len() <= flat(gs, n).len(),
        forall|i: int| 0 <= i < flat(gs, g).len() ==> flat(gs, n)[i] == flat(gs, g)[i],
    decreases n - g
{
    if g < n { lemma_flat_prefix(gs, g, n - 1); }
}
/// member k of group g sits at position (members of the earlier groups) + k of the concatenation
proof fn lemma_flat_index<T>(gs: Seq<Seq<T>>, n: int, g: int, k: int)
    requires 0 <= g < n <= gs.len(), 0 <= k < gs[g].len(),
    ensures
        flat(gs, g).len() + k < flat(gs, g + 1).len() <= flat(gs, n).len(),
        flat(gs, n)[flat(gs, g).len() + k] == gs[g][k],
{
    lemma_flat_prefix(gs, g + 1, n);
    assert(flat(gs, g + 1) == flat(gs, g) + gs[g]);
    assert(flat(gs, g + 1)[flat(gs, g).len() + k] == gs[g][k]);
}
proof fn lemma_flat_len<T>(gs: Seq<Seq<T>>, n: int, b: int)
    requires
        0 <= n <= gs.len(), b >= 2,
        forall|g: int| 0 <= g < gs.len() ==> 1 <= (#[trigger] gs[g]).len(),
        forall|g: int| 0 <= g < gs.len() - 1 ==> (#[trigger] gs[g]).len() == b,
    ensures
        flat(gs, n).len() >= n,
        n <= gs.len() - 1 ==> flat(gs, n).len() >= 2 * n,
    decreases n
{
    if n > 0 {
        lemma_flat_len(gs, n - 1, b);
        assert(flat(gs, n).len() == flat(gs, n - 1).len() + gs[n - 1].len());
    }
}
/// how many groups: none for an empty input, at least one otherwise, never more than members, and STRICTLY fewer
/// than members once there are two members and groups of two or more (ceil(len / b) < len for len >= 2, b >= 2) --
/// the progress argument of the level loop
proof fn lemma_count<T>(gs: Seq<Seq<T>>, v: Seq<T>, b: int)
    requires
        
        chunked(gs, v, b),
        b >= 2,
    ensures
        gs.len() <= v.len(),
        v.len() == 0 ==> gs.len() == 0,
        v.len() >= 1 ==> gs.len() >= 1,
        v.len() >= 2 ==> gs.len() < v.len(),
{
    reveal(chunked);
    let k = gs.len() as int;
    lemma_flat_len(gs, k, b);
    if k >= 1 {
        lemma_flat_len(gs, k - 1, b);
        assert(flat(gs, k).len() == flat(gs, k - 1).len() + gs[k - 1].len());
    }
}

// ---------------- well-formedness ----------------
/// "full" is the stronger reading of the fullness flag
proof fn lemma_wf_mono(t: RTreeChildren, lvl: int, b: int)
    requires wf(t, lvl, b, false),
    ensures wf(t, lvl, b, true),
    decreases lvl
{
    match t {
        RTreeChildren::DataSections(v) => {}
        RTreeChildren::Nodes(v) => {
            assert(kids_wf(v@, lvl - 1, b, false));
            assert forall|i: int| 0 <= i < v@.len() implies wf((#[trigger] v@[i]).children, lvl - 1, b, true && i == v@.len() - 1) by {
                assert(wf(v@[i].children, lvl - 1, b, false && i == v@.len() - 1));
                if i == v@.len() - 1 { lemma_wf_mono(v@[i].children, lvl - 1, b); }
            }
            assert(kids_wf(v@, lvl - 1, b, true));
        }
    }
}

// ---------------- leaves ----------------
proof fn lemma_cat_prefix(a: Seq<RTreeChildren>, c: Seq<RTreeChildren>, n: int)
    requires 0 <= n <= a.len(),
    ensures cat_leaves(a + c, n) == cat_leaves(a, n),
    decreases n
{
    if n > 0 {
        lemma_cat_prefix(a, c, n - 1);
        assert((a + c)[n - 1] == a[n - 1]);
    }
}
proof fn lemma_cat_concat(a: Seq<RTreeChildren>, c: Seq<RTreeChildren>, m: int)
    requires 0 <= m <= c.len(),
    ensures cat_leaves(a + c, a.len() + m) == cat_leaves(a, a.len() as int) + cat_leaves(c, m),
    decreases m
{
    if m == 0 {
        lemma_cat_prefix(a, c, a.len() as int);
        assert(cat_leaves(a, a.len() as int) + cat_leaves(c, 0) =~= cat_leaves(a, a.len() as int));
    } else {
        lemma_cat_concat(a, c, m - 1);
        assert((a + c)[a.len() + m - 1] == c[m - 1]);
        assert(cat_leaves(a + c, a.len() + m) =~= cat_leaves(a, a.len() as int) + cat_leaves(c, m));
    }
}
/// the leaves beneath a node built from a group are the leaves beneath the group's members
proof fn lemma_kids_leaves(v: Seq<RTreeNode>, grp: Seq<RTreeChildren>, n: int)
    requires
        0 <= n <= v.len(), v.len() == grp.len(),
        forall|k: int| 0 <= k < grp.len() ==> (#[trigger] v[k]).children == grp[k],
    ensures leaves_of_kids(v, n) == cat_leaves(grp, n),
    decreases n
{
    if n > 0 { lemma_kids_leaves(v, grp, n - 1); }
}
/// grouping does not change the leaves
proof fn lemma_cat_flat(gs: Seq<Seq<RTreeChildren>>, out: Seq<RTreeChildren>, n: int)
    requires
        0 <= n <= gs.len(), out.len() == gs.len(),
        forall|g: int| 0 <= g < gs.len() ==> leaves_of(#[trigger] out[g]) == cat_leaves(gs[g], gs[g].len() as int),
    ensures cat_leaves(out, n) == cat_leaves(flat(gs, n), flat(gs, n).len() as int),
    decreases n
{
    if n > 0 {
        lemma_cat_flat(gs, out, n - 1);
        lemma_cat_concat(flat(gs, n - 1), gs[n - 1], gs[n - 1].len() as int);
        assert(flat(gs, n) == flat(gs, n - 1) + gs[n - 1]);
    }
}
proof fn lemma_cat_leaf_level(gs: Seq<Seq<Section>>, cur: Seq<RTreeChildren>, n: int)
    requires
        0 <= n <= gs.len(), cur.len() == gs.len(),
        forall|g: int| 0 <= g < gs.len() ==> leaf_of(#[trigger] cur[g], gs[g]),
    ensures cat_leaves(cur, n) == flat(gs, n),
    decreases n
{
    if n > 0 {
        lemma_cat_leaf_level(gs, cur, n - 1);
        assert(leaf_of(cur[n - 1], gs[n - 1]));
    }
}

// ---------------- the leaf level ----------------
/// chunks of the input, each wrapped in DataSections, are a good level 0
proof fn lemma_leaf_level(secs: Seq<Section>, gs: Seq<Seq<Section>>, cur: Seq<RTreeChildren>, b: int)
    requires
        
        chunked(gs, secs, b),
        b >= 2,
        
        cur.len() == gs.len(),
        forall|g: int| 0 <= g < gs.len() ==> leaf_of(#[trigger] cur[g], gs[g]),
    ensures level_ok(cur, 0, b, secs),
{
    reveal(chunked);
    reveal(level_ok);
    let n = gs.len() as int;
    assert forall|i: int| 0 <= i < cur.len() implies
        wf(#[trigger] cur[i], 0, b, i == cur.len() - 1) && nonempty_all(cur[i]) && height(cur[i]) == 0 && cover_all(cur[i])
        && lo_of(cur[i]) == (secs[flat(gs, i).len() as int].chrom, secs[flat(gs, i).len() as int].start)
    by {
        assert(leaf_of(cur[i], gs[i]));
        assert(1 <= gs[i].len() <= b);
        if i < n - 1 { assert(gs[i].len() == b); }
        lemma_flat_index(gs, n, i, 0);
    }
    lemma_cat_leaf_level(gs, cur, n);
    if secs_sorted(secs) {
        assert forall|i: int| 0 <= i < cur.len() implies child_ok(#[trigger] cur[i]) by {
            assert(leaf_of(cur[i], gs[i]));
            let s = cur[i]->DataSections_0@;
            assert(1 <= gs[i].len());
            assert forall|p: int, q: int| 0 <= p <= q < s.len() implies
                pos_le((#[trigger] s[p].chrom, s[p].start), (#[trigger] s[q].chrom, s[q].start)) by {
                lemma_flat_index(gs, n, i, p);
                lemma_flat_index(gs, n, i, q);
            }
        }
        assert forall|i: int, j: int| 0 <= i <= j < cur.len() implies pos_le(lo_of(#[trigger] cur[i]), lo_of(#[trigger] cur[j])) by {
            lemma_flat_prefix(gs, i, j);
            lemma_flat_index(gs, n, i, 0);
            lemma_flat_index(gs, n, j, 0);
        }
        assert(span_ok(cur));
    }
}

// ---------------- from one level to the next ----------------
/// the members of the groups are members of the level: none is empty, each may be handed to the node constructor
proof fn lemma_groups_nonempty(cur: Seq<RTreeChildren>, gs: Seq<Seq<RTreeChildren>>, lvl: int, b: int, secs: Seq<Section>)
    requires level_ok(cur, lvl, b, secs), flat(gs, gs.len() as int) == cur,
    ensures groups_nonempty(gs),
{
    reveal(level_ok);
    assert forall|g: int, k: int| 0 <= g < gs.len() && 0 <= k < gs[g].len() implies child_nonempty(#[trigger] gs[g][k]) by {
        lemma_flat_index(gs, gs.len() as int, g, k);
        assert(nonempty_all(cur[flat(gs, g).len() + k]));
    }
}
/// groups of exactly block_size nodes of a good level lvl, each turned into one `Nodes(..)` by the node constructor,
/// are a good level lvl + 1
proof fn lemma_next_level(cur: Seq<RTreeChildren>, gs: Seq<Seq<RTreeChildren>>, out: Seq<RTreeChildren>, lvl: int, b: int, secs: Seq<Section>)
    requires
        level_ok(cur, lvl, b, secs),
        
        chunked(gs, cur, b),
        b >= 2,
        
        out.len() == gs.len(),
        forall|g: int| 0 <= g < gs.len() ==> built_from(#[trigger] out[g], gs[g]),
    ensures level_ok(out, lvl + 1, b, secs),
{
    reveal(chunked);
    reveal(level_ok);
    let n = gs.len() as int;
    assert(flat(gs, n) == cur);
    // structure: per new node
    assert forall|g: int| 0 <= g < out.len() implies
        wf(#[trigger] out[g], lvl + 1, b, g == out.len() - 1) && nonempty_all(out[g]) && height(out[g]) == lvl + 1
        && lo_of(out[g]) == lo_of(cur[flat(gs, g).len() as int])
        && leaves_of(out[g]) == cat_leaves(gs[g], gs[g].len() as int)
    by {
        assert(built_from(out[g], gs[g]));
        let v = out[g]->Nodes_0@;
        let off = flat(gs, g).len() as int;
        assert(1 <= gs[g].len() <= b);
        if g < n - 1 { assert(gs[g].len() == b); }
        assert forall|k: int| 0 <= k < v.len() implies
            wf((#[trigger] v[k]).children, lvl, b, (g == out.len() - 1) && k == v.len() - 1)
            && nonempty_all(v[k].children) && node_lo(v[k]) == lo_of(cur[off + k]) && v[k].children == cur[off + k]
        by {
            lemma_flat_index(gs, n, g, k);
            assert(item_of(v[k], gs[g][k]));
            assert(gs[g][k] == cur[off + k]);
            assert(nonempty_all(cur[off + k]));
            assert(wf(cur[off + k], lvl, b, off + k == cur.len() - 1));
            if off + k == cur.len() - 1 {
                // the last member of the level is the last member of the last group
                if g < n - 1 {
                    lemma_flat_prefix(gs, g + 1, n - 1);
                    lemma_flat_index(gs, n, n - 1, 0);
                }
                assert(g == n - 1);
                assert(flat(gs, n) == flat(gs, n - 1) + gs[n - 1]);
            } else {
                if (g == out.len() - 1) && k == v.len() - 1 { lemma_wf_mono(cur[off + k], lvl, b); }
            }
        }
        assert(kids_wf(v, lvl, b, g == out.len() - 1));
        lemma_flat_index(gs, n, g, 0);
        assert(v[0].children == cur[off + 0]);
        assert(height(cur[off]) == lvl);
        assert(height(v[0].children) == lvl);
        lemma_kids_leaves(v, gs[g], v.len() as int);
    }
    lemma_cat_flat(gs, out, n);
    // spans: only for a sorted input
    if secs_sorted(secs) {
        assert(span_ok(cur));
        assert forall|g: int| 0 <= g < out.len() implies cover_all(#[trigger] out[g]) && child_ok(out[g]) by {
            assert(built_from(out[g], gs[g]));
            let v = out[g]->Nodes_0@;
            let off = flat(gs, g).len() as int;
            assert(1 <= gs[g].len());
            assert forall|k: int| 0 <= k < v.len() implies
                covers(#[trigger] v[k]) && cover_all(v[k].children) && node_lo(v[k]) == lo_of(cur[off + k])
            by {
                lemma_flat_index(gs, n, g, k);
                assert(item_of(v[k], gs[g][k]));
                assert(gs[g][k] == cur[off + k]);
                assert(child_ok(cur[off + k]) && cover_all(cur[off + k]));
            }
            assert forall|p: int, q: int| 0 <= p <= q < v.len() implies pos_le(node_lo(#[trigger] v[p]), node_lo(#[trigger] v[q])) by {
                lemma_flat_index(gs, n, g, p);
                lemma_flat_index(gs, n, g, q);
            }
        }
        assert forall|i: int, j: int| 0 <= i <= j < out.len() implies pos_le(lo_of(#[trigger] out[i]), lo_of(#[trigger] out[j])) by {
            lemma_flat_prefix(gs, i, j);
            lemma_flat_index(gs, n, i, 0);
            lemma_flat_index(gs, n, j, 0);
        }
        assert(span_ok(out));
    }
}
/// the level loop stops with at most one node: that node is the whole tree
proof fn lemma_root(cur: Seq<RTreeChildren>, lvl: int, b: int, secs: Seq<Section>)
    requires level_ok(cur, lvl, b, secs),
    ensures
        lvl >= 0,
        cur.len() == 0 ==> secs.len() == 0,
        cur.len() == 1 ==> wf(cur[0], lvl, b, true) && leaves_of(cur[0]) == secs && height(cur[0]) == lvl && nonempty_all(cur[0]),
        cur.len() == 1 && secs_sorted(secs) ==> cover_all(cur[0]),
{
    reveal(level_ok);
    if cur.len() == 1 {
        assert(cat_leaves(cur, 1) == cat_leaves(cur, 0) + leaves_of(cur[0]));
        assert(cat_leaves(cur, 0) + leaves_of(cur[0]) =~= leaves_of(cur[0]));
    }
}

// ---------------- corollary: one-level coverage everywhere == deep coverage ----------------
proof fn lemma_pos_le_trans(a: (u32, u32), b: (u32, u32), c: (u32, u32))
    requires pos_le(a, b), pos_le(b, c),
    ensures pos_le(a, c),
{
}
proof fn lemma_inside_concat(a: Seq<Section>, c: Seq<Section>, lo: (u32, u32), hi: (u32, u32))
    requires secs_inside(a, lo, hi), secs_inside(c, lo, hi),
    ensures secs_inside(a + c, lo, hi),
{
    assert forall|i: int| 0 <= i < (a + c).len() implies contains(lo, hi, ((#[trigger] (a + c)[i]).chrom, (a + c)[i].start), ((a + c)[i].chrom, (a + c)[i].end)) by {
        if i < a.len() { assert((a + c)[i] == a[i]); } else { assert((a + c)[i] == c[i - a.len()]); }
    }
}
proof fn lemma_inside_widen(s: Seq<Section>, lo: (u32, u32), hi: (u32, u32), lo2: (u32, u32), hi2: (u32, u32))
    requires secs_inside(s, lo, hi), pos_le(lo2, lo), pos_le(hi, hi2),
    ensures secs_inside(s, lo2, hi2),
{
    assert forall|i: int| 0 <= i < s.len() implies contains(lo2, hi2, ((#[trigger] s[i]).chrom, s[i].start), (s[i].chrom, s[i].end)) by {
        lemma_pos_le_trans(lo2, lo, (s[i].chrom, s[i].start));
        lemma_pos_le_trans((s[i].chrom, s[i].end), hi, hi2);
    }
}
/// the sections beneath the first n items of a node lie inside [lo, hi] when every item's span does and every item's
/// span contains the sections beneath it
proof fn lemma_kids_inside(k: Seq<RTreeNode>, n: int, lo: (u32, u32), hi: (u32, u32))
    requires
        0 <= n <= k.len(),
        forall|j: int| 0 <= j < k.len() ==> contains(lo, hi, node_lo(#[trigger] k[j]), node_hi(k[j])),
        forall|j: int| 0 <= j < k.len() ==> secs_inside(leaves_of((#[trigger] k[j]).children), node_lo(k[j]), node_hi(k[j])),
    ensures secs_inside(leaves_of_kids(k, n), lo, hi),
    decreases n
{
    if n > 0 {
        lemma_kids_inside(k, n - 1, lo, hi);
        assert(contains(lo, hi, node_lo(k[n - 1]), node_hi(k[n - 1])));
        lemma_inside_widen(leaves_of(k[n - 1].children), node_lo(k[n - 1]), node_hi(k[n - 1]), lo, hi);
        lemma_inside_concat(leaves_of_kids(k, n - 1), leaves_of(k[n - 1].children), lo, hi);
    }
}
proof fn corollary_deep_cover(t: RTreeChildren)
    requires cover_all(t),
    ensures
        
        deep_cover(t),
    decreases t
{
    match t {
        RTreeChildren::DataSections(_) => {}
        RTreeChildren::Nodes(v) => {
            assert forall|i: int| 0 <= i < v@.len() implies
                secs_inside(leaves_of((#[trigger] v@[i]).children), node_lo(v@[i]), node_hi(v@[i])) && deep_cover(v@[i].children)
            by {
                let n = v@[i];
                assert(covers(n) && cover_all(n.children));
                corollary_deep_cover(n.children);
                match n.children {
                    RTreeChildren::DataSections(s) => {}
                    RTreeChildren::Nodes(k) => {
                        lemma_kids_inside(k@, k@.len() as int, node_lo(n), node_hi(n));
                    }
                }
            }
        }
    }
}

// ================= code under contract, piece 1: the node constructor (as in rt_spans) =================
// `.map(|c| match &c { .. })`: the closure body becomes `fn node_of_child(c)`; piece 2 calls it where the closure stood.
fn node_of_child(c: RTreeChildren) -> (node: RTreeNode)
    requires
        
        child_nonempty(c),
    ensures
        
        node.children == c,
        
        child_ok(c) ==> covers(node),
        
        tight(node),
{
    proof {
        match &c {
            RTreeChildren::DataSections(s) => { lemma_max_secs(s@, s@.len() as int); }
            RTreeChildren::Nodes(k) => { lemma_max_nodes(k@, k@.len() as int); }
        }
    }

    match &c {
                            // The end of a node is the largest (chrom, base) end beneath it,
                            // which for bigBeds need not be the end of the last child
                            RTreeChildren::DataSections(sections) => {
                                let (end_chrom_idx, end_base) =
                                    max_end_of_sections(sections).unwrap();
                                RTreeNode {
                                    start_chrom_idx: first_section(sections).unwrap().chrom,
                                    start_base: first_section(sections).unwrap().start,
                                    end_chrom_idx,
                                    end_base,
                                    children: c,
                                }
                            }
                            RTreeChildren::Nodes(children) => {
                                let (end_chrom_idx, end_base) = max_end_of_children(children)
                                    .unwrap();
                                RTreeNode {
                                    start_chrom_idx: first_child(children).unwrap().start_chrom_idx,
                                    start_base: first_child(children).unwrap().start_base,
                                    end_chrom_idx,
                                    end_base,
                                    children: c,
                                }
                            }
                        }
}

// ================= code under contract, piece 2: the whole function =================
fn get_rtreeindex(
    sections_stream: VIter<Section>,
    options: &BBIWriteOptions,
) -> (r: (RTreeChildren, usize, u64))
    requires
        
        sections_stream.pos() == 0,
        
        options.block_size >= 2,
        
        sections_stream.all().len() <= u64::MAX,
    ensures
        
        wf(r.0, r.1 as int, options.block_size as int, true),
        
        secs_sorted(sections_stream.all()) ==> cover_all(r.0),
        
        secs_sorted(sections_stream.all()) ==> deep_cover(r.0),
        
        leaves_of(r.0) == sections_stream.all(),
        
        r.2 == sections_stream.all().len(),
        
        sections_stream.all().len() == 0 ==> r.1 == 0 && (r.0 matches RTreeChildren::DataSections(v) && v@.len() == 0),
        
        r.1 == height(r.0),
        
        sections_stream.all().len() > 0 ==> nonempty_all(r.0),
{
    let ghost secs = sections_stream.all();


    let block_size = options.block_size as usize;
    let mut total_sections = 0;

    let chunks = ({ let mut src__ = sections_stream; let mut seen__: Vec<Section> = Vec::new();
        loop 
            invariant
                
                src__.all() == secs, src__.pos() == seen__@.len(), seen__@.len() <= secs.len(),
                seen__@ == secs.subrange(0, seen__@.len() as int),
                secs.len() <= u64::MAX,
                total_sections as int == seen__@.len(),
            ensures
                
                seen__@ == secs,
                total_sections as int == secs.len(),
            decreases
                
                secs.len() - seen__@.len(),
{

            proof { if seen__@.len() < secs.len() { assert(secs.subrange(0, seen__@.len() as int + 1) =~= secs.subrange(0, seen__@.len() as int).push(secs[seen__@.len() as int])); } }
            match src__.next() { Some(x__) => { total_sections += 1; seen__.push(x__); } None => { break; } }
        }

        proof { assert(secs.subrange(0, secs.len() as int) =~= secs); }
        VIter::of_vec(seen__) }).chunks(block_size);

    let ghost gs0 = chunks.groups();
    let mut current_nodes: Vec<RTreeChildren> = { let mut it__ = chunks.into_iter(); let mut out__: Vec<RTreeChildren> = Vec::new();
        loop 
            invariant
                
                it__.all().len() == gs0.len(), it__.pos() == out__@.len(), out__@.len() <= gs0.len(),
                forall|g: int| 0 <= g < gs0.len() ==> (#[trigger] it__.all()[g]).all() == gs0[g] && it__.all()[g].pos() == 0,
                forall|g: int| 0 <= g < out__@.len() ==> leaf_of(#[trigger] out__@[g], gs0[g]),
            ensures
                
                out__@.len() == gs0.len(),
                forall|g: int| 0 <= g < out__@.len() ==> leaf_of(#[trigger] out__@[g], gs0[g]),
            decreases
                
                gs0.len() - out__@.len(),
{
            match it__.next() { Some(chunk) => { let item__ = {
            let current_chunk: Vec<_> = chunk.collect();
            RTreeChildren::DataSections(current_chunk)
            }; out__.push(item__); } None => { break; } }
        }
        out__ };
    let mut levels = 0;

    let ghost k0 = current_nodes@.len();
    proof {
        assert(k0 == current_nodes.len());
        lemma_leaf_level(secs, gs0, current_nodes@, block_size as int);
        lemma_count(gs0, secs, block_size as int);
    }
    let nodes: RTreeChildren; loop 
        invariant_except_break
            
            level_ok(current_nodes@, levels as int, block_size as int, secs),
            
            levels as int + current_nodes@.len() <= k0, k0 <= usize::MAX,
            secs.len() == 0 ==> levels as int == 0 && current_nodes@.len() == 0,
            secs.len() > 0 ==> current_nodes@.len() >= 1,
        invariant
            block_size >= 2, block_size == options.block_size as usize,
        ensures
            
            wf(nodes, levels as int, block_size as int, true),
            
            secs_sorted(secs) ==> cover_all(nodes),
            
            leaves_of(nodes) == secs,
            
            secs.len() == 0 ==> levels as int == 0 && (nodes matches RTreeChildren::DataSections(v) && v@.len() == 0),
            
            levels as int == height(nodes),
            
            secs.len() > 0 ==> nonempty_all(nodes),
        decreases
            
            current_nodes@.len(),
{

        let ghost cur0 = current_nodes@;
        let ghost lv0 = levels as int;
        proof {
            lemma_root(cur0, lv0, block_size as int, secs);
            if secs.len() == 0 { assert(secs =~= Seq::<Section>::empty()); }
        }
        if current_nodes.len() <= 1 {
            // No sections at all (e.g. a zoom level without any record) still gets a root: an empty leaf
            { nodes = (match current_nodes.pop() { Some(v__) => v__, None => RTreeChildren::DataSections(vec![]) }); break; }
        }
        levels += 1;
        let chunks = VIter::of_vec(current_nodes).chunks(block_size);

        let ghost gs = chunks.groups();
        proof { lemma_groups_nonempty(cur0, gs, lv0, block_size as int, secs); }
        current_nodes = { let mut it__ = chunks.into_iter(); let mut out__: Vec<RTreeChildren> = Vec::new();
        loop 
            invariant
                
                it__.all().len() == gs.len(), it__.pos() == out__@.len(), out__@.len() <= gs.len(),
                forall|g: int| 0 <= g < gs.len() ==> (#[trigger] it__.all()[g]).all() == gs[g] && it__.all()[g].pos() == 0,
                groups_nonempty(gs),
                forall|g: int| 0 <= g < out__@.len() ==> built_from(#[trigger] out__@[g], gs[g]),
            ensures
                
                out__@.len() == gs.len(),
                forall|g: int| 0 <= g < out__@.len() ==> built_from(#[trigger] out__@[g], gs[g]),
            decreases
                
                gs.len() - out__@.len(),
{
            match it__.next() { Some(chunk) => { let item__ = {
                RTreeChildren::Nodes(
                    { let mut cit__ = chunk; let mut nodes__: Vec<RTreeNode> = Vec::new();
                loop 
                    invariant
                        
                        0 <= out__@.len() < gs.len(), cit__.all() == gs[out__@.len() as int],
                        cit__.pos() == nodes__@.len(), nodes__@.len() <= cit__.all().len(),
                        groups_nonempty(gs),
                        forall|k: int| 0 <= k < nodes__@.len() ==> item_of(#[trigger] nodes__@[k], cit__.all()[k]),
                    ensures
                        
                        nodes__@.len() == cit__.all().len(),
                    decreases
                        
                        cit__.all().len() - nodes__@.len(),
{
                    match cit__.next() { Some(c) => { let node__ = node_of_child(c); nodes__.push(node__); } None => { break; } }
                }
                nodes__ },
                )
            }; out__.push(item__); } None => { break; } }
        }
        out__ };
    
        proof {
            lemma_next_level(cur0, gs, current_nodes@, lv0, block_size as int, secs);
            lemma_count(gs, cur0, block_size as int);
        }
};

    //println!("Total sections: {:?}", total_sections);
    //println!("Nodes ({:?}): {:?}", nodes.nodes.len(), nodes);
    //println!("Levels: {:?}", levels);

    proof { if secs_sorted(secs) { corollary_deep_cover(nodes); } }
    (nodes, levels, total_sections)
}

fn main() {}
} // verus!

