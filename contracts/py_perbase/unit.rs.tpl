//@unit py_perbase
//@serves C20
//@backend verus
// Python bindings (pybigtools/src/lib.rs): the per-base array fillers `to_array` (bigWig) and
// `to_entry_array` (bigBed) and the integer part of the range defaulting (`start_end_length_inner`,
// `bigwig_start_end_length`, `bigbed_start_end_length`) and of the range clamp of `intervals_to_array`.
//   C20: "per-base output equals the stored value (for bigBed, the number of overlapping entries)
//         with the `missing` value where there is no data".
// UNBOUNDED (any range, any number of values).  Floats are uninterpreted: `is_nan()` is an uninterpreted
// predicate with three NAMED axioms (A1..A3 below), `+` / `as f64` pin the SHAPE of the computation.
// NOT covered here: the binned routines and the out-of-bounds fill (unit py_bins, Kani, bounded), the
// pyo3/numpy glue of intervals_to_array / entries_to_array, `Summary` parsing.  See NOTES.md.
use vstd::prelude::*;
use vstd::std_specs::ops::*;
use vstd::std_specs::convert::FromSpec;
verus! {
global size_of usize == 8;
//@include ../_shared/floats.rs

//@extract struct bigtools/src/bbi.rs Value
//@rule R8
//@end
// `rest: String` is carried along untouched; the derive is dropped (Verus cannot derive through String).
//@extract struct bigtools/src/bbi.rs BedEntry
//@rule R8
//@sub /#\[derive\([^)]*\)\]\n/ => "" min=0
//@end
// `name: String`, `length: u32`, `id: u32`
//@extract struct bigtools/src/bbi/bbiread.rs ChromInfo
//@rule R8
//@sub /#\[derive\([^)]*\)\]\n/ => "" min=0
//@end

// =====================================================================================
// shims (ASSUMED; each is listed in NOTES.md)
// =====================================================================================
/// `bigtools::BBIReadError` (imported as `_BBIReadError`): opaque.
#[verifier::external_body]
#[derive(Debug)]
pub struct ReadErr { _p: u8 }

/// NaN test: uninterpreted.  The three facts about it that the proofs use are the NAMED assumptions
/// A1, A2, A3 (all true of IEEE-754 binary64; A2/A3 are re-checked bit-precisely by Kani in unit
/// py_bins, harnesses lemma_*).  "Finite data" (C20) enters as a PRECONDITION of the fillers, not as an axiom.
pub uninterp spec fn is_nan_spec(x: f64) -> bool;
pub assume_specification [f64::is_nan] (x: f64) -> (r: bool) ensures r == is_nan_spec(x);
/// A1: the constant f64::NAN is a NaN
pub axiom fn ax_nan_const_is_nan() ensures is_nan_spec(spec_f64_nan());
/// A2: 1.0 is not a NaN
pub axiom fn ax_one_is_not_nan() ensures !is_nan_spec(1.0f64);
/// A3: x + 1.0 is not a NaN unless x is (finite + 1, +inf + 1, -inf + 1 are not NaN)
pub axiom fn ax_plus_one_keeps_non_nan(x: f64) ensures !is_nan_spec(x) ==> !is_nan_spec(x.add_spec(1.0f64));

/// `v as f64` for an f32 (exact widening; uninterpreted here)
pub uninterp spec fn f64_of(x: f32) -> f64;
#[verifier::external_body]
pub fn f64_of_f32(x: f32) -> (r: f64) ensures r == f64_of(x) { x as f64 }

/// R11 shim for `numpy::ndarray::ArrayViewMut<'_, f64, numpy::Ix1>` (a mutable view of a
/// one-dimensional f64 array, passed by value): `&mut VArr` over a `Vec<f64>`.  Methods used by the code:
///   len()         number of elements
///   fill(x)       every element := x
///   index_mut(i)  `IndexMut::index_mut`: PANICS when i >= len (ndarray bounds check) => `requires i < len`
///   v[i]          same bounds check (not used by the per-base fillers; accepted for edits)
pub struct VArr { pub d: Vec<f64> }
impl VArr {
    pub open spec fn view(&self) -> Seq<f64> { self.d@ }
    pub open spec fn spec_len(&self) -> usize { self.d@.len() as usize }
    #[verifier::when_used_as_spec(spec_len)]
    pub fn len(&self) -> (r: usize)
        ensures r == self@.len(), r == self.spec_len(),
    { self.d.len() }
    #[verifier::external_body]
    pub fn fill(&mut self, x: f64)
        ensures
            final(self)@.len() == old(self)@.len(),
            forall|i: int| 0 <= i < final(self)@.len() ==> (#[trigger] final(self)@[i]) == x,
    { unimplemented!() }
    #[verifier::external_body]
    pub fn index_mut(&mut self, i: usize) -> (r: &mut f64)
        requires
            i < old(self)@.len(),
        ensures
            *r == old(self)@[i as int],
            final(self)@ == old(self)@.update(i as int, *final(r)),
    { unimplemented!() }
    pub fn get(&self, i: usize) -> (r: f64)
        requires i < self@.len(),
        ensures r == self@[i as int],
    { self.d[i] }
}

/// pyo3 `PyErr`: only WHICH exception class is raised is modelled (`PyErr::new::<exceptions::PyKeyError, _>(msg)`
/// -> `py_err_new(PyExc::PyKeyError)`; the message text is dropped).
#[derive(PartialEq, Eq, Debug)]
pub enum PyExc { PyKeyError, PyValueError, PyTypeError, PyIndexError, PyRuntimeError, PyException, BBIReadError, BBIFileClosed }
#[derive(Debug)]
pub struct PyErr { pub kind: PyExc }
pub fn py_err_new(kind: PyExc) -> (r: PyErr) ensures r.kind == kind { PyErr { kind } }

/// `chroms.into_iter().find(|x| x.name == chrom_name)` on `&[ChromInfo]`: ASSUMED std behaviour of
/// `Iterator::find` + `String == &str`: the FIRST element whose name equals `name`, None if there is none.
pub open spec fn named(c: ChromInfo, name: Seq<char>) -> bool { c.name@ == name }
pub open spec fn first_named(chroms: Seq<ChromInfo>, name: Seq<char>, i: int) -> bool {
    0 <= i < chroms.len() && named(chroms[i], name) && forall|k: int| 0 <= k < i ==> !named(#[trigger] chroms[k], name)
}
pub open spec fn none_named(chroms: Seq<ChromInfo>, name: Seq<char>) -> bool {
    forall|k: int| 0 <= k < chroms.len() ==> !named(#[trigger] chroms[k], name)
}
#[verifier::external_body]
pub fn find_chrom<'a>(chroms: &'a [ChromInfo], name: &str) -> (r: Option<&'a ChromInfo>)
    ensures
        r is None <==> none_named(chroms@, name@),
        r matches Some(c) ==> exists|i: int| #[trigger] first_named(chroms@, name@, i) && *c == chroms@[i],
{ unimplemented!() }

/// R11 shim for `BigWigRead<R>` / `BigBedRead<R>` as far as the range defaulting looks at them: `chroms()`.
#[verifier::external_body]
pub struct VBbi { _p: u8 }
impl VBbi {
    pub uninterp spec fn chrom_list(&self) -> Seq<ChromInfo>;
    #[verifier::external_body]
    pub fn chroms(&self) -> (r: &[ChromInfo]) ensures r@ == self.chrom_list() { unimplemented!() }
}
/// all chromosome lengths fit i32 (`c.length as i32` wraps otherwise: robustness remark R2 in NOTES.md)
pub open spec fn lengths_fit_i32(chroms: Seq<ChromInfo>) -> bool {
    forall|k: int| 0 <= k < chroms.len() ==> (#[trigger] chroms[k]).length <= i32::MAX
}
/// the documented defaulting: start None -> 0, end None -> chromosome length; explicit bounds pass through
pub open spec fn defaulted(t: (i32, i32, i32), start: Option<i32>, end: Option<i32>, length: u32) -> bool {
    &&& t.2 as int == length as int
    &&& t.0 as int == (match start { Some(s) => s as int, None => 0int })
    &&& t.1 as int == (match end { Some(e) => e as int, None => length as int })
}

/// R11 shim for the generic stream `I: Iterator<Item = Result<T, _BBIReadError>>` (the reader's
/// interval iterator): ghost `rest()` = the items it will still yield; `next` yields the head.
#[verifier::external_body]
#[verifier::reject_recursive_types(T)]
pub struct VIter<T> { _p: core::marker::PhantomData<T> }
impl<T> VIter<T> {
    pub uninterp spec fn rest(&self) -> Seq<Result<T, ReadErr>>;
    #[verifier::external_body]
    pub fn next(&mut self) -> (r: Option<Result<T, ReadErr>>)
        ensures
            old(self).rest().len() == 0 ==> r is None && final(self).rest() == old(self).rest(),
            old(self).rest().len() > 0 ==> r == Some(old(self).rest()[0]) && final(self).rest() == old(self).rest().drop_first(),
    { unimplemented!() }
}

// =====================================================================================
// specification vocabulary (written from the property)
// =====================================================================================
/// number of leading Ok items (= index of the first Err, or the length)
pub open spec fn n_ok<T>(s: Seq<Result<T, ReadErr>>) -> int
    decreases s.len()
{
    if s.len() == 0 { 0 } else if s[0] is Err { 0 } else { 1 + n_ok(s.drop_first()) }
}
pub open spec fn all_ok<T>(s: Seq<Result<T, ReadErr>>) -> bool { n_ok(s) == s.len() }
/// the payloads of the first n items (all Ok)
pub open spec fn oks<T>(s: Seq<Result<T, ReadErr>>, n: int) -> Seq<T> { Seq::new(n as nat, |i: int| s[i]->Ok_0) }

/// base p lies inside [s, e)
pub open spec fn inside(s: u32, e: u32, p: int) -> bool { s <= p < e }

// ---- bigWig -----------------------------------------------------------------------------
/// What the range query hands to `to_array(start, end, ..)`: `get_interval(chrom, max(start,0), min(end,length))`
/// returns values clipped to the query, ascending, non-overlapping (unit bw_dec: labels
/// `exactly_overlapping_clipped_in_order`, `fc/inside_query_range`, `fc/ascending_non_overlapping`;
/// unit iters: `bw/result_is_the_next_element_of_pending_values_then_per_block_results_in_block_order`).
/// Since max(start,0) >= start and min(end,length) <= end, every value lies inside [start, end).
pub open spec fn bw_answer(v: Seq<Value>, start: i32, end: i32) -> bool {
    &&& forall|i: int| 0 <= i < v.len() ==> start <= (#[trigger] v[i]).start && v[i].start <= v[i].end && v[i].end <= end
    &&& forall|i: int, j: int| 0 <= i < j < v.len() ==> (#[trigger] v[i]).end <= (#[trigger] v[j]).start
}
/// "finite data": no stored value widens to a NaN
pub open spec fn bw_no_nan(v: Seq<Value>) -> bool {
    forall|i: int| 0 <= i < v.len() ==> !is_nan_spec(f64_of((#[trigger] v[i]).value))
}
/// none of the first n values contains base p
pub open spec fn bw_uncovered(v: Seq<Value>, n: int, p: int) -> bool {
    forall|j: int| 0 <= j < n ==> !inside((#[trigger] v[j]).start, v[j].end, p)
}

// ---- bigBed -----------------------------------------------------------------------------
/// number of the first n entries that contain base p
pub open spec fn count_at(v: Seq<BedEntry>, n: int, p: int) -> nat
    decreases n
{
    if n <= 0 { 0 } else { count_at(v, n - 1, p) + (if inside(v[n - 1].start, v[n - 1].end, p) { 1nat } else { 0nat }) }
}
/// the f64 the code builds for a count n >= 1: 1.0, then `+ 1.0` per further entry (shape)
pub open spec fn cnt_f(n: nat) -> f64
    decreases n
{
    if n <= 1 { 1.0f64 } else { cnt_f((n - 1) as nat).add_spec(1.0f64) }
}
/// what a cell holds while the entries are being counted: NaN for 0, cnt_f(n) otherwise
pub open spec fn cell_of(n: nat) -> f64 { if n == 0 { spec_f64_nan() } else { cnt_f(n) } }
/// What the bigBed range query `get_interval(chrom, max(start,0), min(end,length))` hands out (unit bb_dec:
/// `exactly_touching_entries_in_order`, `nothing_wholly_outside`; unit iters `bb/result_is_the_next_element_..`):
/// the stored entries that TOUCH the query (`e.end >= qs && e.start <= qe`), NOT clipped to it, overlapping
/// each other freely.  Since qs >= start and qe <= end: `e.end >= start && e.start <= end`.  Coordinates fit
/// i32 (chromosome length <= i32::MAX, see the robustness remark in NOTES.md).
pub open spec fn bb_answer(v: Seq<BedEntry>, start: i32, end: i32) -> bool {
    forall|i: int| 0 <= i < v.len() ==> (#[trigger] v[i]).start <= v[i].end && v[i].end <= i32::MAX
        && start <= v[i].end && v[i].start <= end
}
/// the entry's bounds clamped to the requested range [start, end)
pub open spec fn clamp_lo(x: u32, start: i32, end: i32) -> int { if x < start { start as int } else if x > end { end as int } else { x as int } }
pub open spec fn clamp_hi(x: u32, start: i32, end: i32) -> int { if x > end { end as int } else if x < start { start as int } else { x as int } }

// ---------------- lemmas ----------------
proof fn lemma_n_ok_bounds<T>(s: Seq<Result<T, ReadErr>>)
    ensures 0 <= n_ok(s) <= s.len(),
        forall|i: int| 0 <= i < n_ok(s) ==> (#[trigger] s[i]) is Ok,
        n_ok(s) < s.len() ==> s[n_ok(s)] is Err,
    decreases s.len()
{
    if s.len() > 0 && s[0] is Ok {
        lemma_n_ok_bounds(s.drop_first());
        assert forall|i: int| 0 <= i < n_ok(s) implies (#[trigger] s[i]) is Ok by {
            if i > 0 { assert(s[i] == s.drop_first()[i - 1]); }
        }
        if n_ok(s) < s.len() { assert(s[n_ok(s)] == s.drop_first()[n_ok(s) - 1]); }
    }
}
/// a prefix of Ok items followed by the stream's remainder: n_ok of the whole from n_ok of the remainder
proof fn lemma_n_ok_split<T>(s: Seq<Result<T, ReadErr>>, j: int)
    requires 0 <= j <= s.len(), forall|i: int| 0 <= i < j ==> (#[trigger] s[i]) is Ok,
    ensures n_ok(s) == j + n_ok(s.subrange(j, s.len() as int)),
    decreases j
{
    if j == 0 {
        assert(s.subrange(0, s.len() as int) =~= s);
    } else {
        let t = s.drop_first();
        assert forall|i: int| 0 <= i < j - 1 implies (#[trigger] t[i]) is Ok by { assert(t[i] == s[i + 1]); }
        lemma_n_ok_split(t, j - 1);
        assert(t.subrange(j - 1, t.len() as int) =~= s.subrange(j, s.len() as int));
        assert(s[0] is Ok);
    }
}
proof fn lemma_cnt_not_nan(n: nat)
    requires n >= 1,
    ensures !is_nan_spec(cnt_f(n)),
    decreases n
{
    ax_one_is_not_nan();
    if n > 1 {
        lemma_cnt_not_nan((n - 1) as nat);
        ax_plus_one_keeps_non_nan(cnt_f((n - 1) as nat));
    }
}

// ---- the closing pass `for val in v.iter_mut() { *val = if val.is_nan() { missing } else { *val }; }` ----
// The loop becomes an index loop by //@sub; its invariant is ONE predicate named in the substitution text
// (no `//@loop 3` splice: a mutant that deletes the whole pass must reach Verus and fail the postcondition,
// not die as "anchor lost").  A violated invariant is reported as `<fn>/implicit:invariant not satisfied ..`.
/// bigWig: covered cells hold their value; uncovered cells before i hold `missing`, from i on the NaN marker
pub open spec fn bw_final_inv(v: Seq<f64>, n: int, i: int, vals: Seq<Value>, nk: int, start: int, end: int, missing: f64) -> bool {
    &&& v.len() == end - start && n == v.len() && nk == vals.len()
    &&& forall|q: int, k: int| 0 <= q < v.len() && 0 <= k < nk && inside((#[trigger] vals[k]).start, vals[k].end, start + q)
            ==> #[trigger] v[q] == f64_of(vals[k].value)
    &&& forall|q: int| 0 <= q < i && q < v.len() && bw_uncovered(vals, nk, start + q) ==> #[trigger] v[q] == missing
    &&& forall|q: int| i <= q < v.len() && bw_uncovered(vals, nk, start + q) ==> is_nan_spec(#[trigger] v[q])
}
/// a covered cell holds a stored value, which is not NaN (finite data): the pass keeps it
proof fn lemma_bw_final_step(v: Seq<f64>, n: int, i: int, vals: Seq<Value>, nk: int, start: int, end: int, missing: f64)
    requires bw_final_inv(v, n, i, vals, nk, start, end, missing), 0 <= i < v.len(), bw_no_nan(vals),
    ensures is_nan_spec(v[i]) <==> bw_uncovered(vals, nk, start + i),
{
    if !bw_uncovered(vals, nk, start + i) {
        let k = choose|k: int| 0 <= k < nk && inside((#[trigger] vals[k]).start, vals[k].end, start + i);
        assert(v[i] == f64_of(vals[k].value));
    }
}
/// bigBed: cells before i hold `missing` / the count, from i on the counting state (NaN marker for 0)
pub open spec fn be_final_inv(v: Seq<f64>, n: int, i: int, ents: Seq<BedEntry>, nk: int, start: int, end: int, missing: f64) -> bool {
    &&& v.len() == end - start && n == v.len() && nk == ents.len()
    &&& forall|q: int| 0 <= q < i && q < v.len() && count_at(ents, nk, start + q) == 0 ==> #[trigger] v[q] == missing
    &&& forall|q: int| 0 <= q < i && q < v.len() && count_at(ents, nk, start + q) > 0 ==> #[trigger] v[q] == cnt_f(count_at(ents, nk, start + q))
    &&& forall|q: int| i <= q < v.len() ==> #[trigger] v[q] == cell_of(count_at(ents, nk, start + q))
}
proof fn lemma_be_final_step(v: Seq<f64>, n: int, i: int, ents: Seq<BedEntry>, nk: int, start: int, end: int, missing: f64)
    requires be_final_inv(v, n, i, ents, nk, start, end, missing), 0 <= i < v.len(),
    ensures is_nan_spec(v[i]) <==> count_at(ents, nk, start + i) == 0,
{
    ax_nan_const_is_nan();
    let c = count_at(ents, nk, start + i);
    if c >= 1 { lemma_cnt_not_nan(c); }
}

// =====================================================================================
// to_array (bigWig, per base)
// =====================================================================================
// Substitutions (R11), all type/syntax shims:
//   generic `I: Iterator<..>` parameter dropped, `iter: I` -> `iter: &mut VIter<Value>` (so that "an Err item is
//   returned AT ONCE" is expressible: the items behind it are still in the stream);
//   `mut v: ArrayViewMut<'_, f64, numpy::Ix1>` -> `v: &mut VArr`;  `_BBIReadError` -> `ReadErr`;
//   `for interval in iter {` -> `loop { let interval = match iter.next() { None => break, Some(x) => x };`
//   `for interval in iter.flatten() {` (also `.filter_map(Result::ok)`, `.filter_map(|r| r.ok())`; 0 hits on /repo) -> the
//   same `loop {` header followed by `let interval = match interval { Ok(x) => x, Err(_) => { continue; } };`: the REAL
//   meaning of `Iterator::flatten` over `Result` items (`Result` iterates over its Ok value: an Err item yields
//   nothing and the adaptor goes on with the next item).  The optional splice on that line states what the property
//   needs there: the item just taken is not an Err that is about to be skipped
//   (`../error_item_is_returned_at_once/not_skipped_by_flatten`).  Both header subs are min=0: the anchor that
//   must survive is `let interval = match iter.next()` (the //@at below).
//   `for val in v.iter_mut() {` -> index loop `let n__ = v.len(); for i__2 in 0..n__ { let val = v.index_mut(i__2);`
//   `X as f64` (f32 -> f64 widening) -> `f64_of_f32(X)`;  `f64::NAN` -> `fconst_f64_nan()` (R12c)
//@extract fn pybigtools/src/lib.rs to_array
//@rule R16
//@rule R6
//@rule R12c
//@sub /<I: Iterator<Item = Result<\w+, _BBIReadError>>>/ => "" min=1
//@sub /\biter: I\b/ => iter: &mut VIter<Value> min=1
//@sub /mut v: ArrayViewMut<'_, f64, numpy::Ix1>/ => v: &mut VArr min=1
//@sub /\b_BBIReadError\b/ => ReadErr min=0
//@sub /for interval in iter\s*\.(?:flatten\(\)|filter_map\(Result::ok\)|filter_map\(\|(\w+)\| \1\.ok\(\)\)) \{/ => loop {\n        let interval = match iter.next() { None => { break; } Some(r__) => r__ };\n        let interval = match interval { Ok(x__) => x__, Err(_) => { continue; } }; min=0
//@sub /for interval in iter \{/ => loop {\n        let interval = match iter.next() { None => { break; } Some(r__) => r__ }; min=0
//@sub /for val in v\.iter_mut\(\) \{/ => let n__ = v.len();\n    for i__2 in 0..n__\n        invariant bw_final_inv(v@, n__ as int, i__2 as int, vals, nk, start as int, end as int, missing), nk == items.len(), vals == oks(items, nk), bw_no_nan(vals),\n    {\n        proof { lemma_bw_final_step(v@, n__ as int, i__2 as int, vals, nk, start as int, end as int, missing); }\n        let val = v.index_mut(i__2); min=0
//@sub /\b(\w+(?:\.\w+)*) as f64\b/ => f64_of_f32(\1) min=0
//@ret r
//@sig
    requires
        [[L: bw/pre_one_cell_per_requested_base]]
        // the caller allocates `end - start` cells (intervals_to_array: `vec![missing; (end - start) as usize]`
        // or the size check on a passed `arr`); `end - start` must not overflow i32
        start <= end, end - start <= i32::MAX, old(v)@.len() == end - start,
        [[L: bw/pre_query_contract]]
        // ASSUMED contract of `get_interval(chrom, max(start,0), min(end,length))` (C03; bw_dec, iters)
        bw_answer(oks(old(iter).rest(), n_ok(old(iter).rest())), start, end),
        [[L: bw/pre_finite_data]]
        bw_no_nan(oks(old(iter).rest(), n_ok(old(iter).rest()))),
    ensures
        [[L: bw/one_number_per_base]]
        final(v)@.len() == end - start,
        [[L: bw/error_iff_stream_has_an_error]]
        r is Err <==> !all_ok(old(iter).rest()),
        [[L: bw/error_item_is_returned_at_once]]
        r is Err ==> final(iter).rest() == old(iter).rest().subrange(n_ok(old(iter).rest()) + 1, old(iter).rest().len() as int),
        [[L: bw/covered_bases_hold_the_stored_value]]
        r is Ok ==> forall|q: int, j: int| 0 <= q < end - start && 0 <= j < old(iter).rest().len()
            && inside((#[trigger] old(iter).rest()[j])->Ok_0.start, old(iter).rest()[j]->Ok_0.end, start + q)
            ==> #[trigger] final(v)@[q] == f64_of(old(iter).rest()[j]->Ok_0.value),
        [[L: bw/uncovered_bases_hold_missing]]
        r is Ok ==> forall|q: int| 0 <= q < end - start
            && bw_uncovered(oks(old(iter).rest(), old(iter).rest().len() as int), old(iter).rest().len() as int, start + q)
            ==> #[trigger] final(v)@[q] == missing,
//@open
    let ghost items = iter.rest();
    let ghost nk = n_ok(items);
    let ghost vals = oks(items, nk);
    let ghost mut j: int = 0;
    proof {
        float_ax::float_det();
        ax_nan_const_is_nan();
        lemma_n_ok_bounds(items);
        assert(items.subrange(0, items.len() as int) =~= items);
    }
//@loop 1
        invariant_except_break
            [[L: bw/loop/progress]]
            0 <= j <= nk,
        invariant
            [[L: bw/loop/frame]]
            items == old(iter).rest(), nk == n_ok(items), vals == oks(items, nk), 0 <= nk <= items.len(),
            forall|i: int| 0 <= i < nk ==> (#[trigger] items[i]) is Ok,
            nk < items.len() ==> items[nk] is Err,
            start <= end, end - start <= i32::MAX, v@.len() == end - start,
            bw_answer(vals, start, end), bw_no_nan(vals),
            is_nan_spec(spec_f64_nan()),
            iter.rest() == items.subrange(j, items.len() as int),
            [[L: bw/loop/covered_so_far_hold_their_value]]
            forall|q: int, k: int| 0 <= q < v@.len() && 0 <= k < j && inside((#[trigger] vals[k]).start, vals[k].end, start + q)
                ==> #[trigger] v@[q] == f64_of(vals[k].value),
            [[L: bw/loop/rest_still_nan]]
            forall|q: int| 0 <= q < v@.len() && bw_uncovered(vals, j, start + q) ==> is_nan_spec(#[trigger] v@[q]),
        ensures
            [[L: bw/loop/exit_all_consumed]]
            j == nk, nk == items.len(),
        decreases
            [[L: bw/loop/termination]]
            items.len() - j,
//@at /let interval = match iter\.next\(\)/ after
        proof {
            assert(iter.rest() =~= items.subrange(j + 1, items.len() as int));
            assert(interval == items[j]);
            if interval is Err { assert(j == nk); } else {
                assert(j < nk);
                assert(interval->Ok_0 == vals[j]);
                assert(start <= vals[j].start && vals[j].start <= vals[j].end && vals[j].end <= end);
            }
        }
//@at /Err\(_\) => \{ continue; \}/ before optional
        proof {
            // `iter.flatten()`: an Err item would be dropped here and the loop would go on -- it has to be returned
            assert(interval is Ok); [[L: bw/error_item_is_returned_at_once/not_skipped_by_flatten]]
        }
//@at /^\s*for i in / before
        proof {
            assert(interval_start == interval.start - start && interval_end == interval.end - start); [[L: bw/index_arithmetic_does_not_wrap]]
            assert(interval_start <= interval_end && interval_end <= v@.len()); [[L: bw/cell_range_inside_the_array]]
        }
//@loop 2
            invariant
                [[L: bw/inner/frame]]
                0 <= j < nk, interval == vals[j], vals == oks(items, nk),
                start <= end, end - start <= i32::MAX, v@.len() == end - start,
                bw_answer(vals, start, end), bw_no_nan(vals), is_nan_spec(spec_f64_nan()),
                interval_start == interval.start - start, interval_end == interval.end - start,
                interval_start <= interval_end, interval_end <= v@.len(),
                [[L: bw/inner/earlier_values_not_overwritten]]
                forall|q: int, k: int| 0 <= q < v@.len() && 0 <= k < j && inside((#[trigger] vals[k]).start, vals[k].end, start + q)
                    ==> #[trigger] v@[q] == f64_of(vals[k].value),
                [[L: bw/inner/this_value_filled_up_to_i]]
                forall|q: int| interval_start <= q < i ==> #[trigger] v@[q] == f64_of(interval.value),
                [[L: bw/inner/rest_still_nan]]
                forall|q: int| 0 <= q < v@.len() && bw_uncovered(vals, j, start + q) && !(interval_start <= q < i)
                    ==> is_nan_spec(#[trigger] v@[q]),
//@at /let val = \*v\.index_mut\(i\);/ before
            proof {
                float_ax::float_det();
                // disjointness: no earlier value contains base start + i, so the cell still holds the NaN marker
                assert forall|k: int| 0 <= k < j implies !inside((#[trigger] vals[k]).start, vals[k].end, start + i) by {
                    assert(vals[k].end <= vals[j].start);
                }
                assert(bw_uncovered(vals, j, start + i));
                assert(is_nan_spec(v@[i as int])); [[L: bw/summing_arm_is_dead_for_disjoint_values]]
            }
//@loopend 1
        proof { j = j + 1; }
//@at /^\s*Ok\(\(\)\)\s*$/ before
    proof {
        assert(vals =~= oks(items, items.len() as int));
        assert forall|q: int, jj: int| 0 <= q < end - start && 0 <= jj < items.len()
            && inside((#[trigger] items[jj])->Ok_0.start, items[jj]->Ok_0.end, start + q)
            implies #[trigger] v@[q] == f64_of(items[jj]->Ok_0.value) by {
            assert(vals[jj] == items[jj]->Ok_0);
        }
    }
//@end

// =====================================================================================
// to_entry_array (bigBed, per base): number of entries covering each base
// =====================================================================================
// Same substitutions as to_array (the stream carries `BedEntry`).  The reader does NOT clip bigBed entries
// to the query (bb_dec `exactly_touching_entries_in_order`): an entry may start before `start` and end after
// `end`; the filler has to clamp it to the requested range.  `be/cell_range_is_the_entry_clamped_to_the_request`
// states exactly that about the two bounds the code computes.
//@extract fn pybigtools/src/lib.rs to_entry_array
//@rule R16
//@rule R6
//@rule R12c
//@sub /<I: Iterator<Item = Result<\w+, _BBIReadError>>>/ => "" min=1
//@sub /\biter: I\b/ => iter: &mut VIter<BedEntry> min=1
//@sub /mut v: ArrayViewMut<'_, f64, numpy::Ix1>/ => v: &mut VArr min=1
//@sub /\b_BBIReadError\b/ => ReadErr min=0
//@sub /for interval in iter\s*\.(?:flatten\(\)|filter_map\(Result::ok\)|filter_map\(\|(\w+)\| \1\.ok\(\)\)) \{/ => loop {\n        let interval = match iter.next() { None => { break; } Some(r__) => r__ };\n        let interval = match interval { Ok(x__) => x__, Err(_) => { continue; } }; min=0
//@sub /for interval in iter \{/ => loop {\n        let interval = match iter.next() { None => { break; } Some(r__) => r__ }; min=0
//@sub /for val in v\.iter_mut\(\) \{/ => let n__ = v.len();\n    for i__2 in 0..n__\n        invariant be_final_inv(v@, n__ as int, i__2 as int, ents, nk, start as int, end as int, missing), nk == items.len(), ents == oks(items, nk),\n    {\n        proof { lemma_be_final_step(v@, n__ as int, i__2 as int, ents, nk, start as int, end as int, missing); }\n        let val = v.index_mut(i__2); min=0
//@sub /\b(\w+(?:\.\w+)*) as f64\b/ => f64_of_f32(\1) min=0
//@ret r
//@sig
    requires
        [[L: be/pre_one_cell_per_requested_base]]
        start <= end, end - start <= i32::MAX, old(v)@.len() == end - start,
        [[L: be/pre_query_contract_entries_touch_the_request_unclipped]]
        // ASSUMED contract of the bigBed range query (bb_dec, iters); entries are NOT assumed to lie inside [start, end)
        bb_answer(oks(old(iter).rest(), n_ok(old(iter).rest())), start, end),
    ensures
        [[L: be/one_number_per_base]]
        final(v)@.len() == end - start,
        [[L: be/error_iff_stream_has_an_error]]
        r is Err <==> !all_ok(old(iter).rest()),
        [[L: be/error_item_is_returned_at_once]]
        r is Err ==> final(iter).rest() == old(iter).rest().subrange(n_ok(old(iter).rest()) + 1, old(iter).rest().len() as int),
        [[L: be/covered_bases_hold_the_number_of_covering_entries]]
        r is Ok ==> forall|q: int| 0 <= q < end - start
            && count_at(oks(old(iter).rest(), old(iter).rest().len() as int), old(iter).rest().len() as int, start + q) > 0
            ==> #[trigger] final(v)@[q] == cnt_f(count_at(oks(old(iter).rest(), old(iter).rest().len() as int), old(iter).rest().len() as int, start + q)),
        [[L: be/uncovered_bases_hold_missing]]
        r is Ok ==> forall|q: int| 0 <= q < end - start
            && count_at(oks(old(iter).rest(), old(iter).rest().len() as int), old(iter).rest().len() as int, start + q) == 0
            ==> #[trigger] final(v)@[q] == missing,
//@open
    let ghost items = iter.rest();
    let ghost nk = n_ok(items);
    let ghost ents = oks(items, nk);
    let ghost mut j: int = 0;
    proof {
        float_ax::float_det();
        ax_nan_const_is_nan();
        lemma_n_ok_bounds(items);
        assert(items.subrange(0, items.len() as int) =~= items);
    }
//@loop 1
        invariant_except_break
            [[L: be/loop/progress]]
            0 <= j <= nk,
        invariant
            [[L: be/loop/frame]]
            items == old(iter).rest(), nk == n_ok(items), ents == oks(items, nk), 0 <= nk <= items.len(),
            forall|i: int| 0 <= i < nk ==> (#[trigger] items[i]) is Ok,
            nk < items.len() ==> items[nk] is Err,
            start <= end, end - start <= i32::MAX, v@.len() == end - start,
            bb_answer(ents, start, end), is_nan_spec(spec_f64_nan()),
            iter.rest() == items.subrange(j, items.len() as int),
            [[L: be/loop/each_cell_counts_the_entries_so_far]]
            forall|q: int| 0 <= q < v@.len() ==> #[trigger] v@[q] == cell_of(count_at(ents, j, start + q)),
        ensures
            [[L: be/loop/exit_all_consumed]]
            j == nk, nk == items.len(),
        decreases
            [[L: be/loop/termination]]
            items.len() - j,
//@at /let interval = match iter\.next\(\)/ after
        proof {
            assert(iter.rest() =~= items.subrange(j + 1, items.len() as int));
            assert(interval == items[j]);
            if interval is Err { assert(j == nk); } else {
                assert(j < nk);
                assert(interval->Ok_0 == ents[j]);
                assert(ents[j].start <= ents[j].end && ents[j].end <= i32::MAX && start <= ents[j].end && ents[j].start <= end);
            }
        }
//@at /Err\(_\) => \{ continue; \}/ before optional
        proof {
            // `iter.flatten()`: an Err item would be dropped here and the loop would go on -- it has to be returned
            assert(interval is Ok); [[L: be/error_item_is_returned_at_once/not_skipped_by_flatten]]
        }
//@at /^\s*for i in / before
        proof {
            assert(interval_start == clamp_lo(interval.start, start, end) - start
                && interval_end == clamp_hi(interval.end, start, end) - start); [[L: be/cell_range_is_the_entry_clamped_to_the_request]]
            assert(interval_end <= v@.len());
        }
//@loop 2
            invariant
                [[L: be/inner/frame]]
                0 <= j < nk, interval == ents[j], ents == oks(items, nk),
                start <= end, end - start <= i32::MAX, v@.len() == end - start,
                bb_answer(ents, start, end), is_nan_spec(spec_f64_nan()),
                interval_start == clamp_lo(interval.start, start, end) - start,
                interval_end == clamp_hi(interval.end, start, end) - start,
                interval_end <= v@.len(),
                [[L: be/inner/cells_up_to_i_count_this_entry_too]]
                forall|q: int| interval_start <= q < i ==> #[trigger] v@[q] == cell_of(count_at(ents, j + 1, start + q)),
                [[L: be/inner/other_cells_unchanged]]
                forall|q: int| 0 <= q < v@.len() && !(interval_start <= q < i) ==> #[trigger] v@[q] == cell_of(count_at(ents, j, start + q)),
//@at /let val = \*v\.index_mut\(i\);/ before
            proof {
                float_ax::float_det();
                let n = count_at(ents, j, start + i);
                assert(inside(ents[j].start, ents[j].end, start + i));
                assert(count_at(ents, j + 1, start + i) == n + 1);
                assert(v@[i as int] == cell_of(n));
                if n >= 1 { lemma_cnt_not_nan(n); }
                assert(is_nan_spec(v@[i as int]) <==> n == 0); [[L: be/a_cell_is_nan_exactly_while_no_entry_covers_it]]
                assert(cell_of(n + 1) == if n == 0 { 1.0f64 } else { cell_of(n).add_spec(1.0f64) });
            }
//@loopend 1
        proof {
            // outside the clamped range the entry does not cover the base: the count is unchanged
            assert forall|q: int| 0 <= q < v@.len() implies #[trigger] v@[q] == cell_of(count_at(ents, j + 1, start + q)) by {
                if !(interval_start <= q < interval_end) {
                    assert(!inside(ents[j].start, ents[j].end, start + q));
                    assert(count_at(ents, j + 1, start + q) == count_at(ents, j, start + q));
                }
            }
            j = j + 1;
        }
//@at /^\s*Ok\(\(\)\)\s*$/ before
    proof {
        assert(ents =~= oks(items, items.len() as int));
    }
//@end

// =====================================================================================
// range defaulting: start_end_length_inner and its two callers
// =====================================================================================
// Substitutions: `bigtools::ChromInfo` -> `ChromInfo`; `PyResult<T>` -> `Result<T, PyErr>`; the `find` closure chain ->
// `find_chrom(chroms, chrom_name)`; `PyErr::new::<exceptions::X, _>(format!(..))` -> `py_err_new(PyExc::X)`.
//@extract fn pybigtools/src/lib.rs start_end_length_inner
//@rule R16
//@sub /bigtools::ChromInfo/ => ChromInfo min=0
//@sub /PyResult<\(i32, i32, i32\)>/ => Result<(i32, i32, i32), PyErr> min=1
//@sub /chroms\.into_iter\(\)\.find\(\|x\| x\.name == chrom_name\)/ => find_chrom(chroms, chrom_name) min=0
//@sub /PyErr::new::<exceptions::(\w+), _>\(format!\([^;]*?\)\)\)/ => py_err_new(PyExc::\1)) min=0
//@ret r
//@sig
    requires
        [[L: sel/pre_chromosome_lengths_fit_i32]]
        lengths_fit_i32(chroms@),
    ensures
        [[L: sel/unknown_chromosome_is_a_key_error]]
        r is Err <==> none_named(chroms@, chrom_name@),
        r matches Err(e) ==> e.kind == PyExc::PyKeyError,
        [[L: sel/none_defaults_to_zero_and_chromosome_length]]
        r matches Ok(t) ==> exists|i: int| #[trigger] first_named(chroms@, chrom_name@, i) && defaulted(t, start, end, chroms@[i].length),
        [[L: sel/explicit_bounds_are_passed_through_unvalidated]]
        // there is NO validation: start >= end, negative bounds, bounds past the chromosome end are all accepted
        r matches Ok(t) ==> (start matches Some(s) ==> t.0 == s) && (end matches Some(e) ==> t.1 == e),
//@end

//@extract fn pybigtools/src/lib.rs bigwig_start_end_length
//@rule R16
//@sub /&BigWigReadRaw<R>/ => &VBbi min=1
//@sub /<R>/ => "" min=0
//@sub /PyResult<\(i32, i32, i32\)>/ => Result<(i32, i32, i32), PyErr> min=1
//@ret r
//@sig
    requires
        [[L: bwsel/pre_chromosome_lengths_fit_i32]]
        lengths_fit_i32(bbi.chrom_list()),
    ensures
        [[L: bwsel/same_as_inner_on_the_files_chromosome_list]]
        r is Err <==> none_named(bbi.chrom_list(), chrom_name@),
        r matches Err(e) ==> e.kind == PyExc::PyKeyError,
        r matches Ok(t) ==> exists|i: int| #[trigger] first_named(bbi.chrom_list(), chrom_name@, i) && defaulted(t, start, end, bbi.chrom_list()[i].length),
//@end

//@extract fn pybigtools/src/lib.rs bigbed_start_end_length
//@rule R16
//@sub /&BigBedReadRaw<R>/ => &VBbi min=1
//@sub /<R>/ => "" min=0
//@sub /PyResult<\(i32, i32, i32\)>/ => Result<(i32, i32, i32), PyErr> min=1
//@ret r
//@sig
    requires
        [[L: bbsel/pre_chromosome_lengths_fit_i32]]
        lengths_fit_i32(bbi.chrom_list()),
    ensures
        [[L: bbsel/same_as_inner_on_the_files_chromosome_list]]
        r is Err <==> none_named(bbi.chrom_list(), chrom_name@),
        r matches Err(e) ==> e.kind == PyExc::PyKeyError,
        r matches Ok(t) ==> exists|i: int| #[trigger] first_named(bbi.chrom_list(), chrom_name@, i) && defaulted(t, start, end, bbi.chrom_list()[i].length),
//@end

// =====================================================================================
// the range handed to the reader: one line of intervals_to_array / entries_to_array, carved out
//   `let (intervals_start, intervals_end) = (start.max(0) as u32, end.min(length) as u32);`
// =====================================================================================
//@extract fn pybigtools/src/lib.rs intervals_to_array
//@rule R16
//@presub /\A.*?\n[ \t]*(let \(intervals_start, intervals_end\) =[^;]*;).*\Z/ => fn bw_query_range(start: i32, end: i32, length: i32) -> (u32, u32) {\n    \1\n    (intervals_start, intervals_end)\n} min=1 count=1
//@ret r
//@sig
    requires
        [[L: bwq/pre_request_reaches_into_the_chromosome]]
        // `x as u32` wraps for negative x: the request must not lie entirely below 0 (robustness remark R3)
        0 <= length, 0 <= end,
    ensures
        [[L: bwq/query_is_the_request_clipped_to_the_chromosome]]
        r.0 == (if start > 0 { start } else { 0i32 }), r.1 == (if end < length { end } else { length }),
        [[L: bwq/query_lies_inside_the_request]]
        // what turns the reader's "clipped to the query" into to_array's `bw_answer(.., start, end)`
        start <= r.0, r.1 <= end,
//@end
//@extract fn pybigtools/src/lib.rs entries_to_array
//@rule R16
//@presub /\A.*?\n[ \t]*(let \(intervals_start, intervals_end\) =[^;]*;).*\Z/ => fn bb_query_range(start: i32, end: i32, length: i32) -> (u32, u32) {\n    \1\n    (intervals_start, intervals_end)\n} min=1 count=1
//@ret r
//@sig
    requires
        [[L: bbq/pre_request_reaches_into_the_chromosome]]
        0 <= length, 0 <= end,
    ensures
        [[L: bbq/query_is_the_request_clipped_to_the_chromosome]]
        r.0 == (if start > 0 { start } else { 0i32 }), r.1 == (if end < length { end } else { length }),
        [[L: bbq/query_lies_inside_the_request]]
        start <= r.0, r.1 <= end,
//@end

} // verus!
fn main() {}
