//@unit chrom_tree
//@serves C01 C02 C09
//@backend verus
// bbiwrite::write_chrom_tree: the chromosome B+ tree (one 32-byte tree header followed by ONE leaf node
// holding every chromosome).  C01/C02: "the chromosome table lists exactly the chromosomes that had data
// ... with the sizes that were supplied"; C09: "the chromosome tree [is] structurally valid".
// Proved: the bytes appended are the published B+-tree layout of the (id-sorted) chromosome list, every
// key is exactly keySize bytes (name, zero padded), the count fields are the real count.
use vstd::prelude::*;
verus! {
//@include ../_shared/bytes.rs

//@extract const bigtools/src/bbi.rs CHROM_TREE_MAGIC
//@rule R8
//@end
// the writer's defaults: not used by the pinned write_chrom_tree (its block size is max(256, count)); in scope so that
// an edit that starts using them is judged by the layout obligations instead of being refused (unknown name)
//@extract const bigtools/src/bbi/bbiwrite.rs DEFAULT_BLOCK_SIZE
//@rule R8
//@optional
//@end
//@extract const bigtools/src/bbi/bbiwrite.rs DEFAULT_ITEMS_PER_SLOT
//@rule R8
//@optional
//@end

/// one chromosome as the replaced prologue hands it to the writing code: (name bytes, id, length)
pub type Chrom = (Vec<u8>, u32, u32);

// ---- format spec (published bigWig/bigBed layout, Kent et al. 2010, "B+ tree header / node / leaf item";
// ---- shares no code with the reader; left-associated in file order)
pub open spec fn imax(a: int, b: int) -> int { if a >= b { a } else { b } }
pub open spec fn zeros(n: int) -> Seq<u8> { Seq::new(n as nat, |i: int| 0u8) }
/// key field: the name followed by NULs up to keySize bytes
pub open spec fn pad(name: Seq<u8>, n: int) -> Seq<u8> { name + zeros(n - name.len()) }
/// keySize = the longest name
pub open spec fn max_key(c: Seq<Chrom>) -> int
    decreases c.len()
{
    if c.len() == 0 { 0 } else { imax(max_key(c.drop_last()), c.last().0@.len() as int) }
}
/// tree header, 32 bytes: magic 0x78CA8C91, blockSize u32, keySize u32, valSize u32 (= 8), itemCount u64, reserved u64 (= 0)
pub open spec fn put_tree_header(b: Seq<u8>, n: int, key: int) -> Seq<u8> {
    b + le32(0x78CA8C91u32) + le32(imax(256, n) as u32) + le32(key as u32) + le32(8u32) + le64(n as u64) + le64(0u64)
}
/// node header, 4 bytes: isLeaf u8 (= 1), reserved u8 (= 0), count u16
pub open spec fn put_node_header(b: Seq<u8>, n: int) -> Seq<u8> {
    b.push(1u8).push(0u8) + le16(n as u16)
}
/// leaf item: key (keySize bytes), chromId u32, chromSize u32
pub open spec fn put_item(b: Seq<u8>, c: Chrom, key: int) -> Seq<u8> {
    b + pad(c.0@, key) + le32(c.1) + le32(c.2)
}
pub open spec fn items_from(b: Seq<u8>, c: Seq<Chrom>, key: int) -> Seq<u8>
    decreases c.len()
{
    if c.len() == 0 { b } else { put_item(items_from(b, c.drop_last(), key), c.last(), key) }
}
/// `b` followed by the whole chromosome tree of `c`
pub open spec fn fmt_chrom_tree_from(b: Seq<u8>, c: Seq<Chrom>) -> Seq<u8> {
    items_from(put_node_header(put_tree_header(b, c.len() as int, max_key(c)), c.len() as int), c, max_key(c))
}
/// any ordering of the table other than the exact `sort_by_key(|v| *v.1)` (which the precondition stands for):
/// unknown result, so an edit of the sort key is judged by the layout obligations
#[verifier::external_body]
pub fn havoc_order(c: &mut Vec<Chrom>)
    ensures final(c)@.len() == old(c)@.len(),
{ unimplemented!() }
/// ids strictly ascending (what `chroms.sort_by_key(|v| *v.1)` leaves, ids being distinct): ASSUMED of the input
pub open spec fn sorted_by_id(c: Seq<Chrom>) -> bool {
    forall|a: int, b: int| 0 <= a < b < c.len() ==> (#[trigger] c[a]).1 < (#[trigger] c[b]).1
}

// ---- lemmas ----
pub proof fn lemma_max_key_bounds(c: Seq<Chrom>, i: int)
    requires 0 <= i < c.len(),
    ensures c[i].0@.len() <= max_key(c), 0 <= max_key(c),
    decreases c.len(),
{
    if i < c.len() - 1 { lemma_max_key_bounds(c.drop_last(), i); }
    else if c.len() > 1 { lemma_max_key_bounds(c.drop_last(), 0); }
}
pub proof fn lemma_items_len(b: Seq<u8>, c: Seq<Chrom>, key: int)
    requires forall|i: int| 0 <= i < c.len() ==> (#[trigger] c[i]).0@.len() <= key,
    ensures items_from(b, c, key).len() == b.len() + c.len() * (key + 8),
    decreases c.len(),
{
    if c.len() > 0 {
        let d = c.drop_last();
        assert forall|i: int| 0 <= i < d.len() implies (#[trigger] d[i]).0@.len() <= key by { assert(d[i] == c[i]); }
        lemma_items_len(b, d, key);
        assert(c.len() * (key + 8) == d.len() * (key + 8) + (key + 8)) by (nonlinear_arith) requires c.len() == d.len() + 1;
    }
}

/// leaf item i as an independent decoder finds it: key, chromId, chromSize
pub open spec fn item_bytes(c: Chrom, key: int) -> Seq<u8> { pad(c.0@, key) + le32(c.1) + le32(c.2) }
/// byte offset of item i behind the node header (items are key + 8 bytes each)
pub open spec fn item_off(i: int, key: int) -> int { i * (key + 8) }
pub proof fn lemma_item_off(i: int, key: int)
    ensures item_off(i + 1, key) == item_off(i, key) + key + 8, item_off(0, key) == 0,
{
    assert((i + 1) * (key + 8) == i * (key + 8) + (key + 8)) by (nonlinear_arith);
}
pub proof fn lemma_item_off_mono(i: int, j: int, key: int)
    requires 0 <= i <= j, 0 <= key,
    ensures item_off(i, key) <= item_off(j, key),
{
    assert(i * (key + 8) <= j * (key + 8)) by (nonlinear_arith) requires 0 <= i <= j, 0 <= key;
}
/// the fixed-size items sit one after the other: item i occupies [item_off(i), item_off(i + 1)) behind `b`
pub proof fn lemma_item_at(b: Seq<u8>, c: Seq<Chrom>, key: int, i: int)
    requires 0 <= i < c.len(), 0 <= key, forall|j: int| 0 <= j < c.len() ==> (#[trigger] c[j]).0@.len() <= key,
    ensures items_from(b, c, key).subrange(b.len() + item_off(i, key), b.len() + item_off(i + 1, key)) == item_bytes(c[i], key),
    decreases c.len(),
{
    let d = c.drop_last();
    assert forall|j: int| 0 <= j < d.len() implies (#[trigger] d[j]).0@.len() <= key by { assert(d[j] == c[j]); }
    lemma_items_len(b, d, key);
    lemma_item_off(i, key);
    let g = items_from(b, d, key);
    let f = items_from(b, c, key);
    let o = b.len() + item_off(i, key);
    assert(g.len() == b.len() + item_off(d.len() as int, key));
    if i == c.len() - 1 {
        assert(f.subrange(o, o + key + 8) =~= item_bytes(c.last(), key));
    } else {
        lemma_item_at(b, d, key, i);
        lemma_item_off_mono(i + 1, d.len() as int, key);
        assert(f.subrange(o, o + key + 8) =~= g.subrange(o, o + key + 8));
    }
}

// ---- verified helpers standing in for non-Verus std calls ----
/// R12u64: std::cmp::min on u64 (not used by the pinned code; present so that an edit to `min` is judged, not rejected)
pub fn min_u64(a: u64, b: u64) -> (r: u64) ensures r == if a <= b { a } else { b } { if a <= b { a } else { b } }
/// R12u64: std::cmp::max on u64
pub fn max_u64(a: u64, b: u64) -> (r: u64)
    ensures r == imax(a as int, b as int),
{ if a >= b { a } else { b } }

/// `chroms.iter().map(|a| a.0.as_bytes().len() as u32).fold(0, u32::max)`
pub fn max_name_len(chroms: &Vec<Chrom>) -> (r: u32)
    requires forall|i: int| 0 <= i < chroms@.len() ==> (#[trigger] chroms@[i]).0@.len() <= u32::MAX,
    ensures r == max_key(chroms@),
{
    let mut m: u32 = 0;
    for i in 0..chroms.len()
        invariant
            m == max_key(chroms@.subrange(0, i as int)),
            forall|i: int| 0 <= i < chroms@.len() ==> (#[trigger] chroms@[i]).0@.len() <= u32::MAX,
    {
        proof { assert(chroms@.subrange(0, i + 1).drop_last() =~= chroms@.subrange(0, i as int)); }
        let l = chroms[i].0.len() as u32;
        if l > m { m = l; }
    }
    proof { assert(chroms@.subrange(0, chroms@.len() as int) =~= chroms@); }
    m
}

/// `vec![0u8; n]`
pub fn zero_vec(n: usize) -> (r: Vec<u8>)
    ensures r@ == zeros(n as int),
{
    let mut v: Vec<u8> = Vec::new();
    let mut i: usize = 0;
    while i < n
        invariant i <= n, v@.len() == i, forall|j: int| 0 <= j < i ==> (#[trigger] v@[j]) == 0u8,
        decreases n - i,
    {
        v.push(0u8);
        i = i + 1;
    }
    proof { assert(v@ =~= zeros(n as int)); }
    v
}

/// `buf[..src.len()].copy_from_slice(src)`: requires = the real panic condition of the slice index;
/// only the first `src.len()` bytes change, whatever the buffer held beyond them stays
pub fn copy_prefix(buf: &mut Vec<u8>, src: &Vec<u8>)
    requires src@.len() <= old(buf)@.len(),
    ensures final(buf)@ == src@ + old(buf)@.subrange(src@.len() as int, old(buf)@.len() as int),
{
    let mut i: usize = 0;
    while i < src.len()
        invariant
            i <= src@.len(), src@.len() <= buf@.len(), buf@.len() == old(buf)@.len(),
            forall|j: int| 0 <= j < i ==> (#[trigger] buf@[j]) == src@[j],
            forall|j: int| i <= j < buf@.len() ==> (#[trigger] buf@[j]) == old(buf)@[j],
        decreases src@.len() - i,
    {
        buf.set(i, src[i]);
        i = i + 1;
    }
    proof { assert(buf@ =~= src@ + old(buf)@.subrange(src@.len() as int, old(buf)@.len() as int)); }
}

//@extract fn bigtools/src/bbi/bbiwrite.rs write_chrom_tree
//@rule R16
//@rule R3 min=8
//@rule R8
//@rule R12u64 min=0
//@presub /let mut chroms: Vec<\(&String, &u32\)> = chrom_ids\.iter\(\)\.collect\(\);/ => let mut chroms = chroms; min=1 count=1
//@presub /chroms\.sort_by_key\(\|v\| \*v\.1\);/ => "" min=0 count=1
//@presub /chroms\.sort\w*\([^;]*\);/ => havoc_order(&mut chroms); min=0
//@presub /let max_bytes = chroms\s*\.iter\(\)\s*\.map\(\|a\| a\.0\.as_bytes\(\)\.len\(\) as u32\)\s*\.fold\(0, u32::max\);/ => let max_bytes = max_name_len(&chroms); min=1 count=1
//@presub /let (?:mut )?key_bytes = (?:&mut )?vec!\[0u8; ([^\]]+)\];/ => let mut key_bytes__v = zero_vec(\1); min=1 count=1
//@presub /let chrom_bytes = chrom\.as_bytes\(\);/ => let chrom_bytes = chrom; min=0 count=1
//@presub /key_bytes\[\.\.chrom_bytes\.len\(\)\]\.copy_from_slice\(chrom_bytes\);/ => copy_prefix(&mut key_bytes__v, chrom_bytes); min=0 count=1
//@presub /let length = chrom_sizes\s*\.get\(&chrom\[\.\.\]\)\s*\.expect\(&format!\("Expected length for chrom: \{\}", chrom\)\);/ => let length = &chroms[i__1].2; min=1 count=1
//@sub /<W: Write \+ Seek \+ Send \+ 'static>\(\s*file: &mut BufWriter<W>,\s*chrom_sizes: std::collections::HashMap<String, u32>,\s*chrom_ids: &std::collections::HashMap<String, u32>,/ => (file: &mut Sink, chroms: Vec<Chrom>, min=1
//@sub /io::Result<\(\)>/ => Result<(), IoError> min=1
//@sub /for \(chrom, id\) in chroms \{/ => for i__1 in 0..chroms.len() { let chrom = &chroms[i__1].0; let id = &chroms[i__1].1; min=1 count=1
//@sub /put_bytes\(&?(?:mut )?key_bytes\)/ => put_bytes(key_bytes__v.as_slice()) min=0
//@ret r
//@sig
    requires
        [[L: pre_sorted_by_id]]
        sorted_by_id(chroms@),
        [[L: pre_at_most_65535_chromosomes]]
        chroms@.len() <= 65535,
        [[L: pre_names_shorter_than_4GiB]]
        forall|i: int| 0 <= i < chroms@.len() ==> (#[trigger] chroms@[i]).0@.len() <= u32::MAX,
    ensures
        [[L: never_fails_on_memory_sink]]
        r is Ok,
        [[L: bytes_are_published_chrom_tree_layout]]
        final(file)@ == fmt_chrom_tree_from(old(file)@, chroms@),
        [[L: size_is_36_plus_count_times_key_plus_8]]
        final(file)@.len() == old(file)@.len() + 36 + chroms@.len() * (max_key(chroms@) + 8),
        [[L: every_key_is_exactly_key_size_bytes]]
        forall|i: int| 0 <= i < chroms@.len() ==> pad((#[trigger] chroms@[i]).0@, max_key(chroms@)).len() == max_key(chroms@),
        [[L: item_i_is_key_id_size_at_36_plus_i_times_item_size]]
        forall|i: int| 0 <= i < chroms@.len() ==> final(file)@.subrange(old(file)@.len() + 36 + item_off(i, max_key(chroms@)), old(file)@.len() + 36 + item_off(i + 1, max_key(chroms@)))
            == item_bytes(#[trigger] chroms@[i], max_key(chroms@)),
        [[L: single_leaf_holds_all_items]]
        imax(256, chroms@.len() as int) >= chroms@.len() && imax(256, chroms@.len() as int) <= u32::MAX,
//@open
    let ghost b0 = file@;
    let ghost n = chroms@.len() as int;
    let ghost key = max_key(chroms@);
    proof {
        assert forall|i: int| 0 <= i < chroms@.len() implies (#[trigger] chroms@[i]).0@.len() <= key && 0 <= key by { lemma_max_key_bounds(chroms@, i); }
    }
//@at /file\.put_u8\(/ nth=1 before
    assert(file@ == put_tree_header(b0, n, key)); [[L: tree_header_in_published_order]]
//@at /file\.put_u\d+\(item_count as/ before
    assert(item_count as u16 == item_count); [[L: item_count_fits_u16]]
//@at /file\.put_u\d+\(item_count as/ after
    let ghost h = put_node_header(put_tree_header(b0, n, key), n);
    assert(file@ == h); [[L: node_header_is_leaf_with_count]]
    assert(file@ == items_from(h, chroms@.subrange(0, 0), key));
//@loop 1
        invariant
            [[L: loop/frame]]
            n == chroms@.len(), key == max_key(chroms@), max_bytes == key, 0 <= key,
            forall|i: int| 0 <= i < chroms@.len() ==> (#[trigger] chroms@[i]).0@.len() <= key,
            [[L: loop/items_prefix_written]]
            file@ == items_from(h, chroms@.subrange(0, i__1 as int), key),
//@at /let chrom = &chroms\[i__1\]\.0;/ after
        proof {
            assert(chroms@.subrange(0, i__1 + 1).drop_last() =~= chroms@.subrange(0, i__1 as int));
            assert(chroms@.subrange(0, i__1 + 1).last() == chroms@[i__1 as int]);
            assert(chroms@[i__1 as int].0@.len() <= key);
        }
        let ghost prev = file@;
//@at /file\.put_u32\(\*\w+\)\?;/ nth=2 after
        assert(file@ == put_item(prev, chroms@[i__1 as int], key)); [[L: loop/item_is_key_id_size]]
//@at /Ok\(\(\)\)/ before
    proof {
        assert(chroms@.subrange(0, n) =~= chroms@);
        lemma_items_len(h, chroms@, key);
        assert forall|i: int| 0 <= i < chroms@.len() implies pad((#[trigger] chroms@[i]).0@, key).len() == key by {}
        assert(h.len() == b0.len() + 36);
        assert forall|i: int| 0 <= i < chroms@.len() implies file@.subrange(b0.len() + 36 + item_off(i, key), b0.len() + 36 + item_off(i + 1, key))
            == item_bytes(#[trigger] chroms@[i], key) by { lemma_item_at(h, chroms@, key, i); }
    }
//@end

} // verus!
fn main() {}
