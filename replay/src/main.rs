//! Replay / counterexample-search drivers.  They are NOT the deciding step of any
//! check: a property is decided by the deductive verifier.  After a baseline
//! obligation fails, the runner calls `bt-replay <driver> search <seed> <budget>`
//! to look for a concrete input on which the REAL code (public API of /repo's
//! crate) violates the property's oracle, and `bt-replay <driver> run <args>` to
//! replay a recorded input.  Exit 0 = property held on the input(s); 1 = violated
//! (a line `REPRODUCED driver=<d> args=<args> :: <what>` is printed); 2 = usage.
use std::collections::HashMap;

mod rng;
mod bw;
mod bb;
mod misc;

pub type Args = HashMap<String, String>;

pub fn parse_args(s: &str) -> Args {
    s.split_whitespace()
        .filter_map(|kv| kv.split_once('=').map(|(k, v)| (k.to_string(), v.to_string())))
        .collect()
}

fn main() {
    let a: Vec<String> = std::env::args().collect();
    if a.len() < 3 {
        eprintln!("usage: bt-replay <driver> run '<k=v ...>' | search <seed> <budget>");
        std::process::exit(2);
    }
    let driver = a[1].as_str();
    if driver == "stdin_autosql" && a[2] == "child" { misc::stdin_autosql_child(&a[3], &a[4]); return; }
    let run: fn(&Args) -> Result<(), String>;
    let gen: fn(&mut rng::Rng) -> String;
    match driver {
        "bw_zoom" => { run = bw::run_zoom; gen = bw::gen_zoom; }
        "merge" => { run = bw::run_merge; gen = bw::gen_merge; }
        "merge_groups" => { run = bw::run_merge_groups; gen = bw::gen_merge_groups; }
        "bw_runs" => { run = bw::run_runs; gen = bw::gen_runs; }
        "merge_many" => { run = bw::run_merge_many; gen = bw::gen_merge_many; }
        "zoom_dir" => { run = bw::run_zoom_dir; gen = bw::gen_zoom_dir; }
        "zoom_auto" => { run = bw::run_zoom_auto; gen = bw::gen_zoom_auto; }
        "bw_roundtrip" => { run = bw::run_roundtrip; gen = bw::gen_roundtrip; }
        "bb_query" => { run = bb::run_query; gen = bb::gen_query; }
        "bb_summary" => { run = bb::run_summary; gen = bb::gen_summary; }
        "bb_summary2" => { run = bb::run_summary2; gen = bb::gen_summary2; }
        "bb_zoom" => { run = bb::run_zoom; gen = bb::gen_zoom; }
        "bb_accept" => { run = bb::run_accept_implies_readback; gen = bb::gen_accept_implies_readback; }
        "fileview" => { run = misc::run_fileview; gen = misc::gen_fileview; }
        "autosql" => { run = misc::run_autosql; gen = misc::gen_autosql; }
        "stdin_autosql" => { run = misc::run_stdin_autosql; gen = misc::gen_stdin_autosql; }
        "indexer" => { run = misc::run_indexer; gen = misc::gen_indexer; }
        "compat" => { run = misc::run_compat; gen = misc::gen_compat; }
        "nonleaf_at_eof" => { run = misc::run_nonleaf_at_eof; gen = misc::gen_nonleaf_at_eof; }
        _ => { eprintln!("unknown driver {}", driver); std::process::exit(2); }
    }
    match a[2].as_str() {
        "run" => {
            let args = a.get(3).cloned().unwrap_or_default();
            // a panic of the real code is a reproduced failure of "never panics", not a crash of the driver
            let parsed = parse_args(&args);
            let outcome = match std::panic::catch_unwind(std::panic::AssertUnwindSafe(|| run(&parsed))) {
                Ok(r) => r,
                Err(p) => Err(format!("PANIC in the real code: {}", p.downcast_ref::<String>().cloned().or_else(|| p.downcast_ref::<&str>().map(|s| s.to_string())).unwrap_or_else(|| "<non-string payload>".to_string()))),
            };
            match outcome {
                Ok(()) => { println!("HELD driver={} args={}", driver, args); }
                Err(e) => { println!("REPRODUCED driver={} args={} :: {}", driver, args, e); std::process::exit(1); }
            }
        }
        "search" => {
            let seed: u64 = a.get(3).and_then(|s| s.parse().ok()).unwrap_or(0);
            let budget: u64 = a.get(4).and_then(|s| s.parse().ok()).unwrap_or(300);
            let mut r = rng::Rng::new(seed.wrapping_add(0x9E3779B97F4A7C15));
            for _ in 0..budget {
                let args = gen(&mut r);
                if let Err(e) = run(&parse_args(&args)) {
                    println!("REPRODUCED driver={} args={} :: {}", driver, args, e);
                    std::process::exit(1);
                }
            }
            println!("HELD driver={} searched={}", driver, budget);
        }
        _ => std::process::exit(2),
    }
}
