// bed::autosql::bed_autosql -- the schema generator used by bedtobigbed when no --autosql is given.
//   C19: "the schema it generates from the first BED line declares exactly three plus the number of extra columns fields".
// String building is outside Verus.  The output `String` is modelled by the shim `Out`, which records the NAMES of the
// field lines appended (in order) and the characters pushed after the last one.  Every string literal of the function
// is reduced MECHANICALLY (regex) to the field name it declares (`"   uint score;  \"Score (0-1000)\"\n"` -> `"score"`),
// so the count, the order and the names of the declared fields are judged on the repository text; the SQL types, the
// comments, the whitespace and the `table bed "Browser Extensible Data" (` preamble are NOT (see NOTES.md).
use vstd::prelude::*;
verus! {

// ---------------- shims (assumed; listed in NOTES.md) ----------------
/// name of the generated column number n (text `field{n}`)
pub uninterp spec fn numbered_name(n: int) -> Seq<char>;
/// number of pieces of `s.split(sep)` (= number of `sep` characters + 1)
pub uninterp spec fn sep_pieces(s: Seq<char>, sep: char) -> int;
/// number of pieces of `s.split('\t')`: the TAB-separated columns
pub open spec fn tab_pieces(s: Seq<char>) -> int { sep_pieces(s, '\t') }
/// number of items of `s.split_whitespace()` (maximal runs of non-whitespace): a DIFFERENT function of the text -- it is not
/// the number of TAB-separated columns (a blank inside a column adds one, an empty column removes one)
pub uninterp spec fn ws_tokens(s: Seq<char>) -> int;

#[verifier::external_body]
pub struct Out { _p: u8 }
impl Out {
    /// names of the field lines appended so far, in order
    pub uninterp spec fn fields(&self) -> Seq<Seq<char>>;
    /// characters pushed after the last field line
    pub uninterp spec fn tail(&self) -> Seq<char>;
    /// the opening literal: preamble + the three mandatory field lines (names cut out of the literal by regex)
    #[verifier::external_body]
    fn header3(a: &str, b: &str, c: &str) -> (r: Out)
        ensures r.fields() == seq![a@, b@, c@], r.tail() == Seq::<char>::empty(),
    { unimplemented!() }
    /// `String::push_str` of one field line (argument = the field's name)
    #[verifier::external_body]
    fn push_str(&mut self, name: &str)
        ensures final(self).fields() == old(self).fields().push(name@), final(self).tail() == Seq::<char>::empty(),
    { unimplemented!() }
    /// `String::push`
    #[verifier::external_body]
    fn push(&mut self, c: char)
        ensures final(self).fields() == old(self).fields(), final(self).tail() == old(self).tail().push(c),
    { unimplemented!() }
}
/// `format!("   lstring field{};\t\"Undocumented field\"\n", n)`
#[verifier::external_body]
fn numbered_field(n: usize) -> (r: &'static str)
    ensures r@ == numbered_name(n as int),
{ unimplemented!() }
/// `rest.is_empty()`
#[verifier::external_body]
fn str_is_empty(s: &str) -> (r: bool)
    ensures r == (s@.len() == 0),
{ s.is_empty() }
/// `rest.split(sep).count()` (REAL std contract): the number of `sep`-separated pieces, at least one (also for the empty
/// text); a str is at most isize::MAX bytes long.  Only `sep == '\t'` gives the number of BED columns.
#[verifier::external_body]
fn split_columns(s: &str, sep: char) -> (r: usize)
    ensures r as int == sep_pieces(s@, sep), 1 <= r <= usize::MAX / 2 + 1,
{ s.split(sep).count() }
/// `rest.split_whitespace().count()` (REAL std contract): the number of whitespace-separated tokens -- possibly 0
#[verifier::external_body]
fn whitespace_tokens(s: &str) -> (r: usize)
    ensures r as int == ws_tokens(s@), 0 <= r <= usize::MAX / 2 + 1,
{ s.split_whitespace().count() }
fn min_usize(a: usize, b: usize) -> (r: usize) ensures r == (if a <= b { a } else { b }) { if a <= b { a } else { b } }
fn saturating_sub_usize(a: usize, b: usize) -> (r: usize) ensures r == (if a >= b { a - b } else { 0 }) { if a >= b { a - b } else { 0 } }
fn max_usize(a: usize, b: usize) -> (r: usize) ensures r == (if a >= b { a } else { b }) { if a >= b { a } else { b } }

// ---------------- specification vocabulary (from the property / the BED format) ----------------
/// number of extra (beyond chrom/start/end) columns of the first BED line: 0 for an empty rest, else its tab-separated pieces
pub open spec fn n_extra(rest: Seq<char>) -> int { if rest.len() == 0 { 0 } else { tab_pieces(rest) } }
/// the standard BED column names after chrom/chromStart/chromEnd (BED12 + the three BED15 experiment columns)
pub open spec fn std_names() -> Seq<Seq<char>> {
    seq!["name"@, "score"@, "strand"@, "thickStart"@, "thickEnd"@, "reserved"@, "blockCount"@, "blockSizes"@, "chromStarts"@,
         "expCount"@, "expIds"@, "expScores"@]
}
/// the generator's own list says the same, entry by entry
pub open spec fn same_names(v: Seq<&'static str>) -> bool {
    &&& v.len() == std_names().len()
    &&& forall|i: int| 0 <= i < v.len() ==> (#[trigger] v[i])@ == std_names()[i]
}
/// name of extra column i (0-based): standard while the list lasts, then `field{column number}`, column number = 3 + i + 1
pub open spec fn extra_name(i: int) -> Seq<char> {
    if i < std_names().len() { std_names()[i] } else { numbered_name(3 + i + 1) }
}

pub fn bed_autosql(rest: &str) -> (r: Out)
    ensures
        
        r.fields().len() == 3 + n_extra(rest@),
        
        r.fields().len() >= 3 && r.fields()[0] == "chrom"@ && r.fields()[1] == "chromStart"@ && r.fields()[2] == "chromEnd"@,
        
        forall|i: int| 0 <= i < n_extra(rest@) && 3 + i < r.fields().len() ==> #[trigger] r.fields()[3 + i] == extra_name(i),
        
        r.tail() == seq![')'],
{
    let extra_fields = if str_is_empty(rest) {
        0
    } else {
        split_columns(rest, '\t')
    };
    let mut def = Out::header3("chrom", "chromStart", "chromEnd");
    let FIELDS: Vec<&'static str> = vec![
        "name",
        "score",
        "strand",
        "thickStart",
        "thickEnd",
        "reserved",
        "blockCount",
        "blockSizes",
        "chromStarts",
        "expCount",
        "expIds",
        "expScores",
    ];

    proof {
        assert(same_names(FIELDS@)); 
    }
    for i__1 in 0..min_usize(extra_fields, FIELDS.len()) 
        invariant
            
            same_names(FIELDS@),
            def.tail() == Seq::<char>::empty(),
            
            def.fields().len() == 3 + i__1,
            
            def.fields()[0] == "chrom"@ && def.fields()[1] == "chromStart"@ && def.fields()[2] == "chromEnd"@,
            forall|i: int| 0 <= i < i__1 ==> #[trigger] def.fields()[3 + i] == extra_name(i),
{ let field = FIELDS[i__1];
        def.push_str(field);
    }
    for i in FIELDS.len()..max_usize(extra_fields, FIELDS.len()) 
        invariant
            
            same_names(FIELDS@), extra_fields <= usize::MAX / 2 + 1,
            def.tail() == Seq::<char>::empty(),
            
            def.fields().len() == 3 + (if extra_fields < FIELDS@.len() { extra_fields as int } else { i as int }),
            
            def.fields()[0] == "chrom"@ && def.fields()[1] == "chromStart"@ && def.fields()[2] == "chromEnd"@,
            forall|k: int| 0 <= k < def.fields().len() - 3 ==> #[trigger] def.fields()[3 + k] == extra_name(k),
{
        def.push_str(numbered_field(i + 3 + 1))
    }
    def.push(')');
    def
}

} // verus!
fn main() {}

